"""Per-property configuration of bin/check."""

def tiers(qn, tn, qshards=16, tshards=16, qtimeout=600, ttimeout=3000, **kw):
    q = {"n": qn, "shards": qshards, "timeout": qtimeout}
    t = {"n": tn, "shards": tshards, "timeout": ttimeout}
    q.update(kw.get("q", {}))
    t.update(kw.get("t", {}))
    return q, t

CHECKS = {}

def add(pid, pkg, level, qn, tn, module="harness", **kw):
    q, t = tiers(qn, tn, **{k: v for k, v in kw.items() if k in ("qshards", "tshards", "qtimeout", "ttimeout", "q", "t")})
    c = {"module": module, "pkg": pkg, "level": level, "quick": q, "thorough": t}
    if "fuzz" in kw:
        t["fuzz"] = kw["fuzz"]
    for k in ("race", "toolchain", "run", "assumptions", "exhaustive_if", "manifest"):
        if k in kw:
            c[k] = kw[k]
    CHECKS[pid] = c

add("C20", "c20", "exploration", 1000, 4000, exhaustive_if=["FuncsExhaustive"], race=True,
    assumptions=["reflection finds every function field of Funcs (fields of func type whose name ends in '_')",
                 "sentinel arguments/results: delegation is judged by identity of what the recorder saw and returned"])

add("C17", "c17", "exploration", 8000, 80000, fuzz=[("FuzzParse", 90)],
    assumptions=["the reference grammar in c17_test.go transcribes the grammar documented in ociref/reference.go and the OCI tag grammar; registered digest algorithms are sha256/384/512",
                 "router agreement is observed through ociserver.ServeHTTP with a recording backend (internal/ocirequest is not importable)"])

add("C02", "c02", "exploration", 2500, 20000,
    t={"require": ["ev:dangling-tag-read", "ev:referrers-nonempty", "ev:repush-after-delete", "ev:wrong-offset-write", "ev:immutable-refusal", "ev:mount-ok", "ev:commit-ok"]},
    assumptions=["reference model internal/model transcribes interface.go's documented semantics; tolerances: a repository without content may be NAME_UNKNOWN or empty, a dangling tag may resolve or be MANIFEST_UNKNOWN, rejection of a malformed manifest may carry any error code (none is documented)",
                 "artifactType filter always empty (filtering is a documented TODO)"])

add("C03", "c03", "exploration", 600, 6000,
    assumptions=["real loopback HTTP (httptest servers, one http.Transport per hop)",
                 "well-formed repository names and tags only (the client rejects malformed ones locally)",
                 "tolerated by construction: degenerate ranges (only 'no wrong bytes'), mount size 0 over HTTP, HEAD-based resolves compared by status class, un-coded == UNKNOWN, repositories without content may be unknown or empty, a declared size that disagrees with the content is refused by net/http itself (no OCI code), BlobWriter.Cancel and wrong-offset resumes are not part of the differential (C04 covers the latter)"])

add("C04", "c04", "exploration", 2500, 25000,
    t={"require": ["wrong-offset-probe", "resume-minus1", "resume-explicit", "wrong-digest", "len=1"]},
    assumptions=["real loopback HTTP; every hop's transport is tapped to observe the 416 status",
                 "resume with offset -1 when exactly one byte has been received is excluded (stated in the property)",
                 "a wrong-offset resume that is itself refused (no data sent) counts as a refusal with any error"])

add("C01", "c01", "exploration", 1000, 8000,
    assumptions=["own sha256 and an independent (repo,digest)->bytes map are the oracle",
                 "degenerate ranges (o1 >= 0 and o1 <= o0, or o0 beyond the end) may fail or return the exact empty slice; range reads are not digest-verified by the client (documented), so only complete reads must fail on corruption",
                 "corruptions are applied by a RoundTripper between client and server; net/http itself is trusted"])

add("C05", "c05", "exploration", 2000, 20000,
    t={"require": ["multi-page", "start-after", "fault-below", "iterated-twice", "kind:referrers"]},
    assumptions=["real loopback HTTP for http layers", "artifactType filter always empty (documented TODO)",
                 "with a failing layer below, delivered items must be expected items in ascending order and the iteration must end with an error; the exact prefix is not prescribed"])

add("C12", "c12", "exploration", 5000, 50000, exhaustive_if=["FilterWrappersExhaustive2Repos"],
    assumptions=["policies are pure functions of (name, access kind) as the property states", "backend is a recorder that accepts every call"])

add("C13", "c13", "exploration", 2000, 15000,
    assumptions=["the restricted registry is played by a second ocimem driven with the unprefixed names", "registries treat repository names as opaque strings (a name with dot segments is passed below the prefix verbatim and rejected or not found there)"])

add("C14", "c14", "exploration", 800, 10000,
    assumptions=["sequential histories here; the concurrent part of the immutable-tags claim is exercised by the C08 workloads (ledger invariant under -race)",
                 "child descriptors are truthful about media types (a descriptor whose media type disagrees with the stored manifest is outside the generated domain)",
                 "subjects are not part of the closure (a subject may dangle from the start)"])

add("C15", "c15", "exploration", 500, 6000,
    assumptions=["members are ocimem registries (their own semantics are C02's business); expected union results are computed from the members' own answers",
                 "answer order under the concurrent policy is steered with a delay wrapper (exact schedules are C16's business)"])

add("C09", "c09", "exploration", 4000, 40000, fuzz=[("FuzzParseScope", 60)], exhaustive_if=["ScopePairsSmallUniverse", "ScopeSetsSmallUniverse"],
    assumptions=["the naive model is a Go map keyed by the triple; the documented scope syntax (space-separated type:resource:action[,action]) is transcribed in modelParse",
                 "Len on the unlimited scope panics by documentation and is not called"])

add("C19", "c19", "exploration", 4000, 40000,
    assumptions=["helpers are simulated by a HelperRunner function (the exec-based runner is not exercised)", "the reference precedence function in c19_test.go transcribes the property statement"])

add("C07", "c07", "exploration", 1500, 12000, exhaustive_if=[],
    assumptions=["real loopback HTTP, one httptest server per hop, statuses observed by a tap transport on every hop",
                 "multi-%w joins are not generated (MarshalError documents that it picks one); error bodies stay below the client's documented 8 KiB limit",
                 "BlobWriter methods are not carriers (the property names Interface methods)"])

add("C06", "c06", "exploration", 10000, 150000, fuzz=[("FuzzGenerated", 120)],
    assumptions=["the handler is driven in-process (ServeHTTP + httptest.ResponseRecorder) so net/http's own request sanitising is bypassed: strictly more hostile than the wire",
                 "a 500 with code UNKNOWN is conformant by the statement (status agrees with the code) and is not flagged",
                 "backend is ocimem behind a recording wrapper; backend-side inconsistencies are not injected here"])

add("C18", "c18", "exploration", 10000, 100000, fuzz=[("FuzzGenerated", 120)],
    assumptions=["responses are served by a scripted RoundTripper that always sets Response.Request (as a real transport does) and fails every request once the script is exhausted: that makes 'the server's answers are finite' concrete",
                 "a call that has not returned after 10 s is reported as looping without progress (normal calls take microseconds)"])

add("C16", "c16", "exploration", 3000, 30000, module="harness26", toolchain="go1.26.8", exhaustive_if=["UnifyConcurrentSchedules"], qshards=8, tshards=16,
    assumptions=["go1.26.8 testing/synctest: every event of an enumerated schedule is separated from the next by synctest.Wait, so the order is exact",
                 "members are scripted fakes (they answer when told, or only once their context is cancelled)",
                 "a leaked goroutine makes the runtime abort the process when the bubble ends: the failure is persisted before that and the driver reports it"])

add("C10", "c10", "exploration", 6000, 80000, module="harness26", toolchain="go1.26.8",
    assumptions=["go1.26.8 testing/synctest: time.Now inside ociauth is virtual, so expiry boundaries are exact",
                 "the registry and token servers are an in-memory fake world (harness26/authworld) that grants exactly the scope it is asked for or refuses; tokens are self-describing",
                 "tokens with less than the documented 1 s margin left may be reused or refreshed (the margin is a mechanism, not part of the statement)",
                 "concurrent batches assert only the order-independent invariants (own / unexpired tokens)"])

add("C11", "c11", "exploration", 6000, 80000, module="harness26", toolchain="go1.26.8",
    assumptions=["in-memory fake world of registries and token servers (harness26/authworld); secrets are unique strings searched in every outgoing request (also base64- and URL-decoded)",
                 "a destination counts as 'named by the registry' when its host appears in a challenge header that registry has already sent",
                 "redirecting token realms (3xx with Location) are outside the stated fault set"])

add("C08", "c08", "exploration", 100, 1500, race=True, qshards=8, tshards=16, qtimeout=900, ttimeout=3400,
    assumptions=["the Go scheduler is not under the harness's control: interleavings are sampled by running many generated workloads and directed racing loops under the race detector; a failing history is saved verbatim because re-execution need not reproduce it",
                 "linearizability is decided by porcupine against internal/model (the C02 reference model); checks that exceed 4 s are counted as inconclusive, never as violations",
                 "over HTTP only the race detector and the content/digest invariant are in force"])
