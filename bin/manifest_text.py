import json
HOOKS = {
    "guard": "verif",
    "enable": "no hooks are needed: every check builds /repo's working tree unmodified through a go.mod replace directive (harness/go.mod, harness26/go.mod)",
    "baseline_off_cmd": json.load(open("/root/.vp/BASELINE.json"))["cmd"] if __import__("os").path.exists("/root/.vp/BASELINE.json") else "",
    "source_commits": [],
    "add_only": True,
}
NOT_APPLICABLE = {}
TEXT = {}
TEXT["C20"] = {
    "technique": "property-based testing: exhaustive enumeration (thorough) and rapid-generated set/unset assignments of the function table, oracle = recording sentinel functions",
    "level_text": "Every cell of (table nil / each of the 2^18 set-unset assignments) x (with/without error constructor) x (18 methods) is executed in the thorough tier (quick: the structured subset named by the property plus 320k random cells); each call is judged against a recorder: set => delegated once with identical arguments and results, unset => the constructor's error or ErrUnsupported, iterator yields exactly one (zero, err), no panic. For a finite space the property itself names, complete enumeration is the right level.",
    "design_ref": "DESIGN.md section 3, C20",
    "level_note": "Fields are discovered by reflection (func-typed fields ending in '_'); identity of arguments/results is judged with sentinels; NewError's (methodName, repo) arguments are not asserted.",
}
TEXT["C17"] = {
    "technique": "property-based testing (rapid): grammar-directed and mutated reference strings against an independent reference decomposition; round-trip of valid parts; differential of the HTTP router against the validity predicates; native go fuzz target FuzzParse in the thorough tier",
    "level_text": "Generated-input search with three oracles: (1) for arbitrary strings every predicate is total and equals a hand-written matcher of the documented grammar, Parse succeeds iff an independent decomposition into valid parts exists and returns exactly it, and String() reproduces the input; (2) valid parts with a host print to a string that parses back to the same parts; (3) requests with arbitrary repository / tag / digest strings reach the server's backend iff the predicates accept them, with identical arguments. Sampling with boundary-weighted generators (lengths 126-131, 253-258, empty components); absence is not established.",
    "design_ref": "DESIGN.md section 3, C17",
    "level_note": "Trusted: the transcription of the documented grammar into the reference matchers; the set of registered digest algorithms (sha256/384/512); router observed via ociserver.ServeHTTP + recorder.",
}
TEXT["C02"] = {
    "technique": "model-based property testing (rapid, state-aware history generator): every operation's outcome and a full observable sweep are compared with an independent reference model",
    "level_text": "Generated operation histories (all 18 Interface methods plus BlobWriter Write/Close/Size/ID/Commit/Cancel, resume in both modes, both tag modes, malformed names/tags/manifests) are executed on ocimem; after every operation the result is checked against a reference model (per repository: blobs, manifests, tag bindings, upload sessions) that answers with the set of acceptable outcomes, and everything observable in the touched repositories is re-read and compared. Sampling, with the generator's event histogram in the evidence and required event classes in the thorough tier.",
    "design_ref": "DESIGN.md section 3, C02",
    "level_note": "Trusted: internal/model (about 600 lines) as the transcription of interface.go's documented semantics; stated tolerances (empty repository unknown-or-empty, dangling tags, un-coded rejection of malformed manifests, mount size 0).",
}
TEXT["C03"] = {
    "technique": "differential property testing (rapid): generated histories on a bare ocimem vs the same registry behind client->server (1-2 real HTTP hops, generated server options, ocidebug); plus argument-relay check against a recording backend",
    "level_text": "Two generated-input checks. (A) The same operation history is applied to a bare in-memory registry and to one reached through ociclient->ociserver over loopback HTTP (one or two hops, every server option, client page sizes, ocidebug at every position); each call's success, OCI code (status class for HEAD resolves), descriptor, bytes and listings are compared, and finally everything readable from the two backends. (B) Single client calls with names/tags/digests/media types/offsets/start-after strings from the whole valid domain are sent through the stack to a recording backend, which must see exactly the caller's operation and arguments (uploads: exactly one committed blob with the caller's bytes and digest). Sampling; generator classes in the evidence.",
    "design_ref": "DESIGN.md section 3, C03",
    "level_note": "Real net/http over loopback; tolerances listed in the evidence assumptions are part of the oracle and each is traced to documentation in DESIGN.md.",
}
TEXT["C01"] = {
    "technique": "property-based testing (rapid): integrity histories over generated wrapper/HTTP stacks against an independent digest->bytes oracle; fault injection on HTTP responses (body / Content-Length / Docker-Content-Digest corruption) with a clean-EOF-implies-match oracle",
    "level_text": "(A) Generated histories of pushes on every path (PushBlob, chunked, raw single-POST, mount, manifest by tag/digest, raw manifest PUT), truthful or with mismatching digest/size, interleaved with deletes, complete reads and range reads with boundary offsets, through stacks drawn from the wrapper grammar (http 1-2 hops, debug, select, sub, unify); every read is compared with the test's own record and own sha256. (B) Fault enumeration by generation: each GET response is altered in flight (flip/truncate/append/replace x Content-Length left/adjusted x 5 digest-header treatments x omit-digest option); a read that ends cleanly must match its descriptor and the requested digest. Sampling; absence not established.",
    "design_ref": "DESIGN.md section 3, C01",
    "level_note": "Trusted: net/http, crypto/sha256, the stack builder. Degenerate ranges and unverified range readers are tolerated as documented.",
}
TEXT["C04"] = {
    "technique": "property-based testing (rapid): generated content x write partition x chunk hint x close/resume pattern x wrong-offset probes x commit digest, over direct / HTTP (1-2 hops) / ociunify stacks; oracle = bytes read back from every member registry, Size() after every step, ErrRangeInvalid + tapped 416 status",
    "level_text": "Generated-input search over the whole stated domain of a chunked upload (lengths around 0..3 chunk sizes, partitions with empty and oversized writes, hints, every subset of boundaries resumed explicitly or with -1, junk data at a wrong offset that must be refused with range-invalid / 416 on every hop and leave the upload intact, right and wrong commit digests) on 8 stack shapes; after commit the blob is read back from the top of the stack and from each underlying in-memory registry and compared byte for byte.",
    "design_ref": "DESIGN.md section 3, C04",
    "level_note": "Real loopback HTTP; the exclusion stated in the property (offset -1 after exactly one byte) is applied by construction and counted.",
}
TEXT["C05"] = {
    "technique": "property-based testing (rapid): generated contents x wrapper/HTTP stacks x start points x consumer stop indexes; oracle = independently computed sorted/deduplicated/filtered list, protocol monitors at every layer boundary, injected listing faults",
    "level_text": "Generated-input search: listing sizes clustered around multiples of the page size, stacks of up to 4 layers from {http with every page-size relation and Link on/off, debug, select, sub with prefix siblings, unify with equal/overlapping/unknown second member, injected fault}, every class of start-after string, consumers that stop after k items, re-iteration of the same iterator value. A healthy stack must deliver exactly the independently computed list; a stack with a failing layer must end with an error; a monitor between every two layers fails the case if a consumer is invoked after it declined or after an error. Sampling with class histogram and required classes in the thorough tier.",
    "design_ref": "DESIGN.md section 3, C05",
    "level_note": "Real loopback HTTP; consumer is count-bounded so a looping pager fails the case instead of hanging it.",
}
TEXT["C12"] = {
    "technique": "property-based testing: complete enumeration over two repositories (all allow/deny tables x 18 methods x argument choices) plus rapid-generated policies/arguments; oracle = recording backend (zero calls when rejected, one identical call when allowed) and identity of the policy's error",
    "level_text": "Every run enumerates, for two repositories, all 256 AccessChecker tables and all 4 Select policies x 18 methods x every choice of involved repositories (all four mount pairs, empty and non-empty resume ids): a rejected call must not reach the recording backend and must return the policy's own error (Select: name-unknown / denied), an allowed call must reach it exactly once with the caller's context and arguments and hand back the backend's own reader / writer / results. rapid adds random policies over more names (incl. '*' as a repository), listing filters, offsets and start points.",
    "design_ref": "DESIGN.md section 3, C12",
    "level_note": "The finite part is exhaustive for two repositories; policies with side effects or depending on anything but (name, kind) are outside the property.",
}
TEXT["C13"] = {
    "technique": "property-based testing (rapid): per-method relay check against a recording backend with valid and hostile names and context scopes; differential histories Sub(ocimem,prefix) vs a second ocimem playing the restricted registry, with secret content outside the prefix and a frame check",
    "level_text": "(a) For each of the 18 methods and generated prefixes, caller names (valid grammar; empty, dot, dot-dot, slashes, upper case, names equal to the prefix) and context scopes, the recording backend must see exactly one call whose repository is prefix/name (malformed names: empty or literally below prefix/) and whose context scope is the caller's with repository resources prefixed and nothing else changed. (b) Generated histories incl. climbing names are applied to the view and to a stand-alone registry; every outcome must be equal, the view must never serve the secret content that exists only outside the prefix, and after the history plus explicit climbing probes (read, delete, overwrite) everything outside the prefix must be unchanged.",
    "design_ref": "DESIGN.md section 3, C13",
    "level_note": "Sampling. Backends are assumed to treat names as opaque strings (all in-tree ones do).",
}
TEXT["C14"] = {
    "technique": "property-based testing (rapid): generated histories through ReadOnly / Immutable / ocimem immutable-tags with history invariants (full observable snapshot equality, tag ledger, monotone content, reference closure) checked after every step",
    "level_text": "Generated histories (tagged and untagged pushes of equal/different content under few tags, image manifests and nested indexes, deletes aimed at tagged manifests and what they reference, mounts, uploads). ReadOnly: every mutating call fails with ErrUnsupported and a byte-level snapshot of everything observable in the underlying registry is identical after every call. Immutable / immutable-tags: a ledger of every (repository, tag) -> (digest, bytes) ever observed must keep holding after every step; through Immutable every delete fails and retrievable content only grows; in immutable-tags mode the closure of every tagged manifest over layers, config and nested index children stays retrievable.",
    "design_ref": "DESIGN.md section 3, C14",
    "level_note": "Sampling of sequential histories; concurrency for the immutable-tags mode is covered by C08's workloads. Structured manifests are also re-pushed under an opaque media type (which found and now guards fix d9613d5).",
}
TEXT["C15"] = {
    "technique": "property-based testing (rapid): (a) reads through ociunify over two independently generated member states, oracle computed from the members' own answers, both read policies, delayed member; (b) differential write histories: unifier over two equal members vs a lone registry, member-equality invariant after every step; (c) fault injection: one member behind a layer that fails chosen write calls, effect of every successful write looked up in both members",
    "level_text": "(a) Pairs of member states (equal / disjoint / overlapping / conflicting tags / repository on one side) are produced by two generated histories; reads aimed at what either touched go through the unifier under both policies, optionally with the content holder delayed: digest reads succeed iff a member has the content (with its bytes), tag reads never choose silently between conflicting digests, listings are the sorted duplicate-free union with NAME_UNKNOWN only when both members say so. (b) The same write history (incl. chunked uploads, resume in both modes, cancel-then-resume) is applied through the unifier over two equal members and to a lone registry: success/failure and results must agree and all three registries must stay observably identical after every step. (c) One member fails chosen write calls (at entry, after consuming the content, at commit), failed calls are retried: a call during which a member failed must not report success, and the effect of every call that reports success must be present in both members.",
    "design_ref": "DESIGN.md section 3, C15",
    "level_note": "Sampling. Exact answer orders and cancellation points are decided in C16 with controlled schedules.",
}
TEXT["C09"] = {
    "technique": "property-based testing against a naive set model: complete enumeration of a 60-triple universe (all subsets <= 3, all pairs of subsets <= 2 / <= 2x3) plus rapid-generated arbitrary fields and scope strings; native fuzz target for ParseScope",
    "level_text": "Every run enumerates all subsets of size <= 3 of a universe of 60 triples that mixes known and unknown types/actions, empty resources and the catalog scope (single-set laws: Len, IsEmpty, Iter exact/strict/stoppable, Holds for all 60 triples, presentation independence, print/parse round trip on the stated domain) and all 3.35M ordered pairs of subsets of size <= 2 (thorough: 66M pairs |A|<=2,|B|<=3) for Union / Contains / Equal against a Go map model. rapid adds arbitrary field values (whitespace, colons, commas, empty, non-ASCII) and scope strings with grouped actions, duplicates and malformed fields: ParseScope must equal the documented tokenisation, keep the original text, and a union that adds nothing must return the receiver with its text unchanged.",
    "design_ref": "DESIGN.md section 3, C09",
    "level_note": "Exhaustive over the small universe only; larger sets and arbitrary strings are sampled.",
}
TEXT["C19"] = {
    "technique": "property-based testing (rapid): generated config documents and helper behaviours, loaded 16 times through LoadWithEnv with varied lookup orders, against an independent reference implementation of the stated precedence",
    "level_text": "Config documents are generated from the schema (host keys, URL keys with paths and trailing slashes, '//' keys without scheme, colliding keys, explicit + derived entries; username/password, base64 auth incl. ':' and NUL inside passwords, identity / registry tokens, credsStore, credHelpers incl. empty and equal-to-store) with helper behaviours per (helper, host); each document is written to a temp DOCKER_CONFIG, decoded 16 times and every host looked up in a different order each time; every answer must equal an independent 40-line reference of the stated precedence, which cannot depend on map order.",
    "design_ref": "DESIGN.md section 3, C19",
    "level_note": "The docker-credential-* exec runner is replaced by a function; only documented error classes are compared (entry equality; ErrHelperNotFound / helper error / failure).",
}
TEXT["C07"] = {
    "technique": "property-based testing (rapid) plus a complete code x carrier grid: scripted backend errors sent through 1-3 real server->client hops; oracle = errors.Is invariance against all standard values, specification status table on every hop, JSON-equal detail, message fixed point",
    "level_text": "A backend that answers every method with a scripted error (15 standard codes, custom codes, none; wrapped by %w and HTTP-status wrappers with any status 400-599; messages that look like rendered prefixes; JSON details) sits behind 1..3 real ociserver->ociclient hops; for every hop count up to the drawn one, every Interface method as carrier: errors.Is against each standard value must equal the answer on the original error (documented status mapping for HEAD carriers), every hop's HTTP status must be the specification's for the code or else the error's own, code and detail must be preserved, and the message after h hops must equal the message after one hop. A complete grid (17 codes x 18 carriers x bare / status-wrapped, 2 hops) runs every time.",
    "design_ref": "DESIGN.md section 3, C07",
    "level_note": "Sampling beyond the grid. The specification's status table is transcribed in the test (independent of errorStatuses).",
}
TEXT["C06"] = {
    "technique": "property-based testing (rapid): grammar-generated and mutated HTTP requests served in-process against a recording, close-tracking backend; oracle = no panic, OCI error documents with specification statuses, mandated success headers, backend-argument validity, every reader/writer closed",
    "level_text": "Requests are generated from the endpoint table (8 templates) with slots filled from known / valid / hostile generators, then mutated at the path, query, header and body level (empty segments such as /v2/name/manifests/, repeated slashes, reserved words as names, over-long names, malformed and repeated query parameters, boundary Range / Content-Range values, mismatching Content-Length), under every server option combination, and served by ociserver.ServeHTTP directly. Each response is judged by status class: error documents and code/status agreement, per-endpoint mandatory headers and body-length consistency; the recording backend shows whether an invalid name, tag or digest ever got through and whether everything the server obtained was closed.",
    "design_ref": "DESIGN.md section 3, C06",
    "level_note": "In-process handler invocation (more hostile than the wire). Sampling; the thorough tier raises the count 30x.",
}
TEXT["C18"] = {
    "technique": "property-based testing (rapid): every client operation against generated scripts of distorted HTTP responses from a scripted RoundTripper; oracle = no panic, every API call returns, per-call request bound",
    "level_text": "For each client request kind (incl. multi-request operations: push, chunked upload, resume, paging, large-manifest tag read) rapid draws a finite script of responses, each the well-formed answer distorted in exactly one dimension (status class, one of the seven headers the client reads, body shape/size, Content-Length relation), and a client configuration (ListPageSize incl. non-positive values, chunk hints). Every individual API call must return without panicking and must issue at most one request more than there are answers left; a watchdog fails calls that stop talking to the server but do not return.",
    "design_ref": "DESIGN.md section 3, C18",
    "level_note": "Sampling; magic header values come from tables built from the constants and parsing code paths of the client.",
}
TEXT["C16"] = {
    "technique": "property-based testing with the schedule as the generated input: complete enumeration of answer orders / outcomes / cancellation points executed deterministically in testing/synctest bubbles (plus rapid-generated virtual-time variants); oracle = expected winner from the event order, reader-closure, context-liveness and bubble-goroutine invariants",
    "level_text": "All 864 schedules of the grid 5 entry points x 4 outcome pairs x both completion orders x cancellation {none, before, between, after both, after close} x reader closed before/after the loser answers x Close ok/failing, plus members that answer only on cancellation, are executed on the real ociunify code inside synctest bubbles with synctest.Wait between events, so each schedule is exact and repeatable. For each: the call returns exactly when the events decide it, with the first successful answer; the loser's reader is closed; the chosen member's context is live until the returned reader is closed and cancelled afterwards; the bubble has no goroutine left. rapid adds virtual-time variants where simultaneous events accept either order. This is the one property whose quantifier (orders x outcomes x cancellation points) is finite and is covered completely.",
    "design_ref": "DESIGN.md section 3, C16",
    "level_note": "Needs go1.26.8 (testing/synctest). Members are scripted fakes; real I/O latencies are replaced by events.",
}
TEXT["C10"] = {
    "technique": "property-based testing (rapid) of request timelines in virtual time (testing/synctest) against an in-memory world of registries and token servers that mints self-describing tokens; oracle = invariants over the logged arrivals plus a model of the token cache",
    "level_text": "Generated timelines of requests with required / desired scopes, separated by virtual sleeps that straddle every token lifetime, run through ociauth's transport against fake registries (challenge scope exact / superset / unrelated / none) and token servers (grant, refuse over-wide, no POST endpoint, rotating refresh tokens, mixed lifetimes). Because time is virtual the expiry boundaries are exact. Every token that reaches a registry is decoded: it must have been minted for that host, be unexpired at arrival, cover the required scope when reused and the challenge scope when fresh; a usable cached token implies exactly one registry request and no token request; every token request's scope is checked as a set and, when the union adds nothing, as text.",
    "design_ref": "DESIGN.md section 3, C10",
    "level_note": "Needs go1.26.8. The fake world grants exactly what is asked (or refuses), which is what makes the token's own scope a faithful record of the transport's request.",
}
TEXT["C11"] = {
    "technique": "property-based testing (rapid) with fault injection: generated multi-host conversations, RFC 7235 challenge shapes and token-server faults against ociauth's transport in a synctest bubble; oracle = secret search in every outgoing request, request/attempt bounds, caller-request snapshot, body-close tracking",
    "level_text": "Each host has unique secrets (password, refresh token, static token, minted tokens). Conversations over 2-3 hosts (two differing only in port; realms on separate hosts or on another registry) with every challenge shape (Basic / Bearer / both / unknown schemes / quoted strings with escapes / malformed) and token-server faults (any status 300-599, malformed or empty JSON, token omitted, POST 404, refusal) are run; every outgoing request is searched for every secret and the destination must be allowed by what the owning registry has said so far; each call is bounded (<= 2 registry requests, 401 on a fresh token => 403 DENIED), leaves the caller's request unchanged and closes every body on every path, including config errors and second attempts.",
    "design_ref": "DESIGN.md section 3, C11",
    "level_note": "Needs go1.26.8 (shares the world with C10). Sampling over header shapes listed in the generator table plus their combinations with credentials and faults.",
}
TEXT["C08"] = {
    "technique": "property-based testing of concurrent executions: rapid-generated multi-goroutine workloads and directed racing loops run under the Go race detector; recorded histories checked for linearizability with porcupine against the reference model; content/digest and never-dangling-tag invariants",
    "level_text": "Workloads of 2-16 goroutines over a small shared key space (upload sessions shared by id, tag moves, deletes, mounts, listings), directly on ocimem and through one ociserver with concurrent clients, are executed in a -race build: a race report fails the run. Every direct execution is recorded as an invocation/response history and decided by porcupine against the sequential model of C02; every read must return bytes matching its digest. Directed families loop on the registry's two-step operations (tag flip + delete vs GetTag, commit vs write / resume / cancel on one session) with exact post-conditions. Interleavings are sampled, not enumerated: this is the property where the technique is weakest, and the evidence says how many workloads overlapped on a key.",
    "design_ref": "DESIGN.md section 3, C08",
    "level_note": "Scheduler-dependent; a history that fails is stored verbatim as the replay file (replay re-checks that history deterministically). porcupine timeouts are inconclusive, never violations.",
}
