// Package c01 decides property C01: content integrity on every push path,
// stack and read, and under response corruption.
package c01

import (
	"bytes"
	"context"
	"crypto/sha256"
	"errors"
	"fmt"
	"io"
	"net/http"
	"strings"
	"testing"
	"testing/iotest"

	"cuelabs.dev/go/oci/ociregistry"
	"cuelabs.dev/go/oci/ociregistry/ocimem"
	"github.com/opencontainers/go-digest"
	"pgregory.net/rapid"

	"verif/harness/internal/gen"
	"verif/harness/internal/stack"
	"verif/harness/vt"
)

func TestMain(m *testing.M) { vt.Main(m) }

const mtOpaque = "application/vnd.verif.opaque"

// Step is one step of an integrity history.
type Step struct {
	K     string `json:"k"` // push | read | range | delete
	Path  string `json:"path,omitempty"`
	R     int    `json:"r"`             // repository index
	R2    int    `json:"r2,omitempty"`  // mount source
	C     int    `json:"c"`             // content index
	Bad   int    `json:"bad,omitempty"` // push: 0 truthful, 1 digest of other content, 2 size+1, 3 size-1, 4 digest and size of a proper prefix
	Tag   int    `json:"tag,omitempty"`
	Read  string `json:"read,omitempty"` // getBlob | resolveBlob | getManifest | resolveManifest | getTag | resolveTag
	O0    int64  `json:"o0,omitempty"`
	O1    int64  `json:"o1,omitempty"`
	Parts []int  `json:"parts,omitempty"` // chunked: write sizes
	// Reader (pushBlob): 0 bytes.Reader; 1 a reader of unknown length; 2 a bytes.Buffer that the caller
	// fills with other data once the push has returned; 3 strings.Reader; 4 one byte per Read; 5 the last
	// bytes delivered together with io.EOF
	Reader int `json:"reader,omitempty"`
}

type Script struct {
	Stack    stack.Spec    `json:"stack"`
	Repos    []string      `json:"repos"`
	Contents []gen.Content `json:"contents"`
	Steps    []Step        `json:"steps"`
}

type key struct {
	repo string
	dg   digest.Digest
}

func sha(b []byte) digest.Digest { return digest.Digest(fmt.Sprintf("sha256:%x", sha256.Sum256(b))) }

var tags = []string{"latest", "v1", "list"}

var errSource = errors.New("the content source failed")

// failsWithLast delivers data and reports err together with its last bytes.
type failsWithLast struct {
	data []byte
	err  error
}

func (r *failsWithLast) Read(p []byte) (int, error) {
	n := copy(p, r.data)
	r.data = r.data[n:]
	if len(r.data) == 0 {
		return n, r.err
	}
	return n, nil
}

func run(s Script, v *vt.V) {
	ctx := context.Background()
	base := ocimem.New()
	built, err := stack.Build(base, s.Stack, nil)
	if err != nil {
		v.Failf("harness", "build: %v", err)
		return
	}
	defer built.Close()
	reg := built.Top
	topHTTP := len(s.Stack) > 0 && s.Stack[len(s.Stack)-1].Kind == "http"
	contents := make([][]byte, len(s.Contents))
	for i, c := range s.Contents {
		contents[i] = c.Bytes()
		// contents are made distinct by construction so that a wrong digest can never exist legitimately
		contents[i] = append(contents[i], []byte(fmt.Sprintf("#%d", i))...)
		if c.Len == 0 && i == 0 {
			contents[i] = []byte{}
		}
		if c.Len == 1 && i == 1 {
			contents[i] = []byte{byte(c.Seed)}
		}
	}
	blobs := map[key][]byte{}     // independent oracle: what must be retrievable as a blob
	manifests := map[key][]byte{} // ... as a manifest
	tagged := map[string][]byte{} // repo|tag -> bytes
	poisoned := map[key]bool{}    // digests declared by refused pushes
	v.Class("stack:" + s.Stack.Shape())
	hasWrapperOrHop := len(s.Stack) > 0
	nontriv := []string{}
	fail := func(i int, st Step, sig, f string, a ...any) {
		v.Failf(sig, "step %d %+v through %s: %s", i, st, s.Stack, fmt.Sprintf(f, a...))
	}
	readAll := func(r ociregistry.BlobReader, err error) ([]byte, ociregistry.Descriptor, error) {
		if err != nil {
			return nil, ociregistry.Descriptor{}, err
		}
		defer r.Close()
		data, err := io.ReadAll(r)
		return data, r.Descriptor(), err
	}
	for i, st := range s.Steps {
		repo := s.Repos[st.R%len(s.Repos)]
		data := contents[st.C%len(contents)]
		dg := sha(data)
		k := key{repo, dg}
		switch st.K {
		case "push":
			decl := ociregistry.Descriptor{MediaType: "application/octet-stream", Digest: dg, Size: int64(len(data))}
			wrongD := sha(append([]byte("other:"), data...))
			switch st.Bad {
			case 1:
				decl.Digest = wrongD
			case 2:
				decl.Size++
			case 3:
				decl.Size--
			case 4:
				// digest and size of a proper prefix of the content: what is declared is consistent
				// in itself, the content is longer
				if len(data) >= 2 {
					decl.Digest, decl.Size = sha(data[:len(data)-1]), int64(len(data)-1)
				} else {
					decl.Digest = wrongD
				}
			}
			bad := st.Bad != 0
			var perr error
			isManifest := false
			path := st.Path
			if (path == "singlePost" || path == "rawManifestPut") && !topHTTP {
				path = "pushBlob"
			}
			switch path {
			case "pushBlob":
				var content io.Reader = bytes.NewReader(data)
				if len(st.Parts)%2 == 1 {
					content = struct{ io.Reader }{content} // a reader whose length cannot be asked for
				}
				var reused *bytes.Buffer
				switch st.Reader {
				case 1:
					content = struct{ io.Reader }{bytes.NewReader(data)}
				case 2:
					reused = bytes.NewBuffer(append([]byte(nil), data...))
					content = reused
				case 3:
					content = strings.NewReader(string(data))
				case 4:
					content = iotest.OneByteReader(bytes.NewReader(data))
					if len(data) > 1<<20 {
						content = struct{ io.Reader }{bytes.NewReader(data)} // (millions of one-byte reads only cost time)
					}
				case 5:
					content = iotest.DataErrReader(bytes.NewReader(data))
				case 6:
					// the content source fails at once: whatever is declared, the push fails
					content = iotest.ErrReader(errSource)
				case 7:
					// the content source delivers everything and fails instead of ending
					content = io.MultiReader(bytes.NewReader(data), iotest.ErrReader(errSource))
				case 8:
					// the same with the error truncated sources (archives, HTTP bodies) fail with
					content = io.MultiReader(bytes.NewReader(data), iotest.ErrReader(io.ErrUnexpectedEOF))
				case 9:
					// the failure arrives together with the last bytes
					content = &failsWithLast{data: data, err: []error{io.ErrUnexpectedEOF, errSource}[len(st.Parts)%2]}
				}
				_, perr = reg.PushBlob(ctx, repo, decl, content)
				if st.Reader >= 6 {
					v.Class("push:failing-reader")
					if perr == nil {
						fail(i, st, "failing-reader-accepted", "PushBlob (declared %v/%d) reported success although its content reader failed (after %d bytes)", decl.Digest, decl.Size, map[int]int{6: 0, 7: len(data), 8: len(data), 9: len(data)}[st.Reader])
						return
					}
					continue
				}
				if reused != nil {
					// the buffer is the caller's again: it is refilled with something else
					reused.Reset()
					reused.Write(bytes.Repeat([]byte{0x5A}, len(data)+1))
				}
			case "chunked":
				if st.Bad == 2 || st.Bad == 3 {
					bad = false // a chunked upload declares no size
					decl.Size = int64(len(data))
				}
				var w ociregistry.BlobWriter
				w, perr = reg.PushBlobChunked(ctx, repo, 0)
				if perr == nil {
					rest := data
					for _, n := range st.Parts {
						if n > len(rest) {
							n = len(rest)
						}
						buf := append([]byte(nil), rest[:n]...)
						_, perr = w.Write(buf)
						for bi := range buf { // io.Writer: Write must not retain p
							buf[bi] ^= 0xA5
						}
						if perr != nil {
							break
						}
						rest = rest[n:]
					}
					if perr == nil {
						_, perr = w.Write(rest)
					}
					id := w.ID()
					if perr == nil {
						_, perr = w.Commit(decl.Digest)
					}
					w.Close()
					if perr == nil && !bad && len(st.Parts)%2 == 1 {
						// the session is resumed after its commit and written to: what was
						// committed under the digest must not change
						if w2, err := reg.PushBlobChunkedResume(ctx, repo, id, -1, 0); err == nil {
							extra := bytes.Repeat([]byte{0xEE}, len(data)+3)
							_, werr := w2.Write(extra)
							v.Class("write-after-commit")
							if werr == nil && len(st.Parts)%4 == 1 {
								// a second commit of the grown session: whatever it accepts must be served
								all := append(append([]byte(nil), data...), extra...)
								if _, err := w2.Commit(sha(all)); err == nil {
									v.Class("second-commit-accepted")
									r, err := reg.GetBlob(ctx, repo, sha(all))
									if err != nil {
										fail(i, st, "accepted-not-served", "a second Commit of the session (now %d bytes) was accepted under %s, but that digest cannot be read: %v", len(all), sha(all), err)
										return
									}
									got, rerr := io.ReadAll(r)
									r.Close()
									if rerr != nil || !bytes.Equal(got, all) {
										fail(i, st, "accepted-not-served", "a second Commit of the session was accepted under %s, but reading it yields %d bytes (err %v), want the %d bytes written", sha(all), len(got), rerr, len(all))
										return
									}
								}
							} else if werr == nil && len(st.Parts)%4 == 3 {
								// a second commit that names the first digest again: the content no longer matches it
								if _, err := w2.Commit(dg); err == nil {
									fail(i, st, "mismatch-accepted", "a second Commit of the session (now %d bytes) under the digest of its first %d bytes was accepted", len(data)+len(extra), len(data))
									return
								}
								v.Class("second-commit-mismatch-refused")
							}
							w2.Close()
						}
					}
				}
			case "singlePost":
				if st.Bad == 2 || st.Bad == 3 {
					bad = false // net/http owns Content-Length; only the digest can lie here
				}
				u := built.Servers[len(built.Servers)-1].URL + "/v2/" + repo + "/blobs/uploads/?digest=" + string(decl.Digest)
				req, _ := http.NewRequest("POST", u, bytes.NewReader(data))
				req.Header.Set("Content-Type", "application/octet-stream")
				resp, err := built.Servers[len(built.Servers)-1].Client().Do(req)
				if err != nil {
					perr = err
				} else {
					io.Copy(io.Discard, resp.Body)
					resp.Body.Close()
					if resp.StatusCode != http.StatusCreated {
						perr = fmt.Errorf("status %d", resp.StatusCode)
					}
				}
				if s.Stack[len(s.Stack)-1].NoSinglePost {
					// the server answers 202 and starts a session: nothing is stored
					if perr == nil {
						fail(i, st, "", "single POST stored a blob although DisableSinglePostUpload is set")
						return
					}
					continue
				}
			case "mount":
				from := s.Repos[st.R2%len(s.Repos)]
				src, have := blobs[key{from, dg}]
				_, perr = reg.MountBlob(ctx, from, repo, dg)
				bad = false
				if !have {
					if perr == nil {
						fail(i, st, "", "mount of a blob that is not in %q succeeded", from)
						return
					}
					continue
				}
				data = src
			case "manifest":
				isManifest = true
				bad = false
				tag := ""
				if st.Tag > 0 {
					tag = tags[(st.Tag-1)%len(tags)]
				}
				var d ociregistry.Descriptor
				buf := append([]byte(nil), data...)
				d, perr = reg.PushManifest(ctx, repo, tag, buf, mtOpaque)
				for bi := range buf { // the caller reuses its buffer once the call has returned
					buf[bi] ^= 0xA5
				}
				if perr == nil {
					if d.Digest != dg || d.Size != int64(len(data)) {
						fail(i, st, "", "PushManifest returned %v/%d, want %v/%d", d.Digest, d.Size, dg, len(data))
						return
					}
					if tag != "" {
						tagged[repo+"|"+tag] = data
					}
				}
			case "rawManifestPut":
				// PUT /manifests/<declared digest> with bytes of another digest: only bad pushes use this path
				isManifest = true
				if !bad || st.Bad >= 2 {
					decl.Digest, bad = wrongD, true
				}
				if st.Bad == 4 {
					// the digest of something else, under another algorithm than the registry's own
					decl.Digest = digest.SHA512.FromBytes(append([]byte("other:"), data...))
				} else if st.Bad == 3 {
					decl.Digest = digest.SHA384.FromBytes(append([]byte("other:"), data...))
				}
				u := built.Servers[len(built.Servers)-1].URL + "/v2/" + repo + "/manifests/" + string(decl.Digest)
				req, _ := http.NewRequest("PUT", u, bytes.NewReader(data))
				req.Header.Set("Content-Type", mtOpaque)
				resp, err := built.Servers[len(built.Servers)-1].Client().Do(req)
				if err != nil {
					perr = err
				} else {
					io.Copy(io.Discard, resp.Body)
					resp.Body.Close()
					if resp.StatusCode/100 != 2 {
						perr = fmt.Errorf("status %d", resp.StatusCode)
					}
				}
			default:
				v.Failf("harness", "unknown push path %q", st.Path)
				return
			}
			v.Class("push:%s/bad=%v", path, bad)
			if bad {
				if perr == nil {
					fail(i, st, "mismatch-accepted", "push whose declared digest/size disagrees with its content was accepted")
					return
				}
				// nothing may be retrievable under the declared digest
				if decl.Digest != dg {
					poisoned[key{repo, decl.Digest}] = true
					if r, err := reg.GetBlob(ctx, repo, decl.Digest); err == nil {
						r.Close()
						fail(i, st, "mismatch-stored", "after the refused push the declared digest %s is retrievable as a blob", decl.Digest)
						return
					}
					if r, err := reg.GetManifest(ctx, repo, decl.Digest); err == nil {
						r.Close()
						fail(i, st, "mismatch-stored", "after the refused push the declared digest %s is retrievable as a manifest", decl.Digest)
						return
					}
				} else if _, legit := blobs[k]; !legit && !isManifest {
					if r, err := reg.GetBlob(ctx, repo, dg); err == nil {
						r.Close()
						fail(i, st, "mismatch-stored", "after a push refused for its size the content is retrievable")
						return
					}
				}
				nontriv = append(nontriv, "badpush:"+path)
				continue
			}
			if perr != nil {
				fail(i, st, "", "truthful push of %d bytes failed: %v", len(data), perr)
				return
			}
			if isManifest {
				manifests[k] = data
			} else {
				blobs[k] = data
			}
			if len(data) >= 1 && hasWrapperOrHop {
				nontriv = append(nontriv, "push:"+path)
			}
		case "delete":
			if _, ok := blobs[k]; ok && st.Read != "getManifest" {
				if err := reg.DeleteBlob(ctx, repo, dg); err != nil {
					fail(i, st, "", "DeleteBlob of a present blob: %v", err)
					return
				}
				delete(blobs, k)
			} else if _, ok := manifests[k]; ok {
				if err := reg.DeleteManifest(ctx, repo, dg); err != nil {
					fail(i, st, "", "DeleteManifest of a present manifest: %v", err)
					return
				}
				delete(manifests, k)
			}
		case "read":
			var got []byte
			var desc ociregistry.Descriptor
			var rerr error
			var want []byte
			present := false
			complete := true
			switch st.Read {
			case "getBlob":
				want, present = blobs[k]
				got, desc, rerr = readAll(reg.GetBlob(ctx, repo, dg))
			case "resolveBlob":
				want, present = blobs[k]
				desc, rerr = reg.ResolveBlob(ctx, repo, dg)
				complete = false
			case "getManifest":
				want, present = manifests[k]
				got, desc, rerr = readAll(reg.GetManifest(ctx, repo, dg))
			case "resolveManifest":
				want, present = manifests[k]
				desc, rerr = reg.ResolveManifest(ctx, repo, dg)
				complete = false
			case "getTag", "resolveTag":
				tag := tags[st.Tag%len(tags)]
				want, present = tagged[repo+"|"+tag]
				if present {
					if _, live := manifests[key{repo, sha(want)}]; !live {
						continue // dangling tag: C02's business
					}
					dg = sha(want)
				}
				if st.Read == "getTag" {
					got, desc, rerr = readAll(reg.GetTag(ctx, repo, tag))
				} else {
					desc, rerr = reg.ResolveTag(ctx, repo, tag)
					complete = false
				}
			default:
				v.Failf("harness", "unknown read %q", st.Read)
				return
			}
			v.Class("read:%s/present=%v", st.Read, present)
			if !present {
				if rerr == nil && (poisoned[k] || true) {
					fail(i, st, "phantom-content", "%s of content that was never accepted (or was deleted) in %q succeeded with %d bytes", st.Read, repo, len(got))
					return
				}
				continue
			}
			if rerr != nil {
				fail(i, st, "", "%s of present content failed: %v", st.Read, rerr)
				return
			}
			if desc.Digest != dg || desc.Size != int64(len(want)) {
				fail(i, st, "wrong-descriptor", "%s: descriptor %v/%d, want %v/%d", st.Read, desc.Digest, desc.Size, dg, len(want))
				return
			}
			if complete {
				if !bytes.Equal(got, want) {
					fail(i, st, "wrong-bytes", "%s: read %d bytes with sha %s, pushed %d bytes with sha %s", st.Read, len(got), sha(got), len(want), dg)
					return
				}
				if len(want) >= 1 && hasWrapperOrHop {
					nontriv = append(nontriv, "read:"+st.Read+lenClass(len(want)))
				}
			}
		case "range":
			want, present := blobs[k]
			r, rerr := reg.GetBlobRange(ctx, repo, dg, st.O0, st.O1)
			if !present {
				if rerr == nil {
					r.Close()
					fail(i, st, "phantom-content", "GetBlobRange of absent content succeeded")
					return
				}
				continue
			}
			n := int64(len(want))
			o0, o1 := st.O0, st.O1
			end := o1
			if end < 0 || end > n {
				end = n
			}
			nonEmptyInBounds := o0 >= 0 && o0 < end
			v.Class("range:inbounds=%v", nonEmptyInBounds)
			if rerr != nil {
				if nonEmptyInBounds {
					fail(i, st, "range-refused", "GetBlobRange(%d,%d) of %d bytes failed: %v", o0, o1, n, rerr)
					return
				}
				continue
			}
			got, err := io.ReadAll(r)
			desc := r.Descriptor()
			r.Close()
			var wantSlice []byte
			if o0 >= 0 && o0 <= end {
				wantSlice = want[o0:end]
			}
			if err != nil {
				if nonEmptyInBounds {
					fail(i, st, "range-refused", "GetBlobRange(%d,%d) of %d bytes: read failed: %v", o0, o1, n, err)
					return
				}
				continue
			}
			if !bytes.Equal(got, wantSlice) {
				fail(i, st, "wrong-range-bytes", "GetBlobRange(%d,%d) of %d bytes returned %d bytes (sha %s), want content[%d:%d] (%d bytes)", o0, o1, n, len(got), sha(got), o0, end, len(wantSlice))
				return
			}
			if desc.Digest != dg || desc.Size != n {
				fail(i, st, "range-descriptor", "GetBlobRange(%d,%d): descriptor %v/%d does not describe the whole blob %v/%d", o0, o1, desc.Digest, desc.Size, dg, n)
				return
			}
			if nonEmptyInBounds && hasWrapperOrHop {
				nontriv = append(nontriv, fmt.Sprintf("range:%s", rangeClass(o0, o1, n)))
			}
		}
	}
	if len(nontriv) > 0 {
		v.NonTrivial(s.Stack.Shape() + "|" + strings.Join(dedupe(nontriv), ","))
	}
}

func lenClass(n int) string {
	switch {
	case n <= 2:
		return fmt.Sprintf("/len=%d", n)
	case n < 8192:
		return "/small"
	case n <= 65536:
		return "/medium"
	}
	return "/large"
}

func rangeClass(o0, o1, n int64) string {
	a, b := "mid", "mid"
	switch o0 {
	case 0:
		a = "0"
	case n - 1:
		a = "last"
	}
	switch {
	case o1 < 0:
		b = "neg"
	case o1 == n:
		b = "len"
	case o1 > n:
		b = "beyond"
	}
	return a + "-" + b
}

func dedupe(xs []string) []string {
	seen := map[string]bool{}
	var out []string
	for _, x := range xs {
		if !seen[x] {
			seen[x] = true
			out = append(out, x)
		}
	}
	return out
}

func genStack(t *rapid.T) stack.Spec {
	var s stack.Spec
	n := rapid.IntRange(0, 4).Draw(t, "depth")
	hops := 0
	for i := 0; i < n; i++ {
		k := rapid.SampledFrom([]string{"http", "http", "debug", "select", "sub", "unify"}).Draw(t, "layer")
		switch k {
		case "http":
			if hops == 2 {
				k = "debug"
				s = append(s, stack.Layer{Kind: k})
				continue
			}
			hops++
			s = append(s, stack.GenHTTP(t, fmt.Sprintf("hop%d", hops), []int{0, 2}))
		case "sub":
			s = append(s, stack.Layer{Kind: "sub", Prefix: rapid.SampledFrom([]string{"p", "p/q", "blobs"}).Draw(t, "prefix")})
		case "unify":
			s = append(s, stack.Layer{Kind: "unify", Sequential: rapid.Bool().Draw(t, "sequential")})
		default:
			s = append(s, stack.Layer{Kind: k})
		}
	}
	return s
}

func genScript(t *rapid.T) Script {
	var s Script
	s.Stack = genStack(t)
	s.Repos = []string{"foo", "foo/bar", "a/manifests/b"}
	lens := []int{0, 1, 2, 3, 8191, 8192, 8193, 40000}
	if vt.Thorough() {
		lens = append(lens, 65536, 65537, 131071, 131072, 131073, 300000)
	}
	nc := 4
	for i := 0; i < nc; i++ {
		c := gen.ContentGen(lens, 60).Draw(t, "content")
		if i == 0 && rapid.Bool().Draw(t, "empty0") {
			c.Len = 0
		}
		if i == 1 && rapid.Bool().Draw(t, "one1") {
			c.Len = 1
		}
		s.Contents = append(s.Contents, c)
	}
	if rapid.IntRange(0, 24).Draw(t, "huge") == 0 {
		// content around the size at which registries commonly cap manifests
		s.Contents[nc-1].Len = rapid.SampledFrom([]int{4<<20 - 1, 4 << 20, 4<<20 + 1, 5 << 20}).Draw(t, "hugeLen")
	}
	type pushed struct{ r, c int }
	var have []pushed
	n := rapid.IntRange(1, 25).Draw(t, "nsteps")
	for i := 0; i < n; i++ {
		var st Step
		kind := rapid.SampledFrom([]string{"push", "push", "push", "read", "read", "read", "range", "range", "delete"}).Draw(t, "kind")
		st.K = kind
		pick := func() (int, int) {
			if len(have) > 0 && rapid.IntRange(0, 4).Draw(t, "existing") > 0 {
				p := rapid.SampledFrom(have).Draw(t, "pushed")
				return p.r, p.c
			}
			return rapid.IntRange(0, 2).Draw(t, "r"), rapid.IntRange(0, nc-1).Draw(t, "c")
		}
		switch kind {
		case "push":
			st.R, st.C = rapid.IntRange(0, 2).Draw(t, "r"), rapid.IntRange(0, nc-1).Draw(t, "c")
			st.Path = rapid.SampledFrom([]string{"pushBlob", "pushBlob", "chunked", "chunked", "singlePost", "mount", "manifest", "manifest", "rawManifestPut"}).Draw(t, "path")
			if rapid.IntRange(0, 4).Draw(t, "bad") == 0 || st.Path == "rawManifestPut" {
				st.Bad = rapid.IntRange(1, 4).Draw(t, "badKind")
			}
			switch st.Path {
			case "pushBlob":
				st.Reader = rapid.SampledFrom([]int{0, 0, 1, 2, 2, 3, 4, 5, 6, 7, 8, 9}).Draw(t, "reader")
			case "chunked":
				for j := rapid.IntRange(0, 3).Draw(t, "nparts"); j > 0; j-- {
					st.Parts = append(st.Parts, rapid.SampledFrom([]int{0, 1, 2, 100, 8191, 8192, 8193, 20000}).Draw(t, "part"))
				}
			case "mount":
				if len(have) > 0 {
					p := rapid.SampledFrom(have).Draw(t, "src")
					st.R2, st.C = p.r, p.c
				} else {
					st.R2 = rapid.IntRange(0, 2).Draw(t, "r2")
				}
			case "manifest":
				st.Tag = rapid.IntRange(0, 3).Draw(t, "tag")
			}
			if st.Bad == 0 {
				have = append(have, pushed{st.R, st.C})
			}
		case "read":
			st.R, st.C = pick()
			st.Read = rapid.SampledFrom([]string{"getBlob", "getBlob", "resolveBlob", "getManifest", "resolveManifest", "getTag", "resolveTag"}).Draw(t, "read")
			st.Tag = rapid.IntRange(0, 2).Draw(t, "tag")
		case "range":
			st.R, st.C = pick()
			l := int64(s.Contents[st.C].Len + 2)
			off := func(label string) int64 {
				return rapid.SampledFrom([]int64{-1, 0, 1, 2, l - 1, l, l + 1, l / 2, l/2 + 1, 7, 8192}).Draw(t, label)
			}
			st.O0, st.O1 = off("o0"), off("o1")
		case "delete":
			st.R, st.C = pick()
			st.Read = rapid.SampledFrom([]string{"getBlob", "getManifest"}).Draw(t, "what")
		}
		s.Steps = append(s.Steps, st)
	}
	return s
}

var propHist = &vt.Prop[Script]{
	ID:   "C01",
	Name: "IntegrityHistories",
	Rule: "stack drawn from the grammar S ::= mem | http(S,opts) | debug(S) | select(S) | sub(S,prefix) | unify(S,mem) (depth <= 4, <= 2 hops); history of <= 25 steps over 3 repositories and 4 distinct contents (lengths 0,1,2,3, around 8 KiB, 40000, in one history of 25 one content of 4 MiB-1 .. 5 MiB; thorough also around 64 KiB / 128 KiB / 300000; NUL/0xFF/UTF-8 fragments): pushes by PushBlob (from a bytes.Reader, a reader of unknown length, a strings.Reader, a bytes.Buffer that the caller refills afterwards, one byte per Read, data delivered together with EOF, a source that fails at once or instead of ending: the push fails), chunked writer (generated partition), raw single-POST, mount, PushManifest by tag/digest, raw manifest PUT, each truthful or with a declared digest of other content / size +-1; deletes; complete reads (GetBlob/GetManifest/GetTag/Resolve*) and GetBlobRange(o0,o1) with o0,o1 in {-1,0,1,2,len-1,len,len+1,len/2,...}; oracle = independent map (repo,digest)->bytes and own sha256: exact bytes, digest, size; range = exact slice + whole-blob descriptor, non-empty in-bounds ranges must succeed; refused pushes leave nothing retrievable; non-trivial = a push/read/range of >= 1 byte through >= 1 wrapper or hop, or a mismatching push; distinct = (stack shape, set of (push path | read kind, length class | range class))",
	Gen:  genScript,
	Run:  run,
}

func TestPropHist(t *testing.T) { vt.Check(t, propHist) }

func TestReplay(t *testing.T) {
	vt.Register(propHist)
	vt.Register(propFault)
	vt.Replay(t)
}
