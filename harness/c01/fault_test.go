package c01

import (
	"bytes"
	"context"
	"fmt"
	"io"
	"net/http"
	"strconv"
	"strings"
	"testing"

	"cuelabs.dev/go/oci/ociregistry"
	"cuelabs.dev/go/oci/ociregistry/ocimem"
	"pgregory.net/rapid"

	"verif/harness/internal/gen"
	"verif/harness/internal/stack"
	"verif/harness/vt"
)

// FaultScript: one read through the client of a response that a faulty
// server / proxy has corrupted.
type FaultScript struct {
	OmitDigest bool        `json:"omit_digest"`
	Read       string      `json:"read"` // getBlob | getManifest | getTag
	Content    gen.Content `json:"content"`
	Corrupt    string      `json:"corrupt"` // none | flip | truncate | append | replace
	K          int         `json:"k"`
	AdjustCL   bool        `json:"adjust_cl"`
	Digest     string      `json:"digest"` // keep | remove | other | consistent | malformed
}

type corruptor struct {
	rt   http.RoundTripper
	s    FaultScript
	hit  int
	orig []byte
	sent []byte
}

func (c *corruptor) RoundTrip(req *http.Request) (*http.Response, error) {
	resp, err := c.rt.RoundTrip(req)
	if err != nil || req.Method != "GET" || resp.StatusCode != 200 ||
		!(strings.Contains(req.URL.Path, "/blobs/sha256:") || strings.Contains(req.URL.Path, "/manifests/")) {
		return resp, err
	}
	body, _ := io.ReadAll(resp.Body)
	resp.Body.Close()
	c.hit++
	c.orig = body
	out := append([]byte{}, body...)
	k := c.s.K
	switch c.s.Corrupt {
	case "flip":
		if len(out) > 0 {
			out[k%len(out)] ^= 0x55
		}
	case "truncate":
		n := 1 + k%max(1, len(out))
		if n > len(out) {
			n = len(out)
		}
		out = out[:len(out)-n]
	case "append":
		out = append(out, bytes.Repeat([]byte{'x'}, 1+k%5)...)
	case "replace":
		out = []byte(fmt.Sprintf("completely different content %d", k))
	}
	c.sent = out
	if c.s.AdjustCL {
		resp.ContentLength = int64(len(out))
		resp.Header.Set("Content-Length", strconv.Itoa(len(out)))
	}
	switch c.s.Digest {
	case "remove":
		resp.Header.Del("Docker-Content-Digest")
	case "other":
		resp.Header.Set("Docker-Content-Digest", string(sha([]byte("unrelated"))))
	case "consistent":
		resp.Header.Set("Docker-Content-Digest", string(sha(out)))
	case "malformed":
		resp.Header.Set("Docker-Content-Digest", "sha256:zz")
	}
	resp.Body = io.NopCloser(bytes.NewReader(out))
	return resp, nil
}

func runFault(s FaultScript, v *vt.V) {
	ctx := context.Background()
	mem := ocimem.New()
	data := append(s.Content.Bytes(), '!')
	dg := sha(data)
	if _, err := mem.PushBlob(ctx, "foo", ociregistry.Descriptor{MediaType: "application/octet-stream", Digest: dg, Size: int64(len(data))}, bytes.NewReader(data)); err != nil {
		v.Failf("harness", "setup: %v", err)
		return
	}
	if _, err := mem.PushManifest(ctx, "foo", "latest", data, mtOpaque); err != nil {
		v.Failf("harness", "setup: %v", err)
		return
	}
	var cor *corruptor
	built, err := stack.Build(mem, stack.Spec{{Kind: "http", OmitDigest: s.OmitDigest}}, &stack.Options{WrapTransport: func(_ int, rt http.RoundTripper) http.RoundTripper {
		cor = &corruptor{rt: rt, s: s}
		return cor
	}})
	if err != nil {
		v.Failf("harness", "build: %v", err)
		return
	}
	defer built.Close()
	c := built.Top
	var r ociregistry.BlobReader
	var requested string
	switch s.Read {
	case "getBlob":
		r, err = c.GetBlob(ctx, "foo", dg)
		requested = string(dg)
	case "getManifest":
		r, err = c.GetManifest(ctx, "foo", dg)
		requested = string(dg)
	case "getTag":
		r, err = c.GetTag(ctx, "foo", "latest")
	default:
		v.Failf("harness", "unknown read")
		return
	}
	var got []byte
	var desc ociregistry.Descriptor
	if err == nil {
		desc = r.Descriptor()
		got, err = io.ReadAll(r)
		if err != nil {
			// a consumer that asks again (io.MultiReader, a retry loop) is not told that all is well
			// after all: once the read has failed it does not turn into a clean end of stream
			for again := 0; again < 2; again++ {
				var p [16]byte
				if n, err2 := r.Read(p[:]); err2 == io.EOF || err2 == nil {
					r.Close()
					v.Failf("error-then-clean-eof", "%s of %d bytes, body %s, Docker-Content-Digest %s: the read failed (%v); Read call %d after that returned %d bytes and %v", s.Read, len(data), s.Corrupt, s.Digest, err, again+1, n, err2)
					return
				}
			}
		}
		r.Close()
	}
	if cor.hit == 0 {
		v.Failf("harness", "the corrupting transport saw no GET response")
		return
	}
	changed := !bytes.Equal(cor.sent, cor.orig)
	headerTouched := s.Digest != "keep"
	v.Class("%s/%s/cl-adjusted=%v/digest-%s", s.Read, s.Corrupt, s.AdjustCL, s.Digest)
	if changed || headerTouched {
		v.NonTrivial(fmt.Sprintf("%s|%s|%v|%s|%v|%d", s.Read, s.Corrupt, s.AdjustCL, s.Digest, s.OmitDigest, lenBucket(len(data))))
	}
	desc0 := fmt.Sprintf("%s of %d bytes, body %s (k=%d, Content-Length adjusted=%v), Docker-Content-Digest %s, server omits tag digest=%v", s.Read, len(data), s.Corrupt, s.K, s.AdjustCL, s.Digest, s.OmitDigest)
	if err != nil {
		if !changed && (s.Digest == "keep" || (s.Digest == "remove") || (s.Digest == "consistent")) {
			v.Failf("false-error", "%s: nothing inconsistent was delivered but the read failed: %v", desc0, err)
		}
		return
	}
	// clean end of stream: the bytes must be what the descriptor (and the request) say
	if sha(got) != desc.Digest || int64(len(got)) != desc.Size {
		v.Failf("clean-eof-on-mismatch", "%s: read ended cleanly with %d bytes (sha %s) but the reader's descriptor says %s/%d", desc0, len(got), sha(got), desc.Digest, desc.Size)
		return
	}
	if changed && !bytes.Equal(got, cor.sent) {
		// the response was altered and the read ended cleanly: then the caller must at least have
		// been given exactly what arrived (a client that silently drops or pads bytes hides the
		// mismatch between the body and its Content-Length)
		v.Failf("altered-body-silently-repaired", "%s: %d bytes arrived, the read ended cleanly with %d other bytes", desc0, len(cor.sent), len(got))
		return
	}
	if requested != "" && string(desc.Digest) != requested {
		v.Failf("digest-header-trusted-over-request", "%s: read of %s ended cleanly with %d bytes whose digest is %s", desc0, requested, len(got), desc.Digest)
		return
	}
	if requested != "" && !bytes.Equal(got, data) {
		v.Failf("clean-eof-on-mismatch", "%s: clean read returned other bytes than pushed", desc0)
	}
}

func lenBucket(n int) int {
	switch {
	case n <= 3:
		return n
	case n < 131072:
		return 4
	}
	return 5
}

var propFault = &vt.Prop[FaultScript]{
	ID:   "C01",
	Name: "CorruptedResponses",
	Rule: "one read (GetBlob / GetManifest / GetTag) through ociclient of a GET response altered in flight: body {unchanged, one byte flipped at k, last k bytes dropped, k bytes appended, replaced} x Content-Length {left, adjusted} x Docker-Content-Digest {kept, removed, other valid digest, digest of the altered body, malformed} x server option OmitDigestFromTagGetResponse, content lengths 1..3, small, around the 128 KiB in-memory threshold; oracle = a read that reaches a clean end of stream has bytes whose own sha256 and length equal the reader's descriptor, and for digest-addressed reads the requested digest; unaltered responses must read cleanly; non-trivial = body or digest header altered; distinct = (read kind, corruption, CL mode, digest mode, omit option, length bucket)",
	Gen: func(t *rapid.T) FaultScript {
		return FaultScript{
			OmitDigest: rapid.Bool().Draw(t, "omitDigest"),
			Read:       rapid.SampledFrom([]string{"getBlob", "getManifest", "getTag", "getTag"}).Draw(t, "read"),
			Content:    gen.ContentGen([]int{0, 1, 2, 100, 131070, 131071, 131072, 140000}, 50).Draw(t, "content"),
			Corrupt:    rapid.SampledFrom([]string{"none", "flip", "truncate", "append", "replace"}).Draw(t, "corrupt"),
			K:          rapid.IntRange(0, 200000).Draw(t, "k"),
			AdjustCL:   rapid.Bool().Draw(t, "adjustCL"),
			Digest:     rapid.SampledFrom([]string{"keep", "keep", "remove", "other", "consistent", "malformed"}).Draw(t, "digest"),
		}
	},
	Run: runFault,
}

func TestPropFault(t *testing.T) { propFault.Scale = 2; vt.Check(t, propFault) }
