// Package c02 decides property C02: ocimem follows the reference registry
// semantics (internal/model) on every operation history.
package c02

import (
	"fmt"
	"strings"
	"testing"

	"cuelabs.dev/go/oci/ociregistry/ocimem"

	"verif/harness/internal/hist"
	"verif/harness/internal/model"
	"verif/harness/internal/ops"
	"verif/harness/vt"
)

func TestMain(m *testing.M) { vt.Main(m) }

// sweep reads everything observable in the repositories named and checks it
// against the model (reads do not change either side).
func sweep(env *ops.Env, m *model.Model, repos []int, v *vt.V, after string) bool {
	u := env.U
	check := func(op ops.Op) bool {
		out := env.Exec(op)
		if why := m.Step(u, op, out); why != "" {
			v.Failf(sig(op, why), "after %s: observable sweep: %s %+v: %s", after, op.K, op, why)
			return false
		}
		return true
	}
	for _, r := range repos {
		for b := range u.Blobs {
			if !check(ops.Op{K: "resolveBlob", R: r, B: b}) || !check(ops.Op{K: "getBlob", R: r, B: b}) {
				return false
			}
		}
		for i := range u.Manifests {
			if !check(ops.Op{K: "resolveManifest", R: r, M: i}) || !check(ops.Op{K: "getManifest", R: r, M: i}) || !check(ops.Op{K: "referrers", R: r, M: i}) {
				return false
			}
		}
		for t := range u.Tags {
			if !check(ops.Op{K: "resolveTag", R: r, T: t}) || !check(ops.Op{K: "getTag", R: r, T: t}) {
				return false
			}
		}
		if !check(ops.Op{K: "tags", R: r}) {
			return false
		}
	}
	return check(ops.Op{K: "repos"})
}

func sig(op ops.Op, why string) string {
	switch {
	case op.K == "pushBlob" && op.Mode >= 1 && op.Mode <= 3 && strings.Contains(why, "error code UNCODED"):
		return "pushblob-mismatch-uncoded"
	}
	return ""
}

func run(s hist.Script, v *vt.V) {
	u := &s.U
	rcfg := ocimem.Config{ImmutableTags: s.Immutable}
	reg := ocimem.NewWithConfig(&rcfg)
	rcfg.ImmutableTags = !s.Immutable // the caller's value is the caller's again once the registry is made
	env := ops.NewEnv(u, reg)
	env.KeepCommitted = true
	env.HoldListings = true
	env.OverlapReads = true
	defer env.CloseAll()
	m := model.New(s.Immutable)
	m.KeepCommitted = true
	all := make([]int, len(u.Repos))
	for i := range all {
		all[i] = i
	}
	var kinds []string
	for i, op := range s.Ops {
		out := env.Exec(op)
		if why := m.Step(u, op, out); why != "" {
			v.Failf(sig(op, why), "op %d %+v: %s", i, op, why)
			return
		}
		if out.Held != "" {
			v.Failf("held-listing", "op %d: %s", i, out.Held)
			return
		}
		if out.Overlap != "" {
			v.Failf("overlapping-readers", "op %d %+v: %s", i, op, out.Overlap)
			return
		}
		kinds = append(kinds, fmt.Sprintf("%s%d", op.K, op.Mode))
		touched := []int{op.R}
		if op.K == "mount" {
			touched = append(touched, op.R2)
		}
		if !sweep(env, m, touched, v, fmt.Sprintf("op %d %+v", i, op)) {
			return
		}
	}
	if !sweep(env, m, all, v, "the whole history") {
		return
	}
	if s.Immutable {
		v.Class("immutable-tags")
	} else {
		v.Class("mutable-tags")
	}
	nontrivial := false
	for ev, n := range m.Events {
		if strings.HasPrefix(ev, "deleted:") || strings.HasPrefix(ev, "mounted:") || n == 0 {
			continue
		}
		v.Class("ev:" + ev)
		switch ev {
		case "read-after-delete", "repush-after-delete", "manifest-with-refs", "dangling-tag-read", "tag-moved", "immutable-refusal", "wrong-offset-write", "commit-ok", "referrers-nonempty":
			nontrivial = true
		}
	}
	if nontrivial {
		v.NonTrivial(strings.Join(kinds, ","))
	}
}

func cfg() hist.Config {
	c := hist.Config{MaxOps: 40, ValidRepos: 3, InvalidRepos: true, Uploads: true, Mismatch: true, BadManifests: true,
		Retype: true, Deletes: true, Lists: true, UnknownResumeID: true, MaxSmall: 40, BlobTypes: true, KeepCommitted: true, Attach: true, DeepChain: true, ManyRepos: true}
	if vt.Thorough() {
		c.BigLens = []int{8191, 8192, 8193}
		c.MaxOps = 60
	}
	return c
}

var prop = &vt.Prop[hist.Script]{
	ID:   "C02",
	Name: "MemAgreesWithModel",
	Rule: "state-aware rapid generator of operation histories (<=40 ops, thorough <=60) over 3 (a quarter: 6) valid + 2 malformed repository names, 5 blobs, 6 manifest specs (image/index/opaque/malformed/wrong-shape/bad-descriptor, subjects present/dangling/blob), 4 tags, 2 upload slots; both tag modes; every Interface method and BlobWriter method; after every op the result is checked against the reference model and the touched repositories are swept (resolve/get of every blob, manifest, tag; referrers; listings), a listing sequence kept from one operation and run again after the next yields what it did or what a new listing does, the Config value the registry was made from is changed afterwards, every reader is opened beside a second reader of content read earlier and closed twice, full sweep at the end; non-trivial = the history contains a read/re-push after delete, a manifest with references, a dangling-tag read, a tag move, an immutable-mode refusal, a wrong-offset write, a committed upload or a non-empty referrers list; distinct = sequence of (op kind, mode)",
}

func TestPropModel(t *testing.T) {
	prop.Gen = hist.Gen(cfg())
	prop.Run = run
	vt.Check(t, prop)
}

func TestReplay(t *testing.T) {
	prop.Run = run
	vt.Register(prop)
	vt.Replay(t)
}
