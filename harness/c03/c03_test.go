// Package c03 decides property C03: the HTTP client+server (optionally with
// ocidebug, any server option set, one or two hops) are transparent.
package c03

import (
	"bytes"
	"fmt"
	"strings"
	"testing"

	"cuelabs.dev/go/oci/ociregistry/ocimem"
	"pgregory.net/rapid"

	"verif/harness/internal/hist"
	"verif/harness/internal/model"
	"verif/harness/internal/ops"
	"verif/harness/internal/stack"
	"verif/harness/vt"
)

func TestMain(m *testing.M) { vt.Main(m) }

// Script is a stack plus a history applied to both a bare registry and the stack.
type Script struct {
	Stack stack.Spec  `json:"stack"`
	Hist  hist.Script `json:"hist"`
}

var statusOfCode = map[string]int{
	"BLOB_UNKNOWN": 404, "BLOB_UPLOAD_INVALID": 416, "BLOB_UPLOAD_UNKNOWN": 404, "DIGEST_INVALID": 400,
	"MANIFEST_BLOB_UNKNOWN": 404, "MANIFEST_INVALID": 400, "MANIFEST_UNKNOWN": 404, "NAME_INVALID": 400,
	"NAME_UNKNOWN": 404, "SIZE_INVALID": 400, "UNAUTHORIZED": 401, "DENIED": 403, "UNSUPPORTED": 400,
	"TOOMANYREQUESTS": 429, "RANGE_INVALID": 416,
}

// headCode is the documented identity a body-less HEAD response can carry.
func headCode(code string) string {
	st, ok := statusOfCode[code]
	if !ok {
		st = 500
	}
	switch st {
	case 404:
		return "NAME_UNKNOWN"
	case 401:
		return "UNAUTHORIZED"
	case 403:
		return "DENIED"
	case 429:
		return "TOOMANYREQUESTS"
	case 400:
		return "UNSUPPORTED"
	}
	return "UNKNOWN"
}

func norm(code string) string {
	if code == "UNCODED" {
		return "UNKNOWN"
	}
	return code
}

func isUnknownKind(c string) bool {
	return c == "NAME_UNKNOWN" || c == "BLOB_UNKNOWN" || c == "MANIFEST_UNKNOWN"
}

// compare returns "" when the outcome through the stack (b) is the same
// observable behaviour as on the bare registry (a).
func compare(u *ops.Universe, op ops.Op, a, b ops.Out, emptyRepo bool) string {
	if a.Skipped || b.Skipped {
		if a.Skipped != b.Skipped {
			return "one side skipped the operation (harness)"
		}
		return ""
	}
	if op.K == "getBlobRange" && (op.O0 < 0 || (op.O1 >= 0 && op.O1 <= op.O0) || op.O0 >= int64(len(u.BlobBytes(op.B%len(u.Blobs))))) {
		// degenerate range (selects no byte: negative, empty, or starting at or after the end of
		// the blob): HTTP cannot express it - there is no valid Content-Range for an empty
		// selection; only "no wrong bytes" is required
		if a.Err == "" && b.Err == "" && !bytes.Equal(a.Data, b.Data) {
			return fmt.Sprintf("degenerate range returned different bytes: %d vs %d", len(a.Data), len(b.Data))
		}
		if b.Err == "" && len(b.Data) != 0 {
			return fmt.Sprintf("degenerate range (%d,%d) returned %d bytes through the stack", op.O0, op.O1, len(b.Data))
		}
		return ""
	}
	if (a.Err == "") != (b.Err == "") {
		return fmt.Sprintf("direct: err=%q (%s); through the stack: err=%q (%s)", a.Err, a.ErrMsg, b.Err, b.ErrMsg)
	}
	if a.Err != "" {
		wa, wb := norm(a.Err), norm(b.Err)
		if k := u.Manifests[op.M%len(u.Manifests)].Kind; op.K == "pushManifest" && (k == "badjson" || k == "wrongshape" || k == "trailing") {
			// malformed manifest bytes: rejected on both sides; when the push is
			// also refused for a second reason (immutable tag) the server's JSON
			// check and the registry's tag check may report in either order.
			return ""
		}
		if op.K == "pushBlob" && (op.Mode == 2 || op.Mode == 3) {
			// A declared size that disagrees with the content is refused by
			// net/http itself (Content-Length vs body length) before any
			// registry sees it: both sides fail, but no OCI code can travel.
			return ""
		}
		if strings.HasPrefix(op.K, "resolve") {
			wa = headCode(wa)
			if wb != wa && !(wb == "UNKNOWN" && wa == "UNKNOWN") {
				return fmt.Sprintf("HEAD-based %s: direct code %s implies %s, stack gave %s (%s)", op.K, a.Err, wa, b.Err, b.ErrMsg)
			}
			return ""
		}
		if wa != wb {
			if emptyRepo && isUnknownKind(wa) && isUnknownKind(wb) {
				return "" // a repository without content may be unknown or empty
			}
			return fmt.Sprintf("error code differs: direct %s (%s), stack %s (%s)", a.Err, a.ErrMsg, b.Err, b.ErrMsg)
		}
		return ""
	}
	da, db := a.Desc, b.Desc
	if op.K == "mount" && db.Size == 0 {
		db.Size = da.Size // documented: size may be omitted over HTTP
	}
	if op.K == "mount" {
		db.MediaType, da.MediaType = "", ""
	}
	if da != db {
		return fmt.Sprintf("descriptor differs: direct %+v, stack %+v", a.Desc, b.Desc)
	}
	if a.HasData != b.HasData || !bytes.Equal(a.Data, b.Data) && a.HasData {
		return fmt.Sprintf("bytes differ: direct %d bytes sha %.12s, stack %d bytes sha %.12s", a.DataLen, a.DataSHA, b.DataLen, b.DataSHA)
	}
	if a.ReadErr != b.ReadErr {
		return fmt.Sprintf("read error differs: direct %q, stack %q", a.ReadErr, b.ReadErr)
	}
	if norm(a.ListErr) != norm(b.ListErr) {
		if !(emptyRepo && isUnknownKind(a.ListErr+b.ListErr) && len(a.List)+len(b.List)+len(a.Descs)+len(b.Descs) == 0) {
			return fmt.Sprintf("listing error differs: direct %q (%v), stack %q (%v)", a.ListErr, a.List, b.ListErr, b.List)
		}
		return ""
	}
	if op.K != "repos" && fmt.Sprint(a.List) != fmt.Sprint(b.List) {
		return fmt.Sprintf("listing differs: direct %v, stack %v", a.List, b.List)
	}
	if fmt.Sprint(a.Descs) != fmt.Sprint(b.Descs) {
		return fmt.Sprintf("referrers differ: direct %v, stack %v", a.Descs, b.Descs)
	}
	switch op.K {
	case "upWrite":
		if a.N != b.N {
			return fmt.Sprintf("Write returned %d directly, %d through the stack", a.N, b.N)
		}
	case "upSize", "upStart":
		if a.WSize != b.WSize {
			return fmt.Sprintf("Size() = %d directly, %d through the stack", a.WSize, b.WSize)
		}
	}
	return ""
}

func filterRepos(list []string, m *model.Model) []string {
	var out []string
	for _, r := range list {
		if m.HasContent(r) {
			out = append(out, r)
		}
	}
	return out
}

func runDiff(s Script, v *vt.V) {
	u := &s.Hist.U
	cfg := &ocimem.Config{ImmutableTags: s.Hist.Immutable}
	memA, memB := ocimem.NewWithConfig(cfg), ocimem.NewWithConfig(cfg)
	built, err := stack.Build(memB, s.Stack, nil)
	if err != nil {
		v.Failf("harness", "cannot build stack: %v", err)
		return
	}
	defer built.Close()
	envA, envB := ops.NewEnv(u, memA), ops.NewEnv(u, built.Top)
	envA.OverlapReads, envB.OverlapReads = true, true // content read by digest earlier is read again beside every reader
	defer envA.CloseAll()
	defer envB.CloseAll()
	m := model.New(s.Hist.Immutable)
	v.Class("hops=%d", s.Stack.Hops())
	routing, multi := false, false
	for i, op := range s.Hist.Ops {
		// the property's own exclusion: resume by asking the registry for the offset when exactly one byte was received
		if op.K == "upResume" && op.Mode == 1 && m.SlotSize(op.W) == 1 {
			v.Excluded("resume-minus1-after-one-byte(out of the stated domain)")
			continue
		}
		a := envA.Exec(op)
		b := envB.Exec(op)
		if a.Overlap != "" || b.Overlap != "" {
			v.Failf("overlapping-readers", "op %d %+v through %s: direct: %q; through the stack: %q", i, op, s.Stack, a.Overlap, b.Overlap)
			return
		}
		if op.K == "upCommit" && (a.Err != "" || b.Err != "") {
			// What a writer is good for after its commit was refused is not specified
			// (over HTTP the refused PUT may or may not have delivered its data):
			// the differential stops using that writer.
			delete(envA.Writers, op.W)
			delete(envB.Writers, op.W)
		}
		name := "?"
		if op.R >= 0 && op.R < len(u.Repos) {
			name = u.Repos[op.R]
		}
		if why := m.Step(u, op, a); why != "" {
			// C02's business; do not report it under C03, but the model state is then unreliable for tolerances
			v.Class("model-disagrees")
		}
		empty := !m.HasContent(name)
		if op.K == "mount" && op.R2 >= 0 && op.R2 < len(u.Repos) {
			empty = !m.HasContent(u.Repos[op.R2]) // the lookup that can fail is in the source repository
		}
		if why := compare(u, op, a, b, empty); why != "" {
			v.Failf(signature(op, u, why), "op %d %+v on %s through %s: %s", i, op, name, s.Stack, why)
			return
		}
		if op.K == "repos" {
			fa, fb := filterRepos(a.List, m), filterRepos(b.List, m)
			if fmt.Sprint(fa) != fmt.Sprint(fb) {
				v.Failf("", "op %d repositories after %q through %s: direct %v, stack %v", i, op.S, s.Stack, a.List, b.List)
				return
			}
		}
		for _, w := range []string{"blobs", "manifests", "uploads", "tags", "referrers", "list", "v2"} {
			if strings.Contains(name, w) {
				routing = true
			}
		}
		if strings.HasPrefix(op.K, "up") || op.K == "pushBlob" || op.K == "tags" || op.K == "repos" {
			multi = true
		}
	}
	// the two backends must now be observably equal: read everything from both, directly
	envA2, envB2 := ops.NewEnv(u, memA), ops.NewEnv(u, memB)
	for r := range u.Repos {
		var reads []ops.Op
		for bi := range u.Blobs {
			reads = append(reads, ops.Op{K: "getBlob", R: r, B: bi})
		}
		for mi := range u.Manifests {
			reads = append(reads, ops.Op{K: "getManifest", R: r, M: mi}, ops.Op{K: "referrers", R: r, M: mi})
		}
		for ti := range u.Tags {
			reads = append(reads, ops.Op{K: "resolveTag", R: r, T: ti}, ops.Op{K: "getTag", R: r, T: ti})
		}
		reads = append(reads, ops.Op{K: "tags", R: r})
		for _, op := range reads {
			a, b := envA2.Exec(op), envB2.Exec(op)
			if why := compare(u, op, a, b, !m.HasContent(u.Repos[r])); why != "" && !strings.HasPrefix(op.K, "resolve") {
				v.Failf("", "after the history through %s the backends differ: %s %+v: %s", s.Stack, op.K, op, why)
				return
			}
			if op.K == "resolveTag" && (a.Err == "") && a.Desc != b.Desc {
				v.Failf("", "after the history through %s the backends differ: resolveTag %+v: %+v vs %+v", s.Stack, op, a.Desc, b.Desc)
				return
			}
		}
	}
	if routing || multi {
		cls := ""
		if routing {
			cls += "routing-word-name,"
		}
		if multi {
			cls += "multi-request-op"
		}
		v.Class(cls)
		var kinds []string
		for _, op := range s.Hist.Ops {
			kinds = append(kinds, op.K)
		}
		v.NonTrivial(s.Stack.String() + "|" + strings.Join(u.Repos, ",") + "|" + strings.Join(kinds, ","))
	}
}

func signature(op ops.Op, u *ops.Universe, why string) string {
	if op.K == "pushBlob" && op.Mode == 0 && u.Blobs[op.B].Len == 1 {
		return "one-byte-content-range"
	}
	if strings.HasPrefix(op.K, "up") && strings.Contains(why, "Content-Range") {
		return "one-byte-content-range"
	}
	return ""
}

func genDiff(t *rapid.T) Script {
	var s Script
	pages := []int{0, 1, 2, 3, 1000}
	nh := rapid.SampledFrom([]int{1, 1, 1, 2}).Draw(t, "hops")
	if rapid.IntRange(0, 3).Draw(t, "debugBelow") == 0 {
		s.Stack = append(s.Stack, stack.Layer{Kind: "debug"})
	}
	for i := 0; i < nh; i++ {
		l := stack.GenHTTP(t, fmt.Sprintf("hop%d", i), pages)
		if rapid.IntRange(0, 2).Draw(t, "maxPage") == 0 {
			cp := l.ClientPage
			if cp == 0 {
				cp = 1000
			}
			l.MaxPage = cp + rapid.SampledFrom([]int{0, 1, 100}).Draw(t, "maxPageSlack")
		}
		s.Stack = append(s.Stack, l)
		if rapid.IntRange(0, 3).Draw(t, "debugAbove") == 0 {
			s.Stack = append(s.Stack, stack.Layer{Kind: "debug"})
		}
	}
	// re-typing the bytes of a tagged manifest makes ocimem's own ResolveTag and GetTag disagree on the
	// media type (a gray zone that C02 handles in its model); here the two sides must disagree alike
	cfg := hist.Config{MaxOps: 30, ValidRepos: 3, Uploads: true, Mismatch: true, BadManifests: true, Retype: rapid.Bool().Draw(t, "retype"),
		Deletes: true, Lists: true, NoCancel: true, NoWrongOffset: true, MaxSmall: 40,
		RepoPool: []string{"foo", "foo/bar", "a/blobs/uploads", "manifests/x/tags", "b", "x1/referrers", "v2/list", "tags/list/blobs", "uploads"}}
	if rapid.IntRange(0, 3).Draw(t, "bigBlobs") == 0 {
		cfg.BigLens = []int{8191, 8192, 8193, 20000}
	}
	if rapid.IntRange(0, 4).Draw(t, "bigManifest") == 0 {
		cfg.BigManifest = 128 * 1024
	}
	s.Hist = hist.Gen(cfg)(t)
	if rapid.IntRange(0, 11).Draw(t, "retypedTagShape") == 0 {
		// directed: a manifest around the client's in-memory threshold is tagged under one media type, its
		// bytes are pushed again under another, and the tag is read - most interesting when the server
		// leaves the digest out of tag responses (the client then asks two or three times)
		pad := 128*1024 + rapid.SampledFrom([]int{-200, -60, 0, 60, 200, 5000}).Draw(t, "shapePad")
		s.Hist.U.Manifests[0] = ops.ManSpec{Kind: "opaque", Config: -1, Salt: 0, Pad: pad}
		tag := rapid.IntRange(0, 2).Draw(t, "shapeTag")
		first := rapid.IntRange(0, 1).Draw(t, "shapeFirstMode")
		pre := []ops.Op{
			{K: "pushManifest", R: 0, M: 0, T: tag, Mode: first},
			{K: "pushManifest", R: 0, M: 0, T: -1, Mode: 1 - first},
			{K: "getTag", R: 0, T: tag},
			{K: "resolveTag", R: 0, T: tag},
			{K: "getManifest", R: 0, M: 0},
		}
		s.Hist.Ops = append(pre, s.Hist.Ops...)
		if len(s.Hist.Ops) > 32 {
			s.Hist.Ops = s.Hist.Ops[:32]
		}
		for i := range s.Stack {
			if s.Stack[i].Kind == "http" && rapid.IntRange(0, 3).Draw(t, "shapeOmit") > 0 {
				s.Stack[i].OmitDigest = true
			}
		}
	}
	return s
}

var propDiff = &vt.Prop[Script]{
	ID:   "C03",
	Name: "StackVsDirectHistories",
	Rule: "the same generated history (<=30 ops: all Interface methods, chunked uploads with resume in both modes, deletes, listings, mismatching pushes, malformed manifests; repository names with routing words; manifest sizes on both sides of 128 KiB; in half of the cases the bytes of a manifest pushed again under another media type, 1 case in 12 opening with a tagged manifest near 128 KiB re-typed and read back by tag) is applied to a bare ocimem and to client->server[->client->server]->ocimem over real loopback HTTP with generated server options (OmitDigestFromTagGetResponse, OmitLinkHeaderFromResponses, DisableSinglePostUpload, MaxListPageSize >= client page size), client page sizes {default,1,2,3,1000} and ocidebug below/between/above; every call is compared (success, OCI code - status class for HEAD resolves -, descriptor, bytes, listings) and finally everything readable from the two backends is compared; non-trivial = a repository name contains a routing word or a multi-request operation (upload, paged listing) ran; distinct = (stack, repository names, op-kind sequence)",
	Gen:  genDiff,
	Run:  runDiff,
}

func TestPropDiff(t *testing.T) { vt.Check(t, propDiff) }

func TestReplay(t *testing.T) {
	vt.Register(propDiff)
	vt.Register(propRelay)
	vt.Replay(t)
}
