package c03

import (
	"bytes"
	"context"
	"fmt"
	"io"
	"testing"

	"cuelabs.dev/go/oci/ociregistry"
	"pgregory.net/rapid"

	"verif/harness/internal/gen"
	"verif/harness/internal/rec"
	"verif/harness/internal/stack"
	"verif/harness/vt"
)

// RelayScript is one client call whose arrival at the backend is inspected.
type RelayScript struct {
	Stack     stack.Spec  `json:"stack"`
	Method    string      `json:"method"`
	Repo      string      `json:"repo"`
	From      string      `json:"from,omitempty"`
	Tag       string      `json:"tag,omitempty"`
	Digest    string      `json:"digest,omitempty"`
	MediaType string      `json:"media_type,omitempty"`
	Start     string      `json:"start,omitempty"`
	O0        int64       `json:"o0,omitempty"`
	O1        int64       `json:"o1,omitempty"`
	Data      gen.Content `json:"data"`
	Chunks    []int       `json:"chunks,omitempty"`
	Hint      int         `json:"hint,omitempty"`
}

func runRelay(s RelayScript, v *vt.V) {
	r := rec.New(nil)
	r.Canned.Data = []byte("0123456789")
	truthful := false
	for _, alg := range []string{"sha256", "sha384", "sha512"} {
		if s.Digest == string(gen.DigestOf(alg, r.Canned.Data)) {
			// the backend serves content that really has the requested digest (under
			// that algorithm): a complete read must then succeed and deliver it
			truthful = true
			r.Canned.Desc = ociregistry.Descriptor{Digest: ociregistry.Digest(s.Digest), Size: int64(len(r.Canned.Data)), MediaType: "application/octet-stream"}
			v.Class("truthful-" + alg)
		}
	}
	built, err := stack.Build(r.Registry(), s.Stack, nil)
	if err != nil {
		v.Failf("harness", "build: %v", err)
		return
	}
	defer built.Close()
	c := built.Top
	ctx := context.Background()
	dg := ociregistry.Digest(s.Digest)
	data := s.Data.Bytes()
	var want []rec.Call
	drain := func(br ociregistry.BlobReader, err error) error {
		if err != nil {
			return err
		}
		got, rerr := io.ReadAll(br)
		br.Close()
		if truthful && s.Method != "GetBlobRange" {
			if rerr != nil {
				return fmt.Errorf("reading content whose digest is the requested %s: %w", s.Digest, rerr)
			}
			if !bytes.Equal(got, r.Canned.Data) {
				return fmt.Errorf("read %q, backend served %q", got, r.Canned.Data)
			}
			// (a tag read may legitimately describe the content by another algorithm's digest)
			if d := br.Descriptor(); (s.Method != "GetTag" && string(d.Digest) != s.Digest) || d.Size != int64(len(got)) {
				return fmt.Errorf("descriptor %v/%d for content %s/%d", d.Digest, d.Size, s.Digest, len(got))
			}
		}
		return nil
	}
	var callErr error
	upload := false
	switch s.Method {
	case "GetBlob":
		callErr = drain(c.GetBlob(ctx, s.Repo, dg))
		want = []rec.Call{{Method: "GetBlob", Repo: s.Repo, Digest: s.Digest}}
	case "GetBlobRange":
		callErr = drain(c.GetBlobRange(ctx, s.Repo, dg, s.O0, s.O1))
		switch {
		case s.O0 == 0 && s.O1 < 0:
			want = []rec.Call{{Method: "GetBlob", Repo: s.Repo, Digest: s.Digest}} // documented client shortcut
		case s.O1 < 0:
			want = []rec.Call{{Method: "GetBlobRange", Repo: s.Repo, Digest: s.Digest, Offset0: s.O0, Offset1: -1}}
		default:
			want = []rec.Call{{Method: "GetBlobRange", Repo: s.Repo, Digest: s.Digest, Offset0: s.O0, Offset1: s.O1}}
		}
	case "GetManifest":
		callErr = drain(c.GetManifest(ctx, s.Repo, dg))
		want = []rec.Call{{Method: "GetManifest", Repo: s.Repo, Digest: s.Digest}}
	case "GetTag":
		callErr = drain(c.GetTag(ctx, s.Repo, s.Tag))
		want = []rec.Call{{Method: "GetTag", Repo: s.Repo, Tag: s.Tag}}
	case "ResolveBlob":
		_, callErr = c.ResolveBlob(ctx, s.Repo, dg)
		want = []rec.Call{{Method: "ResolveBlob", Repo: s.Repo, Digest: s.Digest}}
	case "ResolveManifest":
		_, callErr = c.ResolveManifest(ctx, s.Repo, dg)
		want = []rec.Call{{Method: "ResolveManifest", Repo: s.Repo, Digest: s.Digest}}
	case "ResolveTag":
		_, callErr = c.ResolveTag(ctx, s.Repo, s.Tag)
		want = []rec.Call{{Method: "ResolveTag", Repo: s.Repo, Tag: s.Tag}}
	case "DeleteBlob":
		callErr = c.DeleteBlob(ctx, s.Repo, dg)
		want = []rec.Call{{Method: "DeleteBlob", Repo: s.Repo, Digest: s.Digest}}
	case "DeleteManifest":
		callErr = c.DeleteManifest(ctx, s.Repo, dg)
		want = []rec.Call{{Method: "DeleteManifest", Repo: s.Repo, Digest: s.Digest}}
	case "DeleteTag":
		callErr = c.DeleteTag(ctx, s.Repo, s.Tag)
		want = []rec.Call{{Method: "DeleteTag", Repo: s.Repo, Tag: s.Tag}}
	case "MountBlob":
		_, callErr = c.MountBlob(ctx, s.From, s.Repo, dg)
		want = []rec.Call{{Method: "MountBlob", Repo: s.Repo, FromRepo: s.From, Digest: s.Digest}}
	case "PushManifest":
		_, callErr = c.PushManifest(ctx, s.Repo, s.Tag, data, s.MediaType)
		want = []rec.Call{{Method: "PushManifest", Repo: s.Repo, Tag: s.Tag, MediaType: s.MediaType, DataLen: len(data)}}
	case "Tags":
		_, callErr = ociregistry.All(c.Tags(ctx, s.Repo, s.Start))
		want = []rec.Call{{Method: "Tags", Repo: s.Repo, StartAfter: s.Start}}
	case "Repositories":
		_, callErr = ociregistry.All(c.Repositories(ctx, s.Start))
		want = []rec.Call{{Method: "Repositories", StartAfter: s.Start}}
	case "Referrers":
		_, callErr = ociregistry.All(c.Referrers(ctx, s.Repo, dg, ""))
		want = []rec.Call{{Method: "Referrers", Repo: s.Repo, Digest: s.Digest}}
	case "PushBlob":
		upload = true
		_, callErr = c.PushBlob(ctx, s.Repo, ociregistry.Descriptor{MediaType: "application/octet-stream", Digest: dg, Size: int64(len(data))}, bytes.NewReader(data))
	case "PushBlobChunked":
		upload = true
		var w ociregistry.BlobWriter
		w, callErr = c.PushBlobChunked(ctx, s.Repo, s.Hint)
		if callErr == nil {
			rest := data
			for _, n := range s.Chunks {
				if n > len(rest) {
					n = len(rest)
				}
				if _, callErr = w.Write(rest[:n]); callErr != nil {
					break
				}
				rest = rest[n:]
			}
			if callErr == nil {
				_, callErr = w.Write(rest)
			}
			if callErr == nil {
				_, callErr = w.Commit(dg)
			}
			w.Close()
		}
	default:
		v.Failf("harness", "unknown method")
		return
	}
	v.Class(s.Method)
	v.Class("hops=%d", s.Stack.Hops())
	key := fmt.Sprintf("%s|%s|%q|%q|%q|%q|%d,%d|%d", s.Stack.Shape(), s.Method, s.Repo, s.From, s.Tag, s.Start, s.O0, s.O1, len(data))
	v.NonTrivial(key)
	if callErr != nil {
		sig := ""
		if upload && len(data) == 1 {
			sig = "one-byte-content-range"
		}
		v.Failf(sig, "%s through %s failed although the backend accepts everything: %v", s.Method, s.Stack, callErr)
		return
	}
	calls := r.Calls()
	if upload {
		for _, cl := range calls {
			if cl.Repo != s.Repo {
				v.Failf("", "%s(%q): backend saw %v for another repository", s.Method, s.Repo, cl)
				return
			}
			if cl.Method != "PushBlob" && cl.Method != "PushBlobChunked" && cl.Method != "PushBlobChunkedResume" {
				v.Failf("", "%s: unexpected backend call %v", s.Method, cl)
				return
			}
		}
		for _, cl := range calls {
			// every piece of data must be offered at the offset the backend session has reached
			if cl.Method == "PushBlobChunkedResume" && cl.Offset0 >= 0 && cl.Have >= 0 && cl.Offset0 != cl.Have {
				v.Failf("", "%s through %s: the backend session held %d bytes when data was offered at offset %d (calls %v)", s.Method, s.Stack, cl.Have, cl.Offset0, calls)
				return
			}
		}
		var stored []byte
		var storedDigest string
		n := 0
		for _, cl := range calls {
			if cl.Method == "PushBlob" {
				stored, storedDigest = cl.Data, cl.DescDigest
				n++
			}
		}
		for _, cm := range r.Commits() {
			stored, storedDigest = cm.Data, cm.Digest
			n++
		}
		if n != 1 {
			v.Failf("", "%s: %d blobs committed at the backend, want exactly 1 (calls %v)", s.Method, n, calls)
			return
		}
		if !bytes.Equal(stored, data) || storedDigest != s.Digest {
			v.Failf("", "%s: backend committed %d bytes under %s, caller pushed %d bytes under %s", s.Method, len(stored), storedDigest, len(data), s.Digest)
		}
		return
	}
	if len(calls) != len(want) {
		v.Failf("", "%s through %s: backend saw %d calls %v, want %v", s.Method, s.Stack, len(calls), calls, want)
		return
	}
	for i := range want {
		got := calls[i]
		got.Ctx, got.Data, got.DataSHA = nil, nil, ""
		if s.Method == "PushManifest" && !bytes.Equal(calls[i].Data, data) {
			v.Failf("", "PushManifest: backend received other bytes than the caller sent")
			return
		}
		if got.String() != want[i].String() {
			v.Failf("", "%s through %s: backend saw %v, caller issued %v", s.Method, s.Stack, got, want[i])
			return
		}
	}
}

var relayMethods = []string{"GetBlob", "GetBlobRange", "GetManifest", "GetTag", "ResolveBlob", "ResolveManifest", "ResolveTag",
	"DeleteBlob", "DeleteManifest", "DeleteTag", "MountBlob", "PushManifest", "Tags", "Repositories", "Referrers", "PushBlob", "PushBlobChunked"}

func genRelay(t *rapid.T) RelayScript {
	var s RelayScript
	pages := []int{0, 1, 2, 1000}
	nh := rapid.SampledFrom([]int{1, 1, 2}).Draw(t, "hops")
	for i := 0; i < nh; i++ {
		s.Stack = append(s.Stack, stack.GenHTTP(t, fmt.Sprintf("hop%d", i), pages))
		if rapid.IntRange(0, 3).Draw(t, "debug") == 0 {
			s.Stack = append(s.Stack, stack.Layer{Kind: "debug"})
		}
	}
	repo := func(label string) string {
		if rapid.IntRange(0, 9).Draw(t, label+"Long") == 0 {
			return gen.LongRepo(rapid.IntRange(200, 255).Draw(t, label+"Len"))
		}
		return gen.Repo().Draw(t, label)
	}
	s.Method = rapid.SampledFrom(relayMethods).Draw(t, "method")
	s.Repo = repo("repo")
	s.Digest = gen.ValidDigest().Draw(t, "digest")
	if rapid.IntRange(0, 3).Draw(t, "truthfulDigest") > 0 {
		s.Digest = string(gen.DigestOf(rapid.SampledFrom([]string{"sha256", "sha384", "sha512"}).Draw(t, "readAlg"), []byte("0123456789")))
	}
	switch s.Method {
	case "GetTag", "ResolveTag", "DeleteTag":
		s.Tag = gen.Tag().Draw(t, "tag")
	case "GetBlobRange":
		s.O0 = rapid.SampledFrom([]int64{0, 0, 1, 2, 5, 9}).Draw(t, "o0")
		s.O1 = rapid.SampledFrom([]int64{-1, -7, 1, 3, 6, 10, 11, 1 << 40}).Draw(t, "o1")
		if s.O1 >= 0 && s.O1 <= s.O0 {
			s.O1 = s.O0 + 1 // degenerate ranges are not expressible over HTTP: outside the relay domain
		}
	case "MountBlob":
		s.From = repo("from")
	case "PushManifest":
		if rapid.Bool().Draw(t, "tagged") {
			s.Tag = gen.Tag().Draw(t, "tag")
		}
		s.MediaType = rapid.SampledFrom([]string{"application/vnd.verif.opaque+json", "application/octet-stream", "text/plain", "application/vnd.x.y.v1+json; charset=utf-8", "a/b", "application/vnd.docker.distribution.manifest.v2+json"}).Draw(t, "mediaType")
		s.Data = gen.ContentGen([]int{0, 1, 2, 131071, 131072, 131073}, 200).Draw(t, "data")
	case "Tags", "Repositories":
		s.Start = rapid.SampledFrom([]string{"", "", "a", "latest", "foo/bar", "a&b=c", "a?b", "a%2fb", "a b", "a+b", "a#b", "é", "100%", "=", "&last=x"}).Draw(t, "start")
	case "PushBlob", "PushBlobChunked":
		s.Data = gen.ContentGen([]int{0, 1, 2, 8191, 8192, 8193, 16385, 65536, 65537}, 300).Draw(t, "data")
		alg := rapid.SampledFrom([]string{"sha256", "sha256", "sha384", "sha512"}).Draw(t, "alg")
		s.Digest = string(gen.DigestOf(alg, s.Data.Bytes()))
		if s.Method == "PushBlobChunked" {
			s.Hint = rapid.SampledFrom([]int{0, -1, 1, 100, 8192, 10000}).Draw(t, "hint")
			n := rapid.IntRange(0, 3).Draw(t, "nchunks")
			for i := 0; i < n; i++ {
				s.Chunks = append(s.Chunks, rapid.SampledFrom([]int{0, 1, 2, 100, 8191, 8192, 8193, 30000}).Draw(t, "chunk"))
			}
			if rapid.IntRange(0, 2).Draw(t, "manyFlushes") == 0 {
				// several data-carrying requests on one writer: a small chunk size and many writes larger than it
				s.Hint = rapid.SampledFrom([]int{1, 100, 8192}).Draw(t, "smallHint")
				s.Data = gen.Content{Len: rapid.SampledFrom([]int{40000, 65537, 100000}).Draw(t, "bigLen"), Seed: 7, Kind: 0}
				s.Digest = string(gen.DigestOf("sha256", s.Data.Bytes()))
				s.Chunks = nil
				for i := rapid.IntRange(3, 6).Draw(t, "nbig"); i > 0; i-- {
					s.Chunks = append(s.Chunks, rapid.SampledFrom([]int{8193, 9000, 12000}).Draw(t, "bigChunk"))
				}
			}
		}
	}
	if s.Method == "PushManifest" && s.Tag == "" {
		s.Digest = string(s.Data.Digest())
	}
	return s
}

var propRelay = &vt.Prop[RelayScript]{
	ID:   "C03",
	Name: "ArgumentRelay",
	Rule: "single client calls (17 methods) with valid repository names from the grammar (routing words as components, lengths up to 255), valid tags, sha256/384/512 digests, media types, in-bounds ranges, start-after strings with URL metacharacters, upload contents around chunk boundaries, through 1-2 real HTTP hops (+ocidebug) in front of a recording backend that accepts everything; oracle = the backend saw exactly one call with exactly the caller's arguments (uploads: exactly one committed blob with the caller's bytes, digest and repository); every case is non-trivial; distinct = (stack shape, method, names, offsets, length)",
	Gen:  genRelay,
	Run:  runRelay,
}

func TestPropRelay(t *testing.T) { propRelay.Scale = 4; vt.Check(t, propRelay) }
