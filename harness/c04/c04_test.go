// Package c04 decides property C04: chunked and resumable uploads commit
// exactly the bytes written; wrong offsets are refused with range-invalid and
// do not alter the upload; a wrong commit digest stores nothing.
package c04

import (
	"bytes"
	"context"
	"errors"
	"fmt"
	"io"
	"net/http"
	"strings"
	"sync"
	"testing"
	"time"

	"cuelabs.dev/go/oci/ociregistry"
	"cuelabs.dev/go/oci/ociregistry/ocimem"
	"github.com/opencontainers/go-digest"
	"pgregory.net/rapid"

	"verif/harness/internal/gen"
	"verif/harness/internal/stack"
	"verif/harness/vt"
)

func TestMain(m *testing.M) { vt.Main(m) }

// Boundary says what happens after write i.
type Boundary struct {
	After int `json:"after"` // index of the write after which the writer is closed
	Mode  int `json:"mode"`  // 0 resume at the reported size, 1 resume with offset -1
	Wrong int `json:"wrong"` // != 0: first resume at size+Wrong and send Junk bytes (must be refused)
	Junk  int `json:"junk"`  // number of junk bytes sent at the wrong offset (>= 1)
	// EmptyFirst: the wrong-offset writer is first given a Write of no bytes (whatever that returns, it
	// sends no data and so cannot make the offset right)
	EmptyFirst bool `json:"empty_first,omitempty"`
	// CloseTwice: the handle is closed a second time before the upload is resumed, then asked its size and id
	CloseTwice bool `json:"close_twice,omitempty"`
	HowEnd     int  `json:"howend"` // how the wrong-offset writer is driven: 0 write+close, 1 write+commit, 2 write, closed only when the upload has reached that offset
	// Interlope: between opening the wrong-offset writer and its first Write another handle is opened on
	// the same session (1: at offset -1, as the server's upload-status request does; 2: at the right offset)
	Interlope int `json:"interlope,omitempty"`
}

type Script struct {
	Stack       stack.Spec  `json:"stack"`
	Repo        string      `json:"repo"`
	Content     gen.Content `json:"content"`
	Writes      []int       `json:"writes"` // sizes of the Write calls; the remainder is written last
	Hint        int         `json:"hint"`
	Boundaries  []Boundary  `json:"boundaries"`
	WrongDigest bool        `json:"wrong_digest"`
	// CommitAfterClose: the handle is closed before it is asked to commit
	CommitAfterClose bool `json:"commit_after_close,omitempty"`
	// FailReq: the n-th data-carrying request (PATCH or PUT) of the caller's client fails before it is
	// sent (a transient transport fault); the caller repeats the call that failed. 0 = none. Only used
	// when the caller talks to exactly one client (no unifier above it).
	FailReq int `json:"fail_req,omitempty"`
}

var errTransient = errors.New("injected transient transport fault (nothing was sent)")

type tap struct {
	rt     http.RoundTripper
	mu     sync.Mutex
	log    []string
	failAt int // fail the n-th PATCH/PUT (counted while armed) before sending it
	nData  int
	armed  bool // only the main upload's Write / Close / Commit calls are subject to the fault
}

func (t *tap) arm(on bool) { t.mu.Lock(); t.armed = on; t.mu.Unlock() }

func (t *tap) RoundTrip(req *http.Request) (*http.Response, error) {
	if req.Method == "PATCH" || req.Method == "PUT" {
		t.mu.Lock()
		inject := false
		if t.armed {
			t.nData++
			inject = t.failAt > 0 && t.nData == t.failAt
		}
		t.mu.Unlock()
		if inject {
			if req.Body != nil {
				req.Body.Close()
			}
			return nil, errTransient
		}
	}
	resp, err := t.rt.RoundTrip(req)
	t.mu.Lock()
	if err != nil {
		t.log = append(t.log, fmt.Sprintf("%s -> error", req.Method))
	} else {
		t.log = append(t.log, fmt.Sprintf("%s %s -> %d", req.Method, req.Header.Get("Content-Range"), resp.StatusCode))
	}
	t.mu.Unlock()
	return resp, err
}

func (t *tap) reset() { t.mu.Lock(); t.log = nil; t.mu.Unlock() }
func (t *tap) saw(status string) bool {
	t.mu.Lock()
	defer t.mu.Unlock()
	for _, l := range t.log {
		if len(l) >= len(status) && l[len(l)-len(status):] == status {
			return true
		}
	}
	return false
}

func run(s Script, v *vt.V) {
	ctx := context.Background()
	base := ocimem.New()
	var taps []*tap
	built, err := stack.Build(base, s.Stack, &stack.Options{WrapTransport: func(hop int, rt http.RoundTripper) http.RoundTripper {
		t := &tap{rt: rt}
		taps = append(taps, t)
		return t
	}})
	if err != nil {
		v.Failf("harness", "build: %v", err)
		return
	}
	defer built.Close()
	faultable := s.FailReq > 0 && len(taps) == 1 && !strings.Contains(s.Stack.Shape(), "unify")
	arm := func(on bool) {}
	if faultable {
		taps[0].failAt = s.FailReq
		arm = taps[0].arm
	}
	reg := built.Top
	content := s.Content.Bytes()
	dg := digest.FromBytes(content)
	members := append([]*ocimem.Registry{base}, built.Members...)

	v.Class("stack:" + s.Stack.Shape())
	fail := func(sig, f string, a ...any) {
		v.Failf(sig, "stack %s, content %d bytes, writes %v, hint %d, boundaries %+v: %s", s.Stack, len(content), s.Writes, s.Hint, s.Boundaries, fmt.Sprintf(f, a...))
	}

	w, err := reg.PushBlobChunked(ctx, s.Repo, s.Hint)
	if err != nil {
		fail("", "PushBlobChunked: %v", err)
		return
	}
	defer func() { w.Close() }()
	bmap := map[int]Boundary{}
	for _, b := range s.Boundaries {
		bmap[b.After] = b
	}
	written := 0
	sizes := append(append([]int{}, s.Writes...), len(content)) // last write takes the remainder
	resumes, wrongs := 0, 0
	// a writer whose data was refused at an offset the upload had not reached yet, kept open
	var lateW ociregistry.BlobWriter
	var lateOff int64
	defer func() {
		if lateW != nil {
			lateW.Close()
		}
	}()
	for i, n := range sizes {
		if n > len(content)-written {
			n = len(content) - written
		}
		if lateW != nil && lateOff > int64(written) && lateOff <= int64(written+n) {
			// bring the upload to exactly the offset the refused data was aimed at, then close the
			// refused writer: nothing of what was refused may arrive now (the upload goes on below
			// from that offset, which fails if anything was appended)
			first := int(lateOff) - written
			k, err := w.Write(content[written : written+first])
			if err != nil || k != first {
				fail("", "Write of %d bytes at offset %d: n=%d err=%v", first, written, k, err)
				return
			}
			written += first
			n -= first
			if err := w.Close(); err != nil {
				fail("", "Close at %d: %v", written, err)
				return
			}
			id := w.ID()
			lateW.Close()
			lateW = nil
			if w, err = reg.PushBlobChunkedResume(ctx, s.Repo, id, int64(written), s.Hint); err != nil {
				fail("", "resume at %d after closing a refused writer: %v", written, err)
				return
			}
			v.Class("late-close-of-refused-writer")
		}
		arm(true)
		k, err := w.Write(content[written : written+n])
		if err != nil && k == 0 && errors.Is(err, errTransient) {
			// nothing of this Write was accepted and nothing was sent: the caller tries again
			v.Class("transient-fault-retried")
			k, err = w.Write(content[written : written+n])
		}
		arm(false)
		if err != nil || k != n {
			fail(oneByteSig(written, n), "Write #%d of %d bytes at offset %d: n=%d err=%v", i, n, written, k, err)
			return
		}
		written += n
		if got := w.Size(); got != int64(written) {
			fail("", "Size() = %d after %d bytes were accepted", got, written)
			return
		}
		b, ok := bmap[i]
		if !ok || i == len(sizes)-1 {
			continue
		}
		id := w.ID()
		err = w.Close() // (a Close that fails is final for that handle: not subject to the transient fault)
		if err != nil {
			fail(oneByteSig(0, written), "Close before resume at %d: %v", written, err)
			return
		}
		if b.CloseTwice {
			// an explicit Close followed by a deferred one is ordinary Go: the second Close and what
			// is asked of the handle afterwards return
			done := make(chan string, 1)
			go func(w ociregistry.BlobWriter) {
				if err := w.Close(); err != nil {
					done <- fmt.Sprintf("second Close: %v", err)
					return
				}
				if got := w.Size(); got != int64(written) {
					done <- fmt.Sprintf("Size() = %d after two Closes, %d bytes were accepted", got, written)
					return
				}
				if w.ID() != id {
					done <- "ID() changed after two Closes"
					return
				}
				done <- ""
			}(w)
			select {
			case msg := <-done:
				if msg != "" {
					fail("closed-twice", "after %d bytes: %s", written, msg)
					return
				}
			case <-time.After(10 * time.Second):
				fail("writer-wedged-after-close", "after %d bytes the writer was closed twice; the second Close, Size or ID has not returned within 10 s", written)
				w = closedWriter{} // (the deferred Close must not wait for the wedged handle)
				return
			}
			v.Class("closed-twice")
		}
		if b.Wrong != 0 {
			off := int64(written + b.Wrong)
			if off >= 0 && off != int64(written) {
				wrongs++
				for _, t := range taps {
					t.reset()
				}
				junk := bytes.Repeat([]byte{0xEE}, max(1, b.Junk))
				var perr error
				w2, err := reg.PushBlobChunkedResume(ctx, s.Repo, id, off, s.Hint)
				perr = err
				if err == nil {
					if b.Interlope != 0 {
						o3 := int64(-1)
						if b.Interlope == 2 {
							o3 = int64(written)
						}
						if w3, err := reg.PushBlobChunkedResume(ctx, s.Repo, id, o3, s.Hint); err == nil {
							w3.Size()
							w3.Close()
						}
						v.Class("wrong-offset-with-second-handle")
					}
					if b.EmptyFirst {
						w2.Write(nil)
						v.Class("wrong-offset-empty-write-first")
					}
					_, perr = w2.Write(junk)
					if perr != nil && b.Junk%2 == 0 {
						// a refused writer stays refused: a second attempt on the same
						// handle must not get through either
						if _, err2 := w2.Write(junk); err2 == nil {
							fail("wrong-offset-accepted", "after data at offset %d (registry holds %d) was refused, a second Write on the same writer was accepted", off, written)
							return
						}
						v.Class("wrong-offset-second-write")
					}
					if perr == nil {
						if b.HowEnd == 1 {
							_, perr = w2.Commit(digest.FromBytes(append(append([]byte{}, content[:written]...), junk...)))
						} else {
							perr = w2.Close()
						}
					}
					if b.HowEnd == 2 && perr != nil && off > int64(written) && lateW == nil {
						lateW, lateOff = w2, off // closed later, when the upload has reached that offset
					} else {
						w2.Close()
					}
				}
				switch {
				case err != nil:
					// the resume itself was refused: no data was sent at the wrong
					// offset; any error is a refusal (the upload must still be intact, checked below)
					v.Class("wrong-offset-resume-refused")
				case perr == nil:
					fail("wrong-offset-accepted", "data sent at offset %d when the registry holds %d bytes was accepted", off, written)
					return
				case !errors.Is(perr, ociregistry.ErrRangeInvalid):
					fail("wrong-offset-error", "data sent at offset %d when the registry holds %d bytes was refused with %v, which is not ErrRangeInvalid", off, written, perr)
					return
				default:
					for hi, t := range taps {
						if !t.saw("-> 416") {
							fail("wrong-offset-status", "hop %d never answered 416 for the wrong-offset chunk: %v", hi, t.log)
							return
						}
					}
				}
				v.Class("wrong-offset-probe")
			}
		}
		mode := b.Mode
		if mode == 1 && written == 1 {
			// excluded by the property: the upload-status Range header cannot
			// distinguish zero bytes from one byte
			v.Excluded("resume-minus1-after-one-byte(out of the stated domain)")
			mode = 0
		}
		off := int64(written)
		if mode == 1 {
			off = -1
			v.Class("resume-minus1")
		} else {
			v.Class("resume-explicit")
		}
		resumes++
		w, err = reg.PushBlobChunkedResume(ctx, s.Repo, id, off, s.Hint)
		if err != nil {
			fail("", "resume (offset %d) with %d bytes received: %v", off, written, err)
			return
		}
		if got := w.Size(); got != int64(written) {
			fail("", "after resume (offset %d) Size() = %d, registry had received %d", off, got, written)
			return
		}
	}
	readBack := func(d digest.Digest) (map[string][]byte, error) {
		out := map[string][]byte{}
		r, err := reg.GetBlob(ctx, s.Repo, d)
		if err != nil {
			return nil, err
		}
		data, rerr := io.ReadAll(r)
		r.Close()
		if rerr != nil {
			return nil, rerr
		}
		out["top"] = data
		for i, m := range members {
			r, err := m.GetBlob(ctx, memberRepo(s, i), d)
			if err != nil {
				return nil, fmt.Errorf("member %d: %w", i, err)
			}
			data, _ := io.ReadAll(r)
			out[fmt.Sprintf("member%d", i)] = data
		}
		return out, nil
	}
	if s.WrongDigest {
		v.Class("wrong-digest")
		other := append([]byte("not:"), content...)
		wrong := digest.FromBytes(other)
		held := len(s.Writes)%2 == 1
		if held {
			// the wrong digest is that of a blob the repository holds already
			v.Class("wrong-digest-of-a-blob-held")
			if _, err := reg.PushBlob(ctx, s.Repo, ociregistry.Descriptor{Digest: wrong, Size: int64(len(other)), MediaType: "application/octet-stream"}, bytes.NewReader(other)); err != nil {
				fail("", "pushing another blob beside the upload: %v", err)
				return
			}
		}
		if _, err := w.Commit(wrong); err == nil {
			fail("wrong-digest-accepted", "Commit with a digest of other content (held by the repository: %v) succeeded", held)
			return
		}
		check := []digest.Digest{wrong, dg}
		if held {
			check = check[1:]
			if got, err := readBack(wrong); err != nil || !bytes.Equal(got["top"], other) {
				fail("wrong-digest-stored", "after a commit refused for naming the digest of another blob, that blob reads back %d bytes, %v", len(got["top"]), err)
				return
			}
		}
		for _, d := range check {
			if got, err := readBack(d); err == nil {
				fail("wrong-digest-stored", "after a failed commit %s is retrievable (%d bytes)", d, len(got["top"]))
				return
			}
			for i, m := range members {
				if r, err := m.GetBlob(ctx, memberRepo(s, i), d); err == nil {
					r.Close()
					fail("wrong-digest-stored", "after a failed commit member %d holds %s", i, d)
					return
				}
			}
		}
	} else if s.CommitAfterClose {
		// the handle is closed, then asked to commit all the same: it may refuse, but a commit that
		// reports success has stored the blob
		v.Class("commit-after-close")
		if err := w.Close(); err != nil {
			fail(oneByteSig(0, written), "Close before the commit: %v", err)
			return
		}
		desc, err := w.Commit(dg)
		if err == nil {
			if desc.Digest != dg || desc.Size != int64(len(content)) {
				fail("", "Commit on the closed handle returned %v/%d, want %v/%d", desc.Digest, desc.Size, dg, len(content))
				return
			}
			got, rerr := readBack(dg)
			if rerr != nil {
				fail("commit-success-without-blob", "Commit on a handle that had been closed reported success (%v/%d) but the blob is not retrievable: %v", desc.Digest, desc.Size, rerr)
				return
			}
			for where, data := range got {
				if !bytes.Equal(data, content) {
					fail("corrupt-upload", "%s holds %d bytes that differ from the %d written", where, len(data), len(content))
					return
				}
			}
		}
	} else {
		arm(true)
		desc, err := w.Commit(dg)
		if err != nil && errors.Is(err, errTransient) {
			v.Class("transient-fault-retried")
			desc, err = w.Commit(dg)
		}
		arm(false)
		if err != nil {
			fail(oneByteSig(0, written), "Commit with the right digest: %v", err)
			return
		}
		if desc.Digest != dg || desc.Size != int64(len(content)) {
			fail("", "Commit returned %v/%d, want %v/%d", desc.Digest, desc.Size, dg, len(content))
			return
		}
		got, err := readBack(dg)
		if err != nil {
			fail("", "committed blob not readable: %v", err)
			return
		}
		for where, data := range got {
			if !bytes.Equal(data, content) {
				fail("corrupt-upload", "%s holds %d bytes that differ from the %d written (first difference at %d)", where, len(data), len(content), firstDiff(data, content))
				return
			}
		}
	}
	flushed := 0
	for _, t := range taps[:min(1, len(taps))] {
		t.mu.Lock()
		for _, l := range t.log {
			if len(l) > 5 && l[:5] == "PATCH" {
				flushed++
			}
		}
		t.mu.Unlock()
	}
	lenClass := "len>2"
	if len(content) <= 2 {
		lenClass = fmt.Sprintf("len=%d", len(content))
	}
	v.Class(lenClass)
	if resumes > 0 || len(sizes) > 2 || len(content) <= 2 {
		v.NonTrivial(fmt.Sprintf("%s|%d|%v|%d|%+v|%v", s.Stack.Shape(), len(content), s.Writes, s.Hint, s.Boundaries, s.WrongDigest))
	}
}

func memberRepo(s Script, i int) string { return s.Repo }

func oneByteSig(off, n int) string {
	if n == 1 {
		return "one-byte-content-range"
	}
	return ""
}

func firstDiff(a, b []byte) int {
	for i := 0; i < len(a) && i < len(b); i++ {
		if a[i] != b[i] {
			return i
		}
	}
	return min(len(a), len(b))
}

var stacks = []stack.Spec{
	{},
	{{Kind: "http"}},
	{{Kind: "http"}, {Kind: "http"}},
	{{Kind: "unify"}},
	{{Kind: "unify", Sequential: true}},
	{{Kind: "unify"}, {Kind: "http"}},
	{{Kind: "http"}, {Kind: "unify"}},
	{{Kind: "debug"}, {Kind: "http", NoSinglePost: true}, {Kind: "debug"}},
}

func genScript(t *rapid.T) Script {
	var s Script
	s.Stack = stacks[rapid.IntRange(0, len(stacks)-1).Draw(t, "stack")]
	s.Repo = rapid.SampledFrom([]string{"foo", "a/blobs/uploads", "x/y"}).Draw(t, "repo")
	c := 8192
	lens := []int{0, 1, 2, 3, c - 1, c, c + 1, 2*c - 1, 2 * c, 2*c + 1, 3*c + 2}
	if vt.Thorough() {
		lens = append(lens, 65535, 65536, 65537, 3*65536+1)
	}
	s.Content = gen.ContentGen(lens, 64).Draw(t, "content")
	s.Hint = rapid.SampledFrom([]int{-1, 0, 1, 100, 8191, 8192, 8193, 20000}).Draw(t, "hint")
	nw := rapid.IntRange(0, 5).Draw(t, "nwrites")
	for i := 0; i < nw; i++ {
		n := rapid.SampledFrom([]int{0, 1, 1, 2, 3, 100, c - 1, c, c + 1, 2 * c, 30000}).Draw(t, "write")
		s.Writes = append(s.Writes, n)
	}
	for i := 0; i < nw; i++ {
		if rapid.IntRange(0, 2).Draw(t, "resumeHere") == 0 {
			b := Boundary{After: i, Mode: rapid.IntRange(0, 1).Draw(t, "mode")}
			b.CloseTwice = rapid.IntRange(0, 3).Draw(t, "closeTwice") == 0
			if rapid.IntRange(0, 3).Draw(t, "wrongOffset") == 0 {
				b.Wrong = rapid.SampledFrom([]int{1, 1, 2, 100, -1, -2}).Draw(t, "delta")
				b.Junk = rapid.SampledFrom([]int{1, 2, 10, 9000}).Draw(t, "junk")
				b.EmptyFirst = rapid.IntRange(0, 3).Draw(t, "emptyFirst") == 0
				b.HowEnd = rapid.IntRange(0, 2).Draw(t, "howEnd")
				b.Interlope = rapid.SampledFrom([]int{0, 0, 1, 2}).Draw(t, "interlope")
			}
			s.Boundaries = append(s.Boundaries, b)
		}
	}
	s.WrongDigest = rapid.IntRange(0, 5).Draw(t, "wrongDigest") == 0
	s.CommitAfterClose = !s.WrongDigest && rapid.IntRange(0, 7).Draw(t, "commitAfterClose") == 0
	if !s.WrongDigest && !s.CommitAfterClose && rapid.IntRange(0, 3).Draw(t, "transientFault") == 0 {
		s.FailReq = rapid.IntRange(1, 4).Draw(t, "failReq")
	}
	return s
}

var prop = &vt.Prop[Script]{
	ID:   "C04",
	Name: "ChunkedUpload",
	Rule: "content lengths {0,1,2,3, c-1,c,c+1, 2c-1,2c,2c+1, 3c+2 (c=8192); thorough also around 64 KiB} and small; partition into <=6 Write calls (sizes incl. 0, 1, c-1..c+1, larger than the content); chunk hint {-1,0,1,100,8191,8192,8193,20000}; any subset of write boundaries closed (a quarter of them closed twice, then asked Size and ID, which must return) +resumed with explicit offset or -1 (-1 with exactly one byte received excluded as stated); optional probe at size+delta with junk data that must be refused with ErrRangeInvalid (416 on every hop) and leave the upload unaltered, also when the wrong-offset writer is given a Write of no bytes first, when a second handle is opened on the session (at -1 or at the right offset) between opening the wrong-offset writer and its first Write, and when the refused writer is closed only once the upload has reached the offset it aimed at; right/wrong commit digest (the wrong one also that of a blob the repository holds already); a commit asked of a handle that was closed first (it may refuse; success means the blob is there); optionally the n-th data-carrying request of the caller's client fails before it is sent and the caller repeats the failed Write / Commit (nothing buffered may get lost); stacks {mem, 1 hop, 2 hops, unify(mem,mem) both policies, http over unify, unify over http, debug+http(NoSinglePost)+debug}; oracle = Size() after every step, commit descriptor, bytes read back from the top and from every member registry; non-trivial = >=1 resume, >=2 writes or length <= 2; distinct = whole script",
	Gen:  genScript,
	Run:  run,
}

func TestPropChunked(t *testing.T) { vt.Check(t, prop) }

func TestReplay(t *testing.T) {
	vt.Register(prop)
	vt.Replay(t)
}

// closedWriter stands in for a handle that must not be touched any more.
type closedWriter struct{ ociregistry.BlobWriter }

func (closedWriter) Close() error { return nil }
