// Package c05 decides property C05: listings are complete, ordered,
// duplicate-free, start strictly after the start point, paginate losslessly
// through every stack, never shorten silently, and respect the consumer.
package c05

import (
	"bytes"
	"context"
	"errors"
	"fmt"
	"net/http"
	"regexp"
	"sort"
	"strings"
	"sync"
	"testing"

	"cuelabs.dev/go/oci/ociregistry"
	"cuelabs.dev/go/oci/ociregistry/ociclient"
	"cuelabs.dev/go/oci/ociregistry/ocidebug"
	"cuelabs.dev/go/oci/ociregistry/ocifilter"
	"cuelabs.dev/go/oci/ociregistry/ocimem"
	"cuelabs.dev/go/oci/ociregistry/ociserver"
	"cuelabs.dev/go/oci/ociregistry/ociunify"
	"github.com/opencontainers/go-digest"
	ocispec "github.com/opencontainers/image-spec/specs-go/v1"
	"pgregory.net/rapid"

	"verif/harness/internal/memnet"
	"verif/harness/vt"
)

func TestMain(m *testing.M) { vt.Main(m) }

type Layer struct {
	Kind string `json:"kind"` // debug | select | sub | unify | http | fault

	Deny []string `json:"deny,omitempty"` // select: names rejected by the policy

	Sequential bool `json:"sequential,omitempty"` // unify

	Page     int  `json:"page,omitempty"` // http: client ListPageSize (0 = default)
	MaxPage  int  `json:"max_page,omitempty"`
	OmitLink bool `json:"omit_link,omitempty"`
	// LinkForm > 0: a front end re-spells the server's Link header in an equivalent form (RFC 8288):
	// 1 unquoted rel, 2 no space after ';', 3 a further parameter, 4 a relation list that contains next,
	// 5 an absolute URL
	LinkForm int `json:"link_form,omitempty"`
	// BlankPage > 0: the client's BlankPage-th listing request is answered 200 with an empty body (a
	// broken front end); that is no page at all, not an empty last page
	BlankPage int `json:"blank_page,omitempty"`

	After int `json:"after,omitempty"` // fault: error delivered after this many items
	// Gone (fault, tags listed from the start only): instead, the first request is served and every
	// request to go on after an item is answered NAME_UNKNOWN (the repository was removed meanwhile)
	Gone bool `json:"gone,omitempty"`
}

type Script struct {
	Kind     string   `json:"kind"` // repos | tags | referrers
	Items    []string `json:"items"`
	Items2   []string `json:"items2,omitempty"` // contents of the second unify member
	Unknown2 bool     `json:"unknown2,omitempty"`
	Stack    []Layer  `json:"stack"`
	Start    string   `json:"start"`
	Stop     int      `json:"stop"` // consumer declines after this many items (-1: never)
	Twice    bool     `json:"twice,omitempty"`
	// CancelAfter > 0: the consumer cancels the listing's context when it has received this many
	// items and goes on accepting items
	CancelAfter int `json:"cancel_after,omitempty"`
}

const pfx = "px9"

func hasSub(s Script) bool {
	for _, l := range s.Stack {
		if l.Kind == "sub" {
			return true
		}
	}
	return false
}

func unifyCount(s Script) int {
	n := 0
	for _, l := range s.Stack {
		if l.Kind == "unify" {
			n++
		}
	}
	return n
}

var errInjected = errors.New("injected listing failure")

// protocol violations recorded by monitors at every layer boundary
type monitorLog struct {
	mu   sync.Mutex
	msgs []string
}

func (m *monitorLog) add(s string) { m.mu.Lock(); m.msgs = append(m.msgs, s); m.mu.Unlock() }

type monitored struct {
	ociregistry.Interface
	where string
	log   *monitorLog
}

func watch[T any](where string, log *monitorLog, it ociregistry.Seq[T]) ociregistry.Seq[T] {
	return func(yield func(T, error) bool) {
		finished := false
		it(func(x T, err error) bool {
			if finished {
				log.add(where + ": consumer invoked again after it declined or after an error was delivered")
				return false
			}
			ok := yield(x, err)
			if !ok || err != nil {
				finished = true
			}
			return ok
		})
	}
}

func (m monitored) Repositories(ctx context.Context, startAfter string) ociregistry.Seq[string] {
	return watch(m.where, m.log, m.Interface.Repositories(ctx, startAfter))
}
func (m monitored) Tags(ctx context.Context, repo, startAfter string) ociregistry.Seq[string] {
	return watch(m.where, m.log, m.Interface.Tags(ctx, repo, startAfter))
}
func (m monitored) Referrers(ctx context.Context, repo string, d ociregistry.Digest, at string) ociregistry.Seq[ociregistry.Descriptor] {
	return watch(m.where, m.log, m.Interface.Referrers(ctx, repo, d, at))
}

// faulty delivers an error after a number of items of every listing.
type faulty struct {
	ociregistry.Interface
	after int
}

func cut[T any](it ociregistry.Seq[T], after int) ociregistry.Seq[T] {
	return func(yield func(T, error) bool) {
		n := 0
		stopped := false
		it(func(x T, err error) bool {
			if err != nil || n >= after {
				// always the injected error, so that "repository unknown" from below
				// cannot be mistaken for an empty listing by the layers above
				stopped = true
				yield(*new(T), errInjected)
				return false
			}
			if false {
				stopped = true
				yield(*new(T), errInjected)
				return false
			}
			n++
			if !yield(x, nil) {
				stopped = true
				return false
			}
			return true
		})
		if !stopped {
			yield(*new(T), errInjected)
		}
	}
}

func (f faulty) Repositories(ctx context.Context, s string) ociregistry.Seq[string] {
	return cut(f.Interface.Repositories(ctx, s), f.after)
}
func (f faulty) Tags(ctx context.Context, r, s string) ociregistry.Seq[string] {
	return cut(f.Interface.Tags(ctx, r, s), f.after)
}
func (f faulty) Referrers(ctx context.Context, r string, d ociregistry.Digest, at string) ociregistry.Seq[ociregistry.Descriptor] {
	return cut(f.Interface.Referrers(ctx, r, d, at), f.after)
}

// gone lets the first request for a repository's tags through and answers every request that asks to
// go on after an item with NAME_UNKNOWN: the repository was removed while a client was paging.
type gone struct {
	ociregistry.Interface
	fired *bool
}

var errGone = fmt.Errorf("the repository has just been removed: %w", ociregistry.ErrNameUnknown)

func (g gone) Tags(ctx context.Context, r, startAfter string) ociregistry.Seq[string] {
	if startAfter == "" {
		return g.Interface.Tags(ctx, r, startAfter)
	}
	*g.fired = true
	return ociregistry.ErrorSeq[string](errGone)
}

var baseManifest = []byte(`{"opaque":"base of the referrers"}`)

// blanking answers the at-th listing request with an empty 200.
type blanking struct {
	rt    http.RoundTripper
	at    int
	n     int
	fired *bool
}

func (b *blanking) RoundTrip(req *http.Request) (*http.Response, error) {
	if req.Method == "GET" && (strings.HasSuffix(req.URL.Path, "/tags/list") || strings.HasSuffix(req.URL.Path, "/_catalog") || strings.Contains(req.URL.Path, "/referrers/")) {
		b.n++
		if b.n == b.at {
			*b.fired = true
			return &http.Response{StatusCode: 200, Status: "200 OK", Header: http.Header{"Content-Type": {"application/json"}}, Body: http.NoBody, ContentLength: 0,
				Request: req, Proto: "HTTP/1.1", ProtoMajor: 1, ProtoMinor: 1}, nil
		}
	}
	return b.rt.RoundTrip(req)
}

// relink is a front end that re-spells Link headers in equivalent forms.
type relink struct {
	h    http.Handler
	form int
}

type relinkWriter struct {
	http.ResponseWriter
	req  *http.Request
	form int
	done bool
}

var linkTarget = regexp.MustCompile(`^<([^>]*)>;\s*rel="next"$`)

func (w *relinkWriter) fix() {
	if w.done {
		return
	}
	w.done = true
	l := w.Header().Get("Link")
	m := linkTarget.FindStringSubmatch(l)
	if m == nil {
		return
	}
	u := m[1]
	switch w.form {
	case 1:
		l = "<" + u + ">; rel=next"
	case 2:
		l = "<" + u + `>;rel="next"`
	case 3:
		l = "<" + u + `>; rel="next"; title="more results"`
	case 4:
		l = "<" + u + `>; rel="next nofollow"`
	case 5:
		if strings.HasPrefix(u, "/") {
			l = "<http://" + w.req.Host + u + `>; rel="next"`
		}
	}
	w.Header().Set("Link", l)
}
func (w *relinkWriter) WriteHeader(code int)        { w.fix(); w.ResponseWriter.WriteHeader(code) }
func (w *relinkWriter) Write(p []byte) (int, error) { w.fix(); return w.ResponseWriter.Write(p) }

func (r relink) ServeHTTP(w http.ResponseWriter, req *http.Request) {
	r.h.ServeHTTP(&relinkWriter{ResponseWriter: w, req: req, form: r.form}, req)
}

func referrer(name string, subject digest.Digest) []byte {
	return []byte(fmt.Sprintf(`{"schemaVersion":2,"mediaType":%q,"config":{"mediaType":"application/vnd.oci.image.config.v1+json","digest":%q,"size":2},"layers":[],"subject":{"mediaType":"application/vnd.verif.opaque","digest":%q,"size":%d},"annotations":{"n":%q}}`,
		ocispec.MediaTypeImageManifest, digest.FromBytes([]byte("{}")), subject, len(baseManifest), name))
}

func populate(ctx context.Context, m *ocimem.Registry, s Script, items []string, withSiblings bool, prefixed bool) error {
	full := func(n string) string {
		if prefixed {
			return pfx + "/" + n
		}
		return n
	}
	pushBlob := func(repo string) error {
		data := []byte("x")
		_, err := m.PushBlob(ctx, repo, ociregistry.Descriptor{MediaType: "application/octet-stream", Digest: digest.FromBytes(data), Size: 1}, bytes.NewReader(data))
		return err
	}
	switch s.Kind {
	case "repos":
		for _, n := range items {
			if err := pushBlob(full(n)); err != nil {
				return fmt.Errorf("populate %q: %w", full(n), err)
			}
		}
		if prefixed && withSiblings {
			for _, n := range []string{pfx, pfx + "ey/x", pfx + "-tools", pfx + ".d/x", "other", "a0", pfx + "0/y", "zz"} {
				if err := pushBlob(n); err != nil {
					return err
				}
			}
		}
	case "tags":
		for _, tag := range items {
			if _, err := m.PushManifest(ctx, full("foo"), tag, []byte(`{"opaque":1}`), "application/vnd.verif.opaque"); err != nil {
				return fmt.Errorf("populate tag %q: %w", tag, err)
			}
		}
	case "referrers":
		if len(items) == 0 {
			return nil
		}
		repo := full("foo")
		if _, err := m.PushManifest(ctx, repo, "", baseManifest, "application/vnd.verif.opaque"); err != nil {
			return err
		}
		cfg := []byte("{}")
		if _, err := m.PushBlob(ctx, repo, ociregistry.Descriptor{MediaType: "application/vnd.oci.image.config.v1+json", Digest: digest.FromBytes(cfg), Size: 2}, bytes.NewReader(cfg)); err != nil {
			return err
		}
		for _, n := range items {
			if _, err := m.PushManifest(ctx, repo, "", referrer(n, digest.FromBytes(baseManifest)), ocispec.MediaTypeImageManifest); err != nil {
				return fmt.Errorf("populate referrer %q: %w", n, err)
			}
		}
	}
	return nil
}

func strip(name string) string {
	return strings.TrimPrefix(name, pfx+"/")
}

func run(s Script, v *vt.V) {
	ctx := context.Background()
	bg := ctx
	cancelListing := func() {}
	log := &monitorLog{}
	m0 := ocimem.New()
	if err := populate(ctx, m0, s, s.Items, true, hasSub(s)); err != nil {
		v.Failf("harness", "%v", err)
		return
	}
	var cur ociregistry.Interface = m0
	var closers []func()
	defer func() {
		for _, c := range closers {
			c()
		}
	}()
	faultBelow, tooLarge := false, false
	goneFired, hasGone := false, false
	blankFired := false
	denied := map[string]bool{}
	shape := []string{}
	for i, l := range s.Stack {
		cur = monitored{cur, fmt.Sprintf("below layer %d (%s)", i, l.Kind), log}
		shape = append(shape, l.Kind)
		switch l.Kind {
		case "debug":
			cur = ocidebug.New(cur, func(f string, a ...any) { _ = fmt.Sprintf(f, a...) })
		case "select":
			deny := map[string]bool{}
			for _, d := range l.Deny {
				deny[d] = true
				denied[d] = true
			}
			cur = ocifilter.Select(cur, func(name string) bool { return !deny[strip(name)] })
		case "sub":
			cur = ocifilter.Sub(cur, pfx)
		case "unify":
			m1 := ocimem.New()
			items2 := s.Items2
			if s.Unknown2 {
				items2 = nil
			}
			subAbove := false
			for _, l2 := range s.Stack[i+1:] {
				if l2.Kind == "sub" {
					subAbove = true
				}
			}
			if err := populate(ctx, m1, s, items2, false, subAbove); err != nil {
				v.Failf("harness", "%v", err)
				return
			}
			pol := ociunify.ReadConcurrent
			if l.Sequential {
				pol = ociunify.ReadSequential
			}
			cur = ociunify.New(cur, monitored{m1, fmt.Sprintf("second member of layer %d", i), log}, &ociunify.Options{ReadPolicy: pol})
		case "http":
			var handler http.Handler = ociserver.New(cur, &ociserver.Options{MaxListPageSize: l.MaxPage, OmitLinkHeaderFromResponses: l.OmitLink})
			if l.LinkForm > 0 {
				handler = relink{handler, l.LinkForm}
			}
			srv := memnet.NewServer(handler)
			closers = append(closers, srv.Close)
			var tr http.RoundTripper = srv.Transport()
			// (only for the topmost client: below another hop each page is a call of its own, and a
			// fault that hits one of them and not the next is a registry that changes under the listing)
			topmost := true
			for _, l2 := range s.Stack[i+1:] {
				if l2.Kind == "http" {
					topmost = false
				}
			}
			if l.BlankPage > 0 && topmost {
				tr = &blanking{rt: tr, at: l.BlankPage, fired: &blankFired}
			}
			c, err := ociclient.New(srv.Host, &ociclient.Options{Insecure: true, ListPageSize: l.Page, Transport: tr})
			if err != nil {
				v.Failf("harness", "%v", err)
				return
			}
			cur = c
			page := l.Page
			if page == 0 {
				page = 1000
			}
			if l.MaxPage > 0 && page > l.MaxPage && s.Kind != "referrers" {
				tooLarge = true
			}
		case "fault":
			// (only where the paging happens inside ONE call from the top: a paging client directly above,
			// no further hop above that - otherwise each page is a listing of its own, taken when the
			// repository is honestly unknown)
			pagedAbove := i+1 < len(s.Stack) && s.Stack[i+1].Kind == "http"
			for _, l2 := range s.Stack[min(i+2, len(s.Stack)):] {
				if l2.Kind == "http" {
					pagedAbove = false
				}
			}
			if l.Gone && s.Kind == "tags" && s.Start == "" && pagedAbove {
				cur = gone{cur, &goneFired}
				hasGone = true
				break
			}
			cur = faulty{cur, l.After}
			faultBelow = true
		}
	}
	top := monitored{cur, "top", log}

	// ---- expected result, computed independently, layer by layer from the bottom
	cur0 := map[string]bool{}
	for _, x := range s.Items {
		if s.Kind == "repos" && hasSub(s) {
			cur0[pfx+"/"+x] = true
		} else {
			cur0[x] = true
		}
	}
	if s.Kind == "repos" && hasSub(s) {
		for _, n := range []string{pfx, pfx + "ey/x", pfx + "-tools", pfx + ".d/x", "other", "a0", pfx + "0/y", "zz"} {
			cur0[n] = true
		}
	}
	for i, l := range s.Stack {
		switch l.Kind {
		case "select":
			if s.Kind == "repos" {
				for n := range cur0 {
					for _, d := range l.Deny {
						if strip(n) == d {
							delete(cur0, n)
						}
					}
				}
			}
		case "sub":
			if s.Kind == "repos" {
				next := map[string]bool{}
				for n := range cur0 {
					if rest, ok := strings.CutPrefix(n, pfx+"/"); ok {
						next[rest] = true
					}
				}
				cur0 = next
			}
		case "unify":
			if !s.Unknown2 {
				subAbove := false
				for _, l2 := range s.Stack[i+1:] {
					if l2.Kind == "sub" {
						subAbove = true
					}
				}
				for _, x := range s.Items2 {
					if s.Kind == "repos" && subAbove {
						cur0[pfx+"/"+x] = true
					} else {
						cur0[x] = true
					}
				}
			}
		}
	}
	var want []string
	repoDenied := s.Kind != "repos" && denied["foo"]
	for x := range cur0 {
		if s.Kind != "referrers" && !(x > s.Start) {
			continue
		}
		want = append(want, x)
	}
	sort.Strings(want)
	if s.Kind == "referrers" {
		// expected order is by descriptor digest
		sort.Slice(want, func(i, j int) bool {
			return digest.FromBytes(referrer(want[i], digest.FromBytes(baseManifest))) < digest.FromBytes(referrer(want[j], digest.FromBytes(baseManifest)))
		})
	}
	wantDigest := func(name string) string {
		return string(digest.FromBytes(referrer(name, digest.FromBytes(baseManifest))))
	}

	// the iterator value is obtained once; a second pass re-iterates the same value
	var seqS ociregistry.Seq[string]
	var seqD ociregistry.Seq[ociregistry.Descriptor]
	if s.CancelAfter > 0 {
		ctx, cancelListing = context.WithCancel(bg)
		defer cancelListing()
	}
	switch s.Kind {
	case "repos":
		seqS = top.Repositories(ctx, s.Start)
	case "tags":
		seqS = top.Tags(ctx, "foo", s.Start)
	case "referrers":
		seqD = top.Referrers(ctx, "foo", digest.FromBytes(baseManifest), "")
	}
	iterate := func(stop int) (got []string, errs []error, over bool) {
		seen := map[string]bool{}
		consume := func(x string, err error) bool {
			if err != nil {
				errs = append(errs, err)
				return false
			}
			if seen[x] || len(got) >= len(want)+3 {
				over = true
				got = append(got, x)
				return false
			}
			seen[x] = true
			got = append(got, x)
			if s.CancelAfter > 0 && len(got) == s.CancelAfter {
				cancelListing()
			}
			return stop < 0 || len(got) < stop
		}
		if stop == 0 {
			// a consumer that declines the very first item
			consume = func(x string, err error) bool {
				if err != nil {
					errs = append(errs, err)
				} else {
					got = append(got, x)
				}
				return false
			}
		}
		switch s.Kind {
		case "repos", "tags":
			seqS(consume)
		case "referrers":
			seqD(func(d ociregistry.Descriptor, err error) bool {
				return consume(string(d.Digest), err)
			})
		}
		return
	}
	check := func(pass string, stop int) bool {
		got, errs, over := iterate(stop)
		desc := fmt.Sprintf("%s %s of %d+%d items after %q through %v (stop=%d)", pass, s.Kind, len(s.Items), len(s.Items2), s.Start, s.Stack, stop)
		if len(log.msgs) > 0 {
			v.Failf("consumer-protocol", "%s: %s", desc, log.msgs[0])
			return false
		}
		if over {
			v.Failf("dup-or-too-many", "%s: delivered a duplicate or more items than exist: %q (want %q)", desc, got, want)
			return false
		}
		if len(errs) > 1 {
			v.Failf("consumer-protocol", "%s: %d errors delivered", desc, len(errs))
			return false
		}
		wantNames := want
		if s.Kind == "referrers" {
			wantNames = nil
			for _, w := range want {
				wantNames = append(wantNames, wantDigest(w))
			}
		}
		// what was delivered must be ascending, duplicate free and made of expected items
		for i, x := range got {
			if i > 0 && !(got[i-1] < x) {
				v.Failf("not-ascending", "%s: %q delivered after %q", desc, x, got[i-1])
				return false
			}
			found := false
			for _, w := range wantNames {
				if w == x {
					found = true
				}
			}
			if !found {
				v.Failf("unexpected-item", "%s: delivered %q which is not in the expected list %q", desc, x, wantNames)
				return false
			}
		}
		healthy := !faultBelow && !goneFired && !blankFired && !tooLarge && !(repoDenied && s.Kind != "repos")
		if goneFired {
			v.Class("repository-gone-while-paging")
		}
		if blankFired {
			v.Class("blank-page")
		}
		if s.CancelAfter > 0 && s.CancelAfter <= len(got) && healthy {
			// the context was cancelled under the iteration: it may run to completion all the same or end
			// with an error, but not look complete when it is not
			if len(errs) == 0 && (stop < 0 || stop > len(got)) && fmt.Sprint(got) != fmt.Sprint(wantNames) {
				v.Failf("silently-shortened", "%s: the listing's context was cancelled after %d items and the iteration ended without an error after %q; the complete list is %q", desc, s.CancelAfter, got, wantNames)
				return false
			}
			if len(errs) == 1 || len(got) < len(wantNames) {
				return true
			}
		}
		if len(errs) == 1 {
			if healthy {
				emptyRepo := s.Kind != "repos" && len(want) == 0 && errors.Is(errs[0], ociregistry.ErrNameUnknown)
				if !emptyRepo {
					v.Failf("spurious-error", "%s: ended with error %v after %q although nothing in the stack fails", desc, errs[0], got)
					return false
				}
			}
			return true
		}
		if blankFired && !faultBelow && !goneFired && !tooLarge && len(errs) == 0 && fmt.Sprint(got) == fmt.Sprint(wantNames) {
			// the blank answer was absorbed below (a server that already had its page did not
			// look further): the listing is complete all the same
			return true
		}
		if !healthy && (stop < 0 || stop > len(got)) && !(faultBelow && !tooLarge && !repoDenied && false) {
			// A failing layer below: the iteration must not look complete. With a fault
			// the list may legitimately be complete only if the fault sat beyond
			// what any layer asked for; our fault layer always delivers its error.
			v.Failf("silently-shortened", "%s: a layer below fails but the iteration ended without an error after %q", desc, got)
			return false
		}
		if !healthy {
			return true // stopped by the consumer before the failure surfaced: nothing more is prescribed
		}
		// no error: complete (or stopped by the consumer)
		n := len(wantNames)
		if stop >= 0 && stop < n {
			n = stop
		}
		if stop == 0 && len(wantNames) > 0 {
			n = 1 // the consumer sees one item and declines it
		}
		if len(got) != n || fmt.Sprint(got) != fmt.Sprint(wantNames[:n]) {
			sig := ""
			if hasSub(s) && s.Start != "" && s.Kind == "repos" {
				sig = "sub-start-after"
			}
			v.Failf(sig, "%s: got %q, want %q", desc, got, wantNames[:n])
			return false
		}
		return true
	}
	if !check("first pass", s.Stop) {
		return
	}
	if s.CancelAfter > 0 {
		v.Class("cancelled-midway")
	}
	if s.Twice && !faultBelow && !hasGone && !blankFired && !tooLarge && s.CancelAfter == 0 {
		v.Class("iterated-twice")
		if !check("second pass", -1) {
			return
		}
	}
	v.Class("kind:" + s.Kind)
	v.Class("stack:" + strings.Join(shape, ">"))
	pages := 1
	for _, l := range s.Stack {
		if l.Kind == "http" && l.Page > 0 && len(want) >= l.Page {
			pages = 2
			v.Class("multi-page")
		}
	}
	if s.Start != "" {
		v.Class("start-after")
	}
	if faultBelow {
		v.Class("fault-below")
	}
	if pages > 1 || s.Start != "" {
		stopClass := "all"
		if s.Stop >= 0 {
			stopClass = "stop"
		}
		v.NonTrivial(fmt.Sprintf("%s|%s|%d|%d|%q|%s", s.Kind, strings.Join(shape, ">"), len(want), pagesOf(s), s.Start, stopClass))
	}
}

func pagesOf(s Script) int {
	for _, l := range s.Stack {
		if l.Kind == "http" {
			return l.Page
		}
	}
	return 0
}

var namePool = []string{"a", "a/b", "a0", "ab", "b", "b/blobs", "c-1", "c.d", "c_e", "foo", "foo/bar", "fooey", "g/tags/list", "h9", "i", "j/k/l", "m", "n__o", "p--q", "r", "s/uploads", "t", "u", "v2", "w", "x", "y", "z", "z/z"}
var tagPool = []string{"0", "1.0", "A", "B-1", "_x", "a", "a.b", "a_b", "b", "latest", "list", "v1", "v1.0.1", "v2", "z", "zz", "Z", "9", "a-", "m"}

func genScript(t *rapid.T) Script {
	var s Script
	if rapid.IntRange(0, 15).Draw(t, "goneShape") == 0 {
		// directed shape: tags of a repository that is removed while a client is paging, the client
		// sitting below list-transforming wrappers
		page := rapid.SampledFrom([]int{1, 2, 3}).Draw(t, "gonePage")
		s = Script{Kind: "tags", Stop: rapid.SampledFrom([]int{-1, -1, -1, 1}).Draw(t, "goneStop")}
		s.Stack = []Layer{{Kind: "fault", Gone: true}, {Kind: "http", Page: page, OmitLink: rapid.Bool().Draw(t, "goneOmitLink")}}
		unify := false
		for i := rapid.IntRange(0, 2).Draw(t, "goneAbove"); i > 0; i-- {
			switch k := rapid.SampledFrom([]string{"unify", "unify", "debug", "select"}).Draw(t, "goneLayer"); {
			case k == "unify" && !unify:
				unify = true
				s.Stack = append(s.Stack, Layer{Kind: "unify", Sequential: rapid.Bool().Draw(t, "goneSequential")})
			case k == "select":
				s.Stack = append(s.Stack, Layer{Kind: "select"})
			default:
				s.Stack = append(s.Stack, Layer{Kind: "debug"})
			}
		}
		perm := rapid.Permutation(tagPool).Draw(t, "goneItems")
		n := min(rapid.SampledFrom([]int{page, page + 1, 2 * page, 2*page + 1}).Draw(t, "goneN"), len(perm))
		s.Items = append([]string{}, perm[:n]...)
		sort.Strings(s.Items)
		if unify {
			m := rapid.IntRange(0, 3).Draw(t, "goneN2")
			s.Items2 = append([]string{}, perm[len(perm)-m:]...)
			sort.Strings(s.Items2)
		}
		return s
	}
	s.Kind = rapid.SampledFrom([]string{"repos", "repos", "tags", "tags", "referrers"}).Draw(t, "kind")
	pool := namePool
	if s.Kind == "tags" {
		pool = tagPool
	}
	// stack
	depth := rapid.IntRange(0, 4).Draw(t, "depth")
	hops, subs, unifies, faults := 0, 0, 0, 0
	page := rapid.SampledFrom([]int{1, 2, 3, 5, 0}).Draw(t, "page")
	for i := 0; i < depth; i++ {
		k := rapid.SampledFrom([]string{"http", "http", "http", "debug", "select", "sub", "unify", "fault"}).Draw(t, "layer")
		switch {
		case k == "http" && hops < 2:
			hops++
			l := Layer{Kind: "http", Page: page, OmitLink: rapid.Bool().Draw(t, "omitLink")}
			if !l.OmitLink && rapid.IntRange(0, 2).Draw(t, "relink") == 0 {
				l.LinkForm = rapid.IntRange(1, 5).Draw(t, "linkForm")
			}
			if rapid.IntRange(0, 7).Draw(t, "blank") == 0 {
				l.BlankPage = rapid.IntRange(1, 3).Draw(t, "blankPage")
			}
			if hops == 2 {
				l.Page = rapid.SampledFrom([]int{1, 2, 3, 0}).Draw(t, "page2")
			}
			switch rapid.IntRange(0, 5).Draw(t, "maxPage") {
			case 0:
				p := l.Page
				if p == 0 {
					p = 1000
				}
				l.MaxPage = p
			case 1:
				p := l.Page
				if p == 0 {
					p = 1000
				}
				l.MaxPage = p + 1
			case 2:
				if l.Page > 1 {
					l.MaxPage = l.Page - 1 // the server refuses the client's page size
				}
			}
			s.Stack = append(s.Stack, l)
		case k == "sub" && subs == 0 && s.Kind != "referrers":
			subs++
			s.Stack = append(s.Stack, Layer{Kind: "sub"})
		case k == "unify" && unifies == 0:
			unifies++
			s.Stack = append(s.Stack, Layer{Kind: "unify", Sequential: rapid.Bool().Draw(t, "sequential")})
		case k == "fault" && faults == 0 && rapid.IntRange(0, 2).Draw(t, "reallyFault") == 0:
			faults++
			s.Stack = append(s.Stack, Layer{Kind: "fault", After: rapid.IntRange(0, 6).Draw(t, "after"), Gone: rapid.IntRange(0, 2).Draw(t, "gone") == 0})
		case k == "select":
			l := Layer{Kind: "select"}
			for j := rapid.IntRange(0, 3).Draw(t, "ndeny"); j > 0; j-- {
				d := rapid.SampledFrom(pool).Draw(t, "deny")
				if s.Kind == "referrers" && d == "foo" {
					continue // "foo" is the repository the referrers live in: keep it reachable
				}
				l.Deny = append(l.Deny, d)
			}
			s.Stack = append(s.Stack, l)
		default:
			s.Stack = append(s.Stack, Layer{Kind: "debug"})
		}
	}
	// sizes clustered around multiples of the page size
	p := page
	if p == 0 {
		p = 4
	}
	sizes := []int{0, 1, p - 1, p, p + 1, 2*p - 1, 2 * p, 2*p + 1, 3*p + 1}
	pick := func(label string) []string {
		n := rapid.SampledFrom(sizes).Draw(t, label+"N")
		if n < 0 {
			n = 0
		}
		if n > len(pool) {
			n = len(pool)
		}
		if s.Kind == "referrers" && n > 8 {
			n = 8
		}
		perm := rapid.Permutation(pool).Draw(t, label)
		out := append([]string{}, perm[:n]...)
		sort.Strings(out)
		return out
	}
	s.Items = pick("items")
	if unifies > 0 {
		switch rapid.IntRange(0, 3).Draw(t, "relation") {
		case 0:
			s.Items2 = append([]string{}, s.Items...) // equal
		case 1:
			s.Items2 = pick("items2") // overlapping / disjoint by chance
		case 2:
			s.Unknown2 = true
		default:
			s.Items2 = pick("items2b")
		}
	}
	// start point
	all := append(append([]string{}, s.Items...), s.Items2...)
	sort.Strings(all)
	switch rapid.IntRange(0, 7).Draw(t, "startKind") {
	case 0, 1, 2:
		s.Start = ""
	case 3:
		if len(all) > 0 {
			s.Start = rapid.SampledFrom(all).Draw(t, "startElem")
		}
	case 4:
		if len(all) > 0 {
			s.Start = rapid.SampledFrom(all).Draw(t, "startBase") + rapid.SampledFrom([]string{"!", "0", "~", "-"}).Draw(t, "startSuffix")
		}
	case 5:
		s.Start = rapid.SampledFrom([]string{" ", "!", "+", "-", "%", "&", "#"}).Draw(t, "startBefore")
	case 6:
		s.Start = rapid.SampledFrom([]string{"zzzz", "~", "é", "{"}).Draw(t, "startAfterAll")
	default:
		s.Start = rapid.SampledFrom([]string{"a&b=c", "a?n=1", "a%2fb", "a b", "a+b", "a#b", "a/ä", "a=", "&last=zz", "a%"}).Draw(t, "startMeta")
	}
	if s.Kind == "referrers" {
		s.Start = ""
	}
	s.Stop = rapid.SampledFrom([]int{-1, -1, -1, 0, 1, 2, 3, len(all), len(all) + 1}).Draw(t, "stop")
	s.Twice = rapid.IntRange(0, 3).Draw(t, "twice") == 0
	if rapid.IntRange(0, 5).Draw(t, "cancel") == 0 {
		s.CancelAfter = rapid.IntRange(1, max(len(all), 1)).Draw(t, "cancelAfter")
	}
	return s
}

var prop = &vt.Prop[Script]{
	ID:   "C05",
	Name: "Listings",
	Rule: "(an eighth of the topmost clients get one listing request answered 200 with an empty body: the iteration must end with an error; an injected fault is an error after k items or, for tags, a repository that is removed while a client is paging: the first request is served, requests to go on are answered NAME_UNKNOWN; a third of the servers that send Link headers sit behind a front end that re-spells the header in an equivalent RFC 8288 form: unquoted rel, no space, a further parameter, a relation list containing next, an absolute URL; a sixth of the consumers cancel the listing's context after k items and go on accepting: the iteration then ends with an error or delivers the complete list) repositories / tags / referrers listings over generated contents (sizes {0,1,p-1,p,p+1,2p-1,2p,2p+1,3p+1} for client page size p in {1,2,3,5,default}), through stacks of <= 4 layers drawn from {http (<= 2 hops; MaxListPageSize absent / equal / above / below the client's page; Link on/off), debug, select(deny set), sub(prefix, with siblings px9, px9ey/x, px9-tools, px9.d/x outside it), unify(second member equal / overlapping / disjoint / repository unknown; both policies), fault(error after j items)}; start-after in {absent, an element, between elements, before all, after all, URL metacharacters & = ? % + space # and non-ASCII}; consumer stops after k items for k in {never,0,1,2,3,n,n+1}; optional second iteration of the same Seq; monitors between all layers check that no consumer is invoked after declining or after an error; oracle = independently computed sorted, de-duplicated, filtered, strictly-after list; a healthy stack must deliver exactly it, a stack with a failing layer must end with an error; non-trivial = at least one page boundary or a non-empty start point; distinct = (kind, stack shape, expected length, page size, start, stop class)",
	Gen:  genScript,
	Run:  run,
}

func TestPropListings(t *testing.T) { vt.Check(t, prop) }

func TestReplay(t *testing.T) {
	vt.Register(prop)
	vt.Replay(t)
}
