// Package c06 decides property C06: the server is total and
// protocol-conformant on arbitrary HTTP requests.
package c06

import (
	"bytes"
	"context"
	"encoding/base64"
	"encoding/json"
	"errors"
	"fmt"
	"io"
	"net/http"
	"net/http/httptest"
	"net/url"
	"regexp"
	"strconv"
	"strings"
	"testing"

	"cuelabs.dev/go/oci/ociregistry"
	"cuelabs.dev/go/oci/ociregistry/ocifilter"
	"cuelabs.dev/go/oci/ociregistry/ocimem"
	"cuelabs.dev/go/oci/ociregistry/ociserver"
	"github.com/opencontainers/go-digest"
	ocispec "github.com/opencontainers/image-spec/specs-go/v1"
	"pgregory.net/rapid"

	"verif/harness/internal/gen"
	"verif/harness/internal/rec"
	"verif/harness/internal/refg"
	"verif/harness/vt"
)

func TestMain(m *testing.M) { vt.Main(m) }

type Script struct {
	// server options
	OmitDigest   bool `json:"omit_digest,omitempty"`
	OmitLink     bool `json:"omit_link,omitempty"`
	NoSinglePost bool `json:"no_single_post,omitempty"`
	NoReferrers  bool `json:"no_referrers,omitempty"`
	MaxPage      int  `json:"max_page,omitempty"`
	// LocMode: LocationsForDescriptor option: "" unset | "empty" (returns no locations) | "one" | "error"
	// RotateIDs: the backend hands out a new upload id with every writer (as a proxying backend does
	// whose upstream registry puts state into the upload location)
	RotateIDs bool   `json:"rotate_ids,omitempty"`
	LocMode   string `json:"loc_mode,omitempty"`

	// BackendMode: "" the in-memory registry | "readonly" (every mutating call is refused as unsupported,
	// with nil results) | "fail:<CODE>" (every call fails with that OCI error)
	BackendMode string `json:"backend_mode,omitempty"`
	// ReadFault > 0: every reader the backend hands out fails after delivering ReadFault-1 bytes
	ReadFault int `json:"read_fault,omitempty"`

	Method   string            `json:"method"`
	Path     string            `json:"path"`
	RawQuery string            `json:"raw_query,omitempty"`
	Headers  map[string]string `json:"headers,omitempty"`
	Body     string            `json:"body,omitempty"` // "@manifest" / "@index" / "@blob" are expanded
	// ContentLength: -2 = len(body), otherwise the value put in Request.ContentLength
	ContentLength int64  `json:"content_length"`
	Template      string `json:"template,omitempty"` // informational
	Mutation      string `json:"mutation,omitempty"`
}

var specStatus = map[string]int{
	"BLOB_UNKNOWN": 404, "BLOB_UPLOAD_INVALID": 416, "BLOB_UPLOAD_UNKNOWN": 404, "DIGEST_INVALID": 400,
	"MANIFEST_BLOB_UNKNOWN": 404, "MANIFEST_INVALID": 400, "MANIFEST_UNKNOWN": 404, "NAME_INVALID": 400,
	"NAME_UNKNOWN": 404, "SIZE_INVALID": 400, "UNAUTHORIZED": 401, "DENIED": 403, "UNSUPPORTED": 400,
	"TOOMANYREQUESTS": 429, "RANGE_INVALID": 416,
}

var (
	blobData = []byte("hello blob content")
	blobDg   = digest.FromBytes(blobData)
	cfgData  = []byte("{}")
	cfgDg    = digest.FromBytes(cfgData)
	uploadID = "upload-in-progress"
)

func imageManifest() []byte {
	m := ocispec.Manifest{MediaType: ocispec.MediaTypeImageManifest,
		Config: ocispec.Descriptor{MediaType: ocispec.MediaTypeImageConfig, Digest: cfgDg, Size: int64(len(cfgData))},
		Layers: []ocispec.Descriptor{{MediaType: ocispec.MediaTypeImageLayer, Digest: blobDg, Size: int64(len(blobData))}}}
	m.SchemaVersion = 2
	b, _ := json.Marshal(m)
	return b
}

func indexManifest() []byte {
	im := imageManifest()
	ix := ocispec.Index{MediaType: ocispec.MediaTypeImageIndex, Manifests: []ocispec.Descriptor{{MediaType: ocispec.MediaTypeImageManifest, Digest: digest.FromBytes(im), Size: int64(len(im))}},
		Subject: &ocispec.Descriptor{MediaType: ocispec.MediaTypeImageManifest, Digest: digest.FromBytes(im), Size: int64(len(im))}}
	ix.SchemaVersion = 2
	b, _ := json.Marshal(ix)
	return b
}

func (s Script) body() []byte {
	switch s.Body {
	case "@manifest":
		return imageManifest()
	case "@index":
		return indexManifest()
	case "@blob":
		return blobData
	}
	return []byte(s.Body)
}

func setup() (*ocimem.Registry, error) {
	ctx := context.Background()
	m := ocimem.New()
	for _, repo := range []string{"foo", "a/blobs/uploads", "foo/bar"} {
		if _, err := m.PushBlob(ctx, repo, ociregistry.Descriptor{MediaType: "application/octet-stream", Digest: blobDg, Size: int64(len(blobData))}, bytes.NewReader(blobData)); err != nil {
			return nil, err
		}
		if _, err := m.PushBlob(ctx, repo, ociregistry.Descriptor{MediaType: ocispec.MediaTypeImageConfig, Digest: cfgDg, Size: 2}, bytes.NewReader(cfgData)); err != nil {
			return nil, err
		}
		for _, tag := range []string{"latest", "v1", "v2", "list"} {
			if _, err := m.PushManifest(ctx, repo, tag, imageManifest(), ocispec.MediaTypeImageManifest); err != nil {
				return nil, err
			}
		}
		if _, err := m.PushManifest(ctx, repo, "idx", indexManifest(), ocispec.MediaTypeImageIndex); err != nil {
			return nil, err
		}
		// a manifest of no bytes at all (a media type the registry does not interpret)
		if _, err := m.PushManifest(ctx, repo, "empty", []byte{}, "application/vnd.verif.opaque"); err != nil {
			return nil, err
		}
		// a tag whose manifest has been deleted since (mutable tags: the tag is left dangling)
		gone := []byte(`{"opaque":"deleted after it was tagged"}`)
		d, err := m.PushManifest(ctx, repo, "dangling", gone, "application/vnd.verif.opaque")
		if err != nil {
			return nil, err
		}
		if err := m.DeleteManifest(ctx, repo, d.Digest); err != nil {
			return nil, err
		}
		w, err := m.PushBlobChunkedResume(ctx, repo, uploadID, 0, 0)
		if err != nil {
			return nil, err
		}
		w.Write([]byte("hello"))
		w.Close()
	}
	return m, nil
}

// rotating makes every writer report a fresh id for its session: the real id followed by '#' and a
// counter; resuming strips that suffix again.
type rotating struct {
	ociregistry.Interface
	n    int
	last string // the id reported by the writer handed out last
}

func baseID(id string) string {
	if i := strings.LastIndex(id, "#"); i >= 0 {
		return id[:i]
	}
	return id
}

type rotWriter struct {
	ociregistry.BlobWriter
	id string
}

func (w *rotWriter) ID() string { return w.id }

func (r *rotating) wrap(w ociregistry.BlobWriter, err error) (ociregistry.BlobWriter, error) {
	if err != nil {
		return nil, err
	}
	r.n++
	r.last = fmt.Sprintf("%s#%d", w.ID(), r.n)
	return &rotWriter{BlobWriter: w, id: r.last}, nil
}

func (r *rotating) PushBlobChunked(ctx context.Context, repo string, chunkSize int) (ociregistry.BlobWriter, error) {
	return r.wrap(r.Interface.PushBlobChunked(ctx, repo, chunkSize))
}

func (r *rotating) PushBlobChunkedResume(ctx context.Context, repo, id string, offset int64, chunkSize int) (ociregistry.BlobWriter, error) {
	return r.wrap(r.Interface.PushBlobChunkedResume(ctx, repo, baseID(id), offset, chunkSize))
}

// breaking makes the backend's readers fail in mid-stream.
type breaking struct {
	ociregistry.Interface
	after     int
	delivered []byte
	fired     bool
}

type breakingReader struct {
	ociregistry.BlobReader
	b *breaking
}

func (r *breakingReader) Read(p []byte) (int, error) {
	left := r.b.after - len(r.b.delivered)
	if left <= 0 {
		r.b.fired = true
		return 0, errors.New("the storage behind the registry failed in mid-stream")
	}
	if len(p) > left {
		p = p[:left]
	}
	n, err := r.BlobReader.Read(p)
	r.b.delivered = append(r.b.delivered, p[:n]...)
	return n, err
}

func (b *breaking) wrap(r ociregistry.BlobReader, err error) (ociregistry.BlobReader, error) {
	if err != nil {
		return r, err
	}
	return &breakingReader{BlobReader: r, b: b}, nil
}
func (b *breaking) GetBlob(ctx context.Context, repo string, d ociregistry.Digest) (ociregistry.BlobReader, error) {
	return b.wrap(b.Interface.GetBlob(ctx, repo, d))
}
func (b *breaking) GetBlobRange(ctx context.Context, repo string, d ociregistry.Digest, o0, o1 int64) (ociregistry.BlobReader, error) {
	return b.wrap(b.Interface.GetBlobRange(ctx, repo, d, o0, o1))
}
func (b *breaking) GetManifest(ctx context.Context, repo string, d ociregistry.Digest) (ociregistry.BlobReader, error) {
	return b.wrap(b.Interface.GetManifest(ctx, repo, d))
}
func (b *breaking) GetTag(ctx context.Context, repo string, tag string) (ociregistry.BlobReader, error) {
	return b.wrap(b.Interface.GetTag(ctx, repo, tag))
}

var linkRe = regexp.MustCompile(`^<[^<>]+>;\s*rel="next"$`)

func run(s Script, v *vt.V) {
	mem, err := setup()
	if err != nil {
		v.Failf("harness", "setup: %v", err)
		return
	}
	var inner ociregistry.Interface = mem
	rot := &rotating{Interface: mem}
	if s.RotateIDs {
		inner = rot
	}
	switch {
	case s.BackendMode == "readonly":
		inner = ocifilter.ReadOnly(inner)
	case strings.HasPrefix(s.BackendMode, "fail:"):
		code := strings.TrimPrefix(s.BackendMode, "fail:")
		inner = &ociregistry.Funcs{NewError: func(ctx context.Context, method, repo string) error {
			return ociregistry.NewError("the backend says no", code, nil)
		}}
	}
	if s.BackendMode != "" {
		v.Class("backend-mode:%s", s.BackendMode)
	}
	brk := &breaking{Interface: inner, after: s.ReadFault - 1}
	if s.ReadFault > 0 {
		inner = brk
	}
	r := rec.New(inner)
	opts := &ociserver.Options{
		OmitDigestFromTagGetResponse: s.OmitDigest, OmitLinkHeaderFromResponses: s.OmitLink,
		DisableSinglePostUpload: s.NoSinglePost, DisableReferrersAPI: s.NoReferrers, MaxListPageSize: s.MaxPage,
	}
	switch s.LocMode {
	case "empty":
		opts.LocationsForDescriptor = func(bool, ociregistry.Descriptor) ([]string, error) { return nil, nil }
	case "one":
		opts.LocationsForDescriptor = func(isManifest bool, d ociregistry.Descriptor) ([]string, error) {
			kind := "blobs"
			if isManifest {
				kind = "manifests"
			}
			return []string{"https://cdn.test/" + kind + "/" + string(d.Digest)}, nil
		}
	case "error":
		opts.LocationsForDescriptor = func(bool, ociregistry.Descriptor) ([]string, error) { return nil, fmt.Errorf("no locations today") }
	}
	h := ociserver.New(r.Registry(), opts)
	body := s.body()
	req := &http.Request{Method: s.Method, URL: &url.URL{Path: s.Path, RawQuery: s.RawQuery}, Header: http.Header{},
		Body: io.NopCloser(bytes.NewReader(body)), Host: "registry.test", Proto: "HTTP/1.1", ProtoMajor: 1, ProtoMinor: 1,
		ContentLength: int64(len(body)), RequestURI: s.Path}
	if s.ContentLength != -2 {
		req.ContentLength = s.ContentLength
	}
	for k, val := range s.Headers {
		req.Header.Set(k, rawBytes(val))
	}
	w := httptest.NewRecorder()
	h.ServeHTTP(w, req) // a panic is caught by vt and reported with the script

	desc := fmt.Sprintf("%s %s?%s headers=%v body=%dB cl=%d opts(omitDigest=%v omitLink=%v noSinglePost=%v noReferrers=%v maxPage=%d loc=%q)", s.Method, s.Path, s.RawQuery, s.Headers, len(body), req.ContentLength, s.OmitDigest, s.OmitLink, s.NoSinglePost, s.NoReferrers, s.MaxPage, s.LocMode)
	calls := r.Calls()
	status := w.Code
	respBody := w.Body.Bytes()
	hdr := w.Header()
	v.Class("status=%d", status)
	reached := len(calls) > 0
	if reached {
		v.Class("reached:%s", calls[0].Method)
	}
	if reached || (status != 404 || strings.HasPrefix(s.Path, "/v2/")) {
		v.NonTrivial(fmt.Sprintf("%s|%s|%s|%d|%s|%s", s.Method, s.Template, s.Mutation, status, hdrClass(s.Headers), s.RawQuery))
	}

	// (4) the backend never sees a syntactically invalid name, tag or digest
	for _, c := range calls {
		if c.Method != "Repositories" && !refg.ValidRepo(c.Repo) {
			v.Failf("invalid-repo-to-backend", "%s: backend call %v with invalid repository name", desc, c)
			return
		}
		if c.Method == "MountBlob" && !refg.ValidRepo(c.FromRepo) {
			v.Failf("invalid-repo-to-backend", "%s: backend call %v with invalid source repository", desc, c)
			return
		}
		if c.Tag != "" && !refg.ValidTag(c.Tag) {
			v.Failf("invalid-tag-to-backend", "%s: backend call %v with invalid tag", desc, c)
			return
		}
		if c.Digest != "" && !refg.ValidDigest(c.Digest) {
			v.Failf("invalid-digest-to-backend", "%s: backend call %v with invalid digest", desc, c)
			return
		}
		if (c.Method == "GetTag" || c.Method == "ResolveTag" || c.Method == "DeleteTag") && c.Tag == "" {
			v.Failf("invalid-tag-to-backend", "%s: backend call %v with an empty tag", desc, c)
			return
		}
		if c.DescDigest != "" && !refg.ValidDigest(c.DescDigest) {
			v.Failf("invalid-digest-to-backend", "%s: backend PushBlob with invalid digest %q", desc, c.DescDigest)
			return
		}
	}
	// (5) everything obtained from the backend is released
	for _, rd := range r.Readers() {
		if rd.Closed() == 0 {
			v.Failf("reader-not-closed", "%s: the reader obtained by %s was never closed", desc, rd.Method)
			return
		}
	}
	for _, wr := range r.Writers() {
		if !wr.Released() {
			v.Failf("writer-not-closed", "%s: the writer obtained by %s was never closed (ops %v)", desc, wr.Method, wr.Ops)
			return
		}
	}
	if brk.fired {
		// the content broke off in mid-stream: whatever status went out, the body is either an error
		// document or exactly the bytes the backend delivered - never content with something appended
		v.Class("read-fault-fired/status=%d", status)
		if status < 400 && !bytes.Equal(respBody, brk.delivered) {
			v.Failf("body-after-read-fault", "%s: the backend's reader failed after delivering %d bytes (%q); the response has status %d and the %d-byte body %.300q", desc, len(brk.delivered), brk.delivered, status, len(respBody), respBody)
			return
		}
		if status < 400 {
			return
		}
	}
	// Content-Length, when stated on a non-HEAD response, equals the body
	if cl := hdr.Get("Content-Length"); cl != "" && s.Method != "HEAD" {
		n, err := strconv.Atoi(cl)
		if err != nil || n != len(respBody) {
			v.Failf("content-length", "%s: status %d Content-Length %q but the body has %d bytes", desc, status, cl, len(respBody))
			return
		}
	}
	if status < 200 || status > 599 {
		v.Failf("status", "%s: status %d", desc, status)
		return
	}
	if status >= 400 {
		// (2) failures are JSON OCI error bodies whose status agrees with the code
		var we struct {
			Errors []struct {
				Code    string          `json:"code"`
				Message string          `json:"message"`
				Detail  json.RawMessage `json:"detail"`
			} `json:"errors"`
		}
		if err := json.Unmarshal(respBody, &we); err != nil || len(we.Errors) == 0 || we.Errors[0].Code == "" {
			v.Failf("error-body", "%s: status %d with a body that is not an OCI error document: %.200q", desc, status, respBody)
			return
		}
		if ct := hdr.Get("Content-Type"); !strings.HasPrefix(ct, "application/json") {
			v.Failf("error-body", "%s: status %d error body has Content-Type %q", desc, status, ct)
			return
		}
		if want, ok := specStatus[we.Errors[0].Code]; ok && want != status {
			v.Failf("status-code-mismatch", "%s: status %d with error code %s (the specification says %d)", desc, status, we.Errors[0].Code, want)
			return
		}
		return
	}
	if status >= 300 {
		if hdr.Get("Location") == "" {
			v.Failf("missing-header", "%s: redirect %d without a Location header", desc, status)
		}
		return
	}
	// (3) successes carry the mandated headers
	need := func(name string) bool {
		if hdr.Get(name) == "" {
			m := "-"
			if reached {
				m = calls[0].Method
			}
			v.Failf("missing-header", "%s: status %d (backend %s) without %s header", desc, status, m, name)
			return false
		}
		return true
	}
	validDigestHeader := func() bool {
		if !need("Docker-Content-Digest") {
			return false
		}
		if d := hdr.Get("Docker-Content-Digest"); !refg.ValidDigest(d) {
			v.Failf("bad-header", "%s: Docker-Content-Digest %q is not a digest", desc, d)
			return false
		}
		return true
	}
	if !reached {
		return // ping
	}
	last := calls[len(calls)-1].Method
	switch last {
	case "GetBlob", "GetBlobRange":
		if !validDigestHeader() || !need("Content-Length") {
			return
		}
		if status == 206 {
			cr := hdr.Get("Content-Range")
			var a, b, n int
			if _, err := fmt.Sscanf(cr, "bytes %d-%d/%d", &a, &b, &n); err != nil || a < 0 || a > b || b >= n || b-a+1 != len(respBody) || n != len(blobData) && n != len(cfgData) {
				v.Failf("content-range", "%s: 206 with Content-Range %q and %d body bytes", desc, cr, len(respBody))
				return
			}
		} else if status != 200 {
			v.Failf("status", "%s: blob GET answered %d", desc, status)
		}
	case "ResolveBlob":
		if !validDigestHeader() || !need("Content-Length") {
			return
		}
	case "GetManifest", "GetTag":
		if !need("Content-Length") || !need("Content-Type") {
			return
		}
		if !s.OmitDigest && !validDigestHeader() {
			return
		}
	case "ResolveManifest", "ResolveTag":
		if !need("Content-Length") || !need("Content-Type") {
			return
		}
		if (!s.OmitDigest || last == "ResolveTag") && !validDigestHeader() {
			return
		}
	case "PushBlob", "MountBlob", "PushManifest":
		if status != 201 {
			v.Failf("status", "%s: %s answered %d, want 201", desc, last, status)
			return
		}
		if !need("Location") || !validDigestHeader() {
			return
		}
		// the Location names what was just stored: a manifest URL for a manifest, a blob URL for a
		// blob (also when the locations come from the LocationsForDescriptor option)
		kind := "/blobs/"
		if last == "PushManifest" {
			kind = "/manifests/"
		}
		if loc := hdr.Get("Location"); !strings.Contains(loc, kind+hdr.Get("Docker-Content-Digest")) {
			v.Failf("wrong-location", "%s: %s answered Location %q, which is not a %s URL of %s", desc, last, loc, strings.Trim(kind, "/"), hdr.Get("Docker-Content-Digest"))
			return
		}
	case "PushBlobChunked":
		if status != 202 || !need("Location") || !need("Range") {
			if status != 202 {
				v.Failf("status", "%s: upload start answered %d, want 202", desc, status)
			}
			return
		}
	case "PushBlobChunkedResume":
		switch status {
		case 201:
			if !need("Location") || !validDigestHeader() {
				return
			}
		case 202, 204:
			if !need("Location") || !need("Range") {
				return
			}
			if !regexp.MustCompile(`^0-\d+$`).MatchString(hdr.Get("Range")) {
				v.Failf("bad-header", "%s: Range %q", desc, hdr.Get("Range"))
				return
			}
			// the Location names the session by the id the backend's writer reports now: asked for the
			// status of the upload at that Location, the server resumes the session under that id
			if s.RotateIDs && rot.last != "" {
				loc := hdr.Get("Location")
				wantID := rot.last
				before := len(r.Calls())
				u, err := url.Parse(loc)
				if err != nil {
					v.Failf("bad-header", "%s: Location %q: %v", desc, loc, err)
					return
				}
				req2 := &http.Request{Method: "GET", URL: &url.URL{Path: u.Path, RawPath: u.RawPath, RawQuery: u.RawQuery}, Header: http.Header{}, Body: http.NoBody,
					Host: "registry.test", Proto: "HTTP/1.1", ProtoMajor: 1, ProtoMinor: 1, RequestURI: u.RequestURI()}
				h.ServeHTTP(httptest.NewRecorder(), req2)
				after := r.Calls()
				gotID := "<no resume call>"
				for _, c := range after[before:] {
					if c.Method == "PushBlobChunkedResume" {
						gotID = c.ID
					}
				}
				if gotID != wantID {
					v.Failf("stale-upload-location", "%s: the backend's writer reports upload id %q; a status request to the Location handed out (%q) makes the server resume upload id %q", desc, wantID, loc, gotID)
					return
				}
			}
			// the Range header reports what the registry now holds for the session
			lc := calls[len(calls)-1]
			if w, err := mem.PushBlobChunkedResume(context.Background(), lc.Repo, baseID(lc.ID), -1, 0); err == nil {
				size := w.Size()
				w.Close()
				want := fmt.Sprintf("0-%d", max(size-1, 0))
				if hdr.Get("Range") != want {
					v.Failf("wrong-range-header", "%s: Range %q but the session holds %d bytes (want %q)", desc, hdr.Get("Range"), size, want)
					return
				}
				// an accepted chunk is in the session: each of the backend's three repositories started with "hello"
				// under the one known id, any other id starts a session of its own
				held := int64(0)
				if baseID(lc.ID) == uploadID && (lc.Repo == "foo" || lc.Repo == "a/blobs/uploads" || lc.Repo == "foo/bar") {
					held = 5
				}
				if s.Method == "PATCH" && status == 202 && s.BackendMode == "" && s.ContentLength < 0 && size != held+int64(len(body)) {
					v.Failf("accepted-chunk-not-stored", "%s: the session held %d bytes, the request carried %d and was answered 202; the session now holds %d", desc, held, len(body), size)
					return
				}
			}
		default:
			v.Failf("status", "%s: upload request answered %d", desc, status)
			return
		}
	case "Tags", "Repositories", "Referrers":
		if !need("Content-Length") {
			return
		}
		var any map[string]any
		if err := json.Unmarshal(respBody, &any); err != nil {
			v.Failf("list-body", "%s: listing body is not JSON: %.100q", desc, respBody)
			return
		}
		if l := hdr.Get("Link"); l != "" {
			if s.OmitLink {
				v.Failf("bad-header", "%s: Link header although the option omits it", desc)
				return
			}
			if !linkRe.MatchString(l) {
				v.Failf("bad-header", "%s: Link %q", desc, l)
				return
			}
		}
	}
}

func hdrClass(h map[string]string) string {
	var k []string
	for name := range h {
		k = append(k, name)
	}
	return fmt.Sprint(len(k), k)
}

// ---- generator ----

var templates = []string{"ping", "catalog", "blob", "uploads", "upload", "manifest", "tags", "referrers"}

func genScript(t *rapid.T) Script {
	s := Script{ContentLength: -2, Headers: map[string]string{}}
	s.OmitDigest, s.OmitLink = rapid.Bool().Draw(t, "omitDigest"), rapid.Bool().Draw(t, "omitLink")
	s.NoSinglePost, s.NoReferrers = rapid.IntRange(0, 3).Draw(t, "noSinglePost") == 0, rapid.IntRange(0, 5).Draw(t, "noReferrers") == 0
	s.MaxPage = rapid.SampledFrom([]int{0, 0, 1, 2, 1000}).Draw(t, "maxPage")
	s.RotateIDs = rapid.IntRange(0, 3).Draw(t, "rotateIDs") == 0
	if rapid.IntRange(0, 7).Draw(t, "backendMode") == 0 {
		s.BackendMode = rapid.SampledFrom([]string{"readonly", "readonly", "fail:DENIED", "fail:TOOMANYREQUESTS", "fail:UNSUPPORTED", "fail:NAME_UNKNOWN", "fail:CUSTOM_CODE"}).Draw(t, "backendModeKind")
	}
	if rapid.IntRange(0, 7).Draw(t, "readFault") == 0 {
		s.ReadFault = rapid.IntRange(1, 20).Draw(t, "readFaultAt")
	}
	s.LocMode = rapid.SampledFrom([]string{"", "", "", "empty", "one", "error"}).Draw(t, "locMode")
	s.Method = rapid.SampledFrom([]string{"GET", "GET", "GET", "HEAD", "PUT", "POST", "PATCH", "DELETE", "OPTIONS", "", "get", "CONNECT", "G E T"}).Draw(t, "method")
	repo := func() string {
		switch rapid.IntRange(0, 7).Draw(t, "repoKind") {
		case 0, 1, 2, 3:
			return rapid.SampledFrom([]string{"foo", "foo", "a/blobs/uploads", "foo/bar"}).Draw(t, "knownRepo")
		case 4:
			return gen.Repo().Draw(t, "validRepo")
		case 5:
			return gen.LongRepo(rapid.SampledFrom([]int{255, 256, 1000}).Draw(t, "longLen"))
		}
		return gen.HostileRepo().Draw(t, "hostileRepo")
	}
	dg := func() string {
		switch rapid.IntRange(0, 5).Draw(t, "digestKind") {
		case 0, 1:
			return string(blobDg)
		case 2:
			return string(digest.FromBytes(imageManifest()))
		case 3:
			return gen.ValidDigest().Draw(t, "validDigest")
		}
		return gen.HostileDigest().Draw(t, "hostileDigest")
	}
	ref := func() string {
		switch rapid.IntRange(0, 6).Draw(t, "refKind") {
		case 0, 1:
			return rapid.SampledFrom([]string{"latest", "v1", "idx", "list", "dangling", "empty"}).Draw(t, "knownTag")
		case 2:
			return gen.Tag().Draw(t, "validTag")
		case 3:
			return gen.HostileTag().Draw(t, "hostileTag")
		}
		return dg()
	}
	id := func() string {
		switch rapid.IntRange(0, 5).Draw(t, "idKind") {
		case 0, 1, 2:
			return base64.RawURLEncoding.EncodeToString([]byte(uploadID))
		case 3:
			return base64.RawURLEncoding.EncodeToString([]byte(rapid.SampledFrom([]string{"other", "", "a/b", "id with space", "\xff\xfe", "ab?", "ab>", "~~~???>>>", "\xfb\xef\xbe", "https://up.test/x?state=a+b/c"}).Draw(t, "rawID")))
		case 4:
			return rapid.SampledFrom([]string{"!!!", "====", "a", "YQ=="}).Draw(t, "badB64")
		}
		return ""
	}
	s.Template = rapid.SampledFrom(templates).Draw(t, "template")
	switch s.Template {
	case "ping":
		s.Path = rapid.SampledFrom([]string{"/v2/", "/v2", "/", "", "/v1/", "/v2x", "v2/"}).Draw(t, "pingPath")
	case "catalog":
		s.Path = "/v2/_catalog"
	case "blob":
		s.Path = "/v2/" + repo() + "/blobs/" + dg()
	case "uploads":
		s.Path = "/v2/" + repo() + "/blobs/uploads" + rapid.SampledFrom([]string{"/", "/", ""}).Draw(t, "slash")
	case "upload":
		s.Path = "/v2/" + repo() + "/blobs/uploads/" + id()
	case "manifest":
		s.Path = "/v2/" + repo() + "/manifests/" + ref()
	case "tags":
		s.Path = "/v2/" + repo() + "/tags/" + rapid.SampledFrom([]string{"list", "list", "list", "", "lists", "list/"}).Draw(t, "list")
	case "referrers":
		s.Path = "/v2/" + repo() + "/referrers/" + dg()
	}
	// mostly a method the endpoint knows
	if rapid.IntRange(0, 9).Draw(t, "fitMethod") < 7 {
		fit := map[string][]string{"ping": {"GET"}, "catalog": {"GET"}, "blob": {"GET", "GET", "HEAD", "DELETE"}, "uploads": {"POST"},
			"upload": {"GET", "PATCH", "PATCH", "PUT", "PUT"}, "manifest": {"GET", "HEAD", "PUT", "PUT", "DELETE"}, "tags": {"GET"}, "referrers": {"GET"}}
		s.Method = rapid.SampledFrom(fit[s.Template]).Draw(t, "fitMethodValue")
	}
	// path mutations
	s.Mutation = rapid.SampledFrom([]string{"none", "none", "none", "none", "none", "none", "none", "dropSeg", "dupSeg", "emptySeg", "trailingSlash", "doubleSlash", "prefix"}).Draw(t, "mutation")
	segs := strings.Split(s.Path, "/")
	switch s.Mutation {
	case "dropSeg":
		if len(segs) > 2 {
			i := rapid.IntRange(1, len(segs)-1).Draw(t, "seg")
			segs = append(segs[:i], segs[i+1:]...)
			s.Path = strings.Join(segs, "/")
		}
	case "dupSeg":
		if len(segs) > 2 {
			i := rapid.IntRange(1, len(segs)-1).Draw(t, "seg")
			segs = append(segs[:i+1], segs[i:]...)
			s.Path = strings.Join(segs, "/")
		}
	case "emptySeg":
		if len(segs) > 2 {
			segs[rapid.IntRange(1, len(segs)-1).Draw(t, "seg")] = ""
			s.Path = strings.Join(segs, "/")
		}
	case "trailingSlash":
		s.Path += "/"
	case "doubleSlash":
		s.Path = strings.Replace(s.Path, "/", "//", rapid.IntRange(1, 3).Draw(t, "nslash"))
	case "prefix":
		s.Path = rapid.SampledFrom([]string{"/v1", "", "/v2/v2", "/V2"}).Draw(t, "prefix") + strings.TrimPrefix(s.Path, "/v2")
	}
	// query
	q := url.Values{}
	opt := func(name string, vals []string) {
		if rapid.IntRange(0, 2).Draw(t, "has_"+name) == 0 {
			q.Set(name, rapid.SampledFrom(vals).Draw(t, "q_"+name))
			if rapid.IntRange(0, 9).Draw(t, "repeat_"+name) == 0 {
				q.Add(name, rapid.SampledFrom(vals).Draw(t, "q2_"+name))
			}
		}
	}
	bodyKind := rapid.SampledFrom([]string{"", "", "x", "hello", "@blob", "@manifest", "@index", "{\"schemaVersion\":2,", "not json"}).Draw(t, "body")
	s.Body = bodyKind
	opt("n", []string{"", "0", "1", "2", "3", "-1", "abc", "99999999999999999999", "1000", "1001", "4611686018427387904", "9223372036854775807", "2147483648", "-9223372036854775808", "+5", "1e3", " 2"})
	opt("last", []string{"", "a", "latest", "v1", "zzz", "foo", "a&b"})
	opt("digest", []string{string(digest.FromBytes(s.body())), string(blobDg), string(digest.FromBytes([]byte("hello"))), "sha256:zz", "", gen.HostileDigest().Draw(t, "qdigest")})
	opt("mount", []string{string(blobDg), gen.ValidDigest().Draw(t, "qmount"), "sha256:zz", ""})
	opt("from", []string{"foo", "foo/bar", "unknown/repo", "Bad", "a//b", "", "../x"})
	s.RawQuery = q.Encode()
	if rapid.IntRange(0, 19).Draw(t, "badQuery") == 0 {
		s.RawQuery = rapid.SampledFrom([]string{"%zz", "n=%", "a=b;c=d", "&&&", "n=1&n=%zz"}).Draw(t, "rawQuery")
	}
	// headers
	hopt := func(name string, vals []string) {
		if rapid.IntRange(0, 2).Draw(t, "has_"+name) == 0 {
			s.Headers[name] = rapid.SampledFrom(vals).Draw(t, "h_"+name)
		}
	}
	hopt("Range", []string{"bytes=0-0", "bytes=0-", "bytes=1-2", "bytes=5-4", "bytes=0--1", "bytes=-1", "bytes=0-1,2-3", "garbage", "bytes=99999-", "bytes=17-", "bytes=18-", "bytes=0-99999", "bytes=", "bytes=a-b", "bytes=9223372036854775807-", "bytes=0-9223372036854775807", "bytes=1-18", "bytes=0-18", "bytes=5-18", "bytes=17-18", "bytes=0-2", "bytes=1-2", "bytes=0-17", "bytes=16-17",
		"bytes=-", "bytes= - ", "bytes=0-1,-", "bytes=,", "bytes=--", "bytes=-,-", "bytes=-0", "bytes= ", "bytes=0- ,", "=", "bytes"})
	if rapid.IntRange(0, 5).Draw(t, "rangeGrammar") == 0 {
		// anything over the alphabet of the range grammar
		s.Headers["Range"] = "bytes=" + rapid.StringOfN(rapid.SampledFrom([]rune("0123456789-, ")), 0, 8, -1).Draw(t, "rangeSpec")
	}
	if rapid.IntRange(0, 11).Draw(t, "obsText") == 0 {
		// bytes above 0x7f, which net/http lets through: not UTF-8, and UTF-8
		name := rapid.SampledFrom([]string{"Range", "Range", "Content-Range", "Content-Type"}).Draw(t, "obsTextHeader")
		s.Headers[name] = rapid.SampledFrom([]string{"bytes=0-%E9", "bytes=%FF-1", "%80", "bytes=0-1%C3%A9", "0-%E94", "application/%C3%28json", "bytes=0-1,%A0"}).Draw(t, "obsTextValue")
	}
	hopt("Content-Range", []string{"0-0", "0-4", "5-9", "5-4", "1-0", "x-y", "0-99999999999999999999", "-1-2", "5-", "-", "0-17", "5-22", "9223372036854775806-9223372036854775807", "4-8"})
	hopt("Content-Type", []string{ocispec.MediaTypeImageManifest, ocispec.MediaTypeImageIndex, "application/vnd.verif.opaque", "garbage", "application/octet-stream", ""})
	switch rapid.IntRange(0, 5).Draw(t, "clKind") {
	case 0:
		s.ContentLength = -1
	case 1:
		s.ContentLength = rapid.SampledFrom([]int64{0, 1, 5, 1 << 40}).Draw(t, "cl")
	}
	return s
}

// rawBytes turns %XX in a header value of a script into the byte XX (header values may hold any byte
// but CTLs - obs-text -, and a script is stored as JSON, which holds UTF-8 only).
func rawBytes(s string) string {
	var b []byte
	for i := 0; i < len(s); i++ {
		if s[i] == '%' && i+2 < len(s) {
			if x, err := strconv.ParseUint(s[i+1:i+3], 16, 8); err == nil {
				b = append(b, byte(x))
				i += 2
				continue
			}
		}
		b = append(b, s[i])
	}
	return string(b)
}

var prop = &vt.Prop[Script]{
	ID:   "C06",
	Name: "ServeAnyRequest",
	Rule: "requests built by hand (so that unparseable paths are reachable) and served in-process by ociserver over a recording, close-tracking wrapper of a pre-populated ocimem (3 repositories incl. a/blobs/uploads, blobs, image + index manifests with subject, tags - one naming a manifest of zero bytes, one left dangling by the deletion of its manifest -, an upload in progress; an eighth of the backends hand out readers that fail after 0-19 bytes: the response is then an error document or exactly the bytes delivered, never content with something appended; an eighth of the backends are read-only or fail every call with a fixed OCI error, handing back nil readers and writers) under every Options combination, a quarter of the time with a backend that rotates upload ids: method in {GET,HEAD,PUT,POST,PATCH,DELETE,OPTIONS,'',lower case,garbage}; path = one of 8 endpoint templates with slots from known / valid (routing words, 255-1000 byte names) / hostile names, digests, tags and upload ids (incl. ids whose base64 form needs the URL-safe alphabet), then mutated (segment dropped / duplicated / emptied, trailing slash, double slash, other prefix); query n,last,digest,mount,from each absent / empty / valid / malformed / repeated, raw malformed queries; Range, Content-Range, Content-Type headers from valid and boundary values (0-0, 5-4, 1-0, MaxInt64, negative, non-numeric, lone '-' and ',' forms, generated strings over the range alphabet, values with bytes above 0x7f); bodies (empty, 1 byte, blob, valid image / index manifests, truncated JSON) with matching, unknown (-1) and mismatching Content-Length; oracle = no panic; status >= 400 => OCI JSON error document whose status equals the specification's for its code; 2xx => the endpoint's mandated headers (Location - for uploads naming the id the backend's writer reports now -, Docker-Content-Digest, Range, Content-Range consistent with the body, Content-Length == body); after a 202 to a PATCH the session holds what it held plus the request's body; no backend call with a repository, tag or digest that an independent reference reading of the grammars rejects; every reader and writer obtained from the backend closed; non-trivial = the request reached a handler or was rejected for a reason other than a foreign path; distinct = (method, template, mutation, status, header set, query)",
	Gen:  genScript,
	Run:  run,
}

func TestPropServe(t *testing.T) { vt.Check(t, prop) }

func TestReplay(t *testing.T) {
	vt.Register(prop)
	vt.Replay(t)
}

// FuzzGenerated drives the property's generator from coverage-guided fuzz input (thorough tier).
func FuzzGenerated(f *testing.F) { vt.Fuzz(f, prop) }
