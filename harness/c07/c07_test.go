// Package c07 decides property C07: errors keep their identity, status,
// detail and message across any number of server->client hops.
package c07

import (
	"bytes"
	"context"
	"cuelabs.dev/go/oci/ociregistry/ociauth"
	"encoding/base64"
	"encoding/json"
	"errors"
	"fmt"
	"io"
	"net/http"
	"reflect"
	"strings"
	"sync"
	"testing"

	"cuelabs.dev/go/oci/ociregistry"
	"cuelabs.dev/go/oci/ociregistry/ociclient"
	"cuelabs.dev/go/oci/ociregistry/ocimem"
	"cuelabs.dev/go/oci/ociregistry/ociserver"
	"github.com/opencontainers/go-digest"
	"pgregory.net/rapid"

	"verif/harness/internal/memnet"
	"verif/harness/vt"
)

func TestMain(m *testing.M) { vt.Main(m) }

type Script struct {
	Code string `json:"code"` // "" = no OCI code at all
	// EmptyCodeError: with Code "", build an ociregistry.Error whose code is empty (it can still carry a detail)
	EmptyCodeError bool   `json:"empty_code_error,omitempty"`
	Message        string `json:"message"`
	Detail         string `json:"detail,omitempty"` // JSON text or ""
	// Wraps, applied inside-out: "w" = fmt %w with a prefix, "h<status>" = NewHTTPError(status)
	Wraps   []string `json:"wraps,omitempty"`
	Carrier string   `json:"carrier"`
	Hops    int      `json:"hops"`
	// AuthHop: every hop's client goes through ociauth's standard transport (no credentials configured)
	// and every registry puts a Basic challenge on its 401 answers, as real registries do
	AuthHop bool `json:"auth_hop,omitempty"`
	// CTParam: every registry's JSON answers are declared as application/json; charset=utf-8
	CTParam bool `json:"ct_param,omitempty"`
}

var standard = []ociregistry.Error{
	ociregistry.ErrBlobUnknown, ociregistry.ErrBlobUploadInvalid, ociregistry.ErrBlobUploadUnknown, ociregistry.ErrDigestInvalid,
	ociregistry.ErrManifestBlobUnknown, ociregistry.ErrManifestInvalid, ociregistry.ErrManifestUnknown, ociregistry.ErrNameInvalid,
	ociregistry.ErrNameUnknown, ociregistry.ErrSizeInvalid, ociregistry.ErrUnauthorized, ociregistry.ErrDenied,
	ociregistry.ErrUnsupported, ociregistry.ErrTooManyRequests, ociregistry.ErrRangeInvalid,
}

// specStatus is the status the distribution specification assigns to each code.
var specStatus = map[string]int{
	"BLOB_UNKNOWN": 404, "BLOB_UPLOAD_INVALID": 416, "BLOB_UPLOAD_UNKNOWN": 404, "DIGEST_INVALID": 400,
	"MANIFEST_BLOB_UNKNOWN": 404, "MANIFEST_INVALID": 400, "MANIFEST_UNKNOWN": 404, "NAME_INVALID": 400,
	"NAME_UNKNOWN": 404, "SIZE_INVALID": 400, "UNAUTHORIZED": 401, "DENIED": 403, "UNSUPPORTED": 400,
	"TOOMANYREQUESTS": 429, "RANGE_INVALID": 416,
}

var carriers = []string{"GetBlob", "GetBlobRange", "GetManifest", "GetTag", "ResolveBlob", "ResolveManifest", "ResolveTag",
	"PushBlob", "PushBlobChunked", "PushBlobChunkedResume", "MountBlob", "PushManifest",
	"DeleteBlob", "DeleteManifest", "DeleteTag", "Repositories", "Tags", "Referrers",
	// errors raised by the backend's BlobWriter rather than by an Interface method ("<call>@<stage>")
	"Writer@write", "Writer@close", "Writer@commit", "PushBlob@write", "PushBlob@commit", "Writer@write+close",
	// the error of a method on a registry where everything else works
	"MountBlob@only", "GetBlobRange@only", "GetTag@third-request",
	// a listing that fails only when the client asks for its second page (page size 2)
	"Tags@later-page", "Repositories@later-page",
	// a listing that fails after the first item of a page
	"Tags@mid-page", "Repositories@mid-page"}

func isHead(c string) bool { return strings.HasPrefix(c, "Resolve") }

func (s Script) build() error {
	var err error
	if s.Code == "" && !s.EmptyCodeError {
		err = errors.New(s.Message)
	} else {
		var d json.RawMessage
		if s.Detail != "" {
			d = json.RawMessage(s.Detail)
		}
		err = ociregistry.NewError(s.Message, s.Code, d)
	}
	for i, w := range s.Wraps {
		switch {
		case w == "w":
			err = fmt.Errorf("context %d: %w", i, err)
		case strings.HasPrefix(w, "h"):
			var st int
			fmt.Sscanf(w[1:], "%d", &st)
			err = ociregistry.NewHTTPError(err, st, nil, nil)
		}
	}
	return err
}

type statusTap struct {
	rt       http.RoundTripper
	mu       sync.Mutex
	statuses []int
}

func (t *statusTap) RoundTrip(r *http.Request) (*http.Response, error) {
	resp, err := t.rt.RoundTrip(r)
	if err == nil {
		t.mu.Lock()
		t.statuses = append(t.statuses, resp.StatusCode)
		t.mu.Unlock()
	}
	return resp, err
}

// call invokes the carrier method and returns its error.
func call(reg ociregistry.Interface, carrier string, hops int) error {
	ctx := context.Background()
	dg := digest.FromBytes([]byte("x"))
	switch carrier {
	case "GetBlob":
		_, err := reg.GetBlob(ctx, "foo", dg)
		return err
	case "GetBlobRange", "GetBlobRange@only":
		_, err := reg.GetBlobRange(ctx, "foo", dg, 1, 5)
		return err
	case "GetManifest":
		_, err := reg.GetManifest(ctx, "foo", dg)
		return err
	case "GetTag@third-request":
		r, err := reg.GetTag(ctx, "foo", "big")
		if err == nil {
			_, err = io.Copy(io.Discard, r)
			r.Close()
		}
		return err
	case "GetTag":
		_, err := reg.GetTag(ctx, "foo", "latest")
		return err
	case "ResolveBlob":
		_, err := reg.ResolveBlob(ctx, "foo", dg)
		return err
	case "ResolveManifest":
		_, err := reg.ResolveManifest(ctx, "foo", dg)
		return err
	case "ResolveTag":
		_, err := reg.ResolveTag(ctx, "foo", "latest")
		return err
	case "PushBlob":
		_, err := reg.PushBlob(ctx, "foo", ociregistry.Descriptor{Digest: dg, Size: 1, MediaType: "application/octet-stream"}, bytes.NewReader([]byte("x")))
		return err
	case "PushBlobChunked":
		_, err := reg.PushBlobChunked(ctx, "foo", 0)
		return err
	case "PushBlobChunkedResume":
		// an upload id that every hop can decode into a location of the hop below
		id := "some-upload-id"
		for i := 0; i < hops; i++ {
			id = "/v2/foo/blobs/uploads/" + base64.RawURLEncoding.EncodeToString([]byte(id))
		}
		_, err := reg.PushBlobChunkedResume(ctx, "foo", id, -1, 0)
		return err
	case "MountBlob", "MountBlob@only":
		_, err := reg.MountBlob(ctx, "bar", "foo", dg)
		return err
	case "PushManifest":
		_, err := reg.PushManifest(ctx, "foo", "latest", []byte("{}"), "application/vnd.verif.opaque")
		return err
	case "DeleteBlob":
		return reg.DeleteBlob(ctx, "foo", dg)
	case "DeleteManifest":
		return reg.DeleteManifest(ctx, "foo", dg)
	case "DeleteTag":
		return reg.DeleteTag(ctx, "foo", "latest")
	case "Repositories", "Repositories@later-page", "Repositories@mid-page":
		_, err := ociregistry.All(reg.Repositories(ctx, ""))
		return err
	case "Tags", "Tags@later-page", "Tags@mid-page":
		_, err := ociregistry.All(reg.Tags(ctx, "foo", ""))
		return err
	case "Referrers":
		_, err := ociregistry.All(reg.Referrers(ctx, "foo", dg, ""))
		return err
	}
	if what, _, ok := strings.Cut(carrier, "@"); ok {
		data := bytes.Repeat([]byte("d"), writerDataLen) // more than any chunk size: the writer has to flush
		if what == "PushBlob" {
			_, err := reg.PushBlob(ctx, "foo", ociregistry.Descriptor{Digest: digest.FromBytes(data), Size: int64(len(data)), MediaType: "application/octet-stream"}, bytes.NewReader(data))
			return err
		}
		w, err := reg.PushBlobChunked(ctx, "foo", 0)
		if err != nil {
			return err
		}
		defer w.Close()
		if _, err := w.Write(data); err != nil {
			return err
		}
		_, err = w.Commit(digest.FromBytes(data))
		return err
	}
	panic("unknown carrier")
}

// challenging puts a Basic challenge on every 401 answer of the registry behind it.
type challenging struct{ h http.Handler }

type challengingWriter struct{ http.ResponseWriter }

func (w challengingWriter) WriteHeader(code int) {
	if code == http.StatusUnauthorized {
		w.Header().Set("Www-Authenticate", `Basic realm="registry"`)
	}
	w.ResponseWriter.WriteHeader(code)
}

func (c challenging) ServeHTTP(w http.ResponseWriter, req *http.Request) {
	c.h.ServeHTTP(challengingWriter{w}, req)
}

// charsetting is a front end that spells the media type of JSON answers with a parameter, as many
// registries and proxies do: application/json; charset=utf-8 is the same media type.
type charsetting struct{ h http.Handler }

type charsettingWriter struct{ http.ResponseWriter }

func (w charsettingWriter) WriteHeader(code int) {
	if w.Header().Get("Content-Type") == "application/json" {
		w.Header().Set("Content-Type", "application/json; charset=utf-8")
	}
	w.ResponseWriter.WriteHeader(code)
}

func (c charsetting) ServeHTTP(w http.ResponseWriter, req *http.Request) {
	c.h.ServeHTTP(charsettingWriter{w}, req)
}

type noCredentials struct{}

func (noCredentials) EntryForRegistry(host string) (ociauth.ConfigEntry, error) {
	return ociauth.ConfigEntry{}, nil
}

type rangeFails struct {
	ociregistry.Interface
	err error
}

func (m *rangeFails) GetBlobRange(ctx context.Context, repo string, dg ociregistry.Digest, o0, o1 int64) (ociregistry.BlobReader, error) {
	return nil, m.err
}

type manifestFails struct {
	ociregistry.Interface
	err error
}

func (m *manifestFails) GetManifest(ctx context.Context, repo string, dg ociregistry.Digest) (ociregistry.BlobReader, error) {
	return nil, m.err
}

type mountFails struct {
	ociregistry.Interface
	err error
}

func (m *mountFails) MountBlob(ctx context.Context, from, to string, dg ociregistry.Digest) (ociregistry.Descriptor, error) {
	return ociregistry.Descriptor{}, m.err
}

const writerDataLen = 100 << 10

// failWriter is a backend BlobWriter that fails with err at one stage.
type failWriter struct {
	stage  string
	err    error
	size   int64
	failed bool
}

func (w *failWriter) Write(p []byte) (int, error) {
	// the Write that completes the content is the one that fails: by then the server has read
	// the whole request body (a response sent while the client is still writing its request can
	// get lost in any HTTP/1.1 implementation; that race is not what is examined here)
	if (w.stage == "write" || w.stage == "write+close") && w.size+int64(len(p)) >= writerDataLen {
		w.failed = true
		return 0, w.err
	}
	w.size += int64(len(p))
	return len(p), nil
}
func (w *failWriter) Close() error {
	if w.stage == "close" {
		return w.err
	}
	if w.stage == "write+close" && w.failed {
		// the upload is in a bad state after the failed write: closing it fails too, with
		// another error - the one that matters is the first
		return errAfterFailedWrite
	}
	return nil
}

var errAfterFailedWrite = ociregistry.NewError("the upload is in a bad state", ociregistry.ErrBlobUploadInvalid.Code(), nil)

func (w *failWriter) Size() int64    { return w.size }
func (w *failWriter) ChunkSize() int { return 0 }
func (w *failWriter) ID() string     { return "upload-1" }
func (w *failWriter) Cancel() error  { return nil }
func (w *failWriter) Commit(dg ociregistry.Digest) (ociregistry.Descriptor, error) {
	if w.stage == "commit" || w.stage == "close" {
		return ociregistry.Descriptor{}, w.err
	}
	return ociregistry.Descriptor{Digest: dg, Size: w.size, MediaType: "application/octet-stream"}, nil
}

type observed struct {
	err      error
	statuses []int // status seen at each hop (hop 0 = nearest the backend)
	message  string
	code     string
	detail   json.RawMessage
	hasWire  bool
}

// through sends the scripted error through n hops.
func through(s Script, n int) (observed, error) {
	before := s.build()
	var reg ociregistry.Interface = &ociregistry.Funcs{NewError: func(ctx context.Context, method, repo string) error { return before }}
	if strings.HasSuffix(s.Carrier, "@mid-page") {
		// a listing that fails after it has produced the first item of a page
		mid := func(yield func(string, error) bool) {
			if yield("t1", nil) {
				yield("", before)
			}
		}
		reg = &ociregistry.Funcs{
			Tags_:         func(ctx context.Context, repo, startAfter string) ociregistry.Seq[string] { return mid },
			Repositories_: func(ctx context.Context, startAfter string) ociregistry.Seq[string] { return mid },
		}
	} else if strings.HasSuffix(s.Carrier, "@later-page") {
		// a listing whose first page is fine and that fails when it is asked to go on
		items := ociregistry.SliceSeq([]string{"t1", "t2", "t3"})
		later := func(startAfter string) ociregistry.Seq[string] {
			if startAfter == "" {
				return items
			}
			return ociregistry.ErrorSeq[string](before)
		}
		reg = &ociregistry.Funcs{
			Tags_:         func(ctx context.Context, repo, startAfter string) ociregistry.Seq[string] { return later(startAfter) },
			Repositories_: func(ctx context.Context, startAfter string) ociregistry.Seq[string] { return later(startAfter) },
		}
	} else if s.Carrier == "GetBlobRange@only" {
		// a registry whose GetBlobRange, and nothing but that, fails: the blob itself is there
		m := ocimem.New()
		m.PushBlob(context.Background(), "foo", ociregistry.Descriptor{MediaType: "application/octet-stream", Digest: digest.FromBytes([]byte("x")), Size: 1}, strings.NewReader("x"))
		reg = &rangeFails{Interface: m, err: before}
	} else if s.Carrier == "GetTag@third-request" {
		// a tagged manifest above the client's in-memory threshold on a server that leaves the digest out
		// of tag answers: the client asks three times, and the registry fails the last one (the GET by digest)
		m := ocimem.New()
		if _, err := m.PushManifest(context.Background(), "foo", "big", append([]byte(`{"big":"`), append(bytes.Repeat([]byte("m"), 200<<10), '"', '}')...), "application/vnd.verif.opaque+json"); err != nil {
			return observed{}, err
		}
		reg = &manifestFails{Interface: m, err: before}
	} else if s.Carrier == "MountBlob@only" {
		// a registry on which the mount, and nothing but the mount, fails
		reg = &mountFails{Interface: ocimem.New(), err: before}
	} else if _, stage, ok := strings.Cut(s.Carrier, "@"); ok {
		fw := &failWriter{stage: stage, err: before}
		reg = &ociregistry.Funcs{
			PushBlobChunked_: func(ctx context.Context, repo string, chunkSize int) (ociregistry.BlobWriter, error) {
				return fw, nil
			},
			PushBlobChunkedResume_: func(ctx context.Context, repo, id string, offset int64, chunkSize int) (ociregistry.BlobWriter, error) {
				return fw, nil
			},
		}
	}
	var taps []*statusTap
	var closers []func()
	defer func() {
		for _, c := range closers {
			c()
		}
	}()
	for i := 0; i < n; i++ {
		var opts *ociserver.Options
		if i == 0 && s.Carrier == "GetTag@third-request" {
			opts = &ociserver.Options{OmitDigestFromTagGetResponse: true}
		}
		var handler http.Handler = ociserver.New(reg, opts)
		if s.AuthHop {
			handler = challenging{handler}
		}
		if s.CTParam {
			handler = charsetting{handler}
		}
		srv := memnet.NewServer(handler)
		tr := srv.Transport()
		tap := &statusTap{rt: tr}
		taps = append(taps, tap)
		closers = append(closers, func() { tr.CloseIdleConnections(); srv.Close() })
		var clientTransport http.RoundTripper = tap
		if s.AuthHop {
			clientTransport = ociauth.NewStdTransport(ociauth.StdTransportParams{Config: noCredentials{}, Transport: tap})
		}
		c, err := ociclient.New(srv.Host, &ociclient.Options{Insecure: true, Transport: clientTransport, ListPageSize: 2})
		if err != nil {
			return observed{}, err
		}
		reg = c
	}
	o := observed{err: call(reg, s.Carrier, n)}
	for _, t := range taps {
		st := 0
		for _, x := range t.statuses {
			if x >= 400 {
				// the first failure is the one that carries the error (a writer that has
				// failed may still be closed afterwards, which can cost a further request)
				st = x
				break
			}
		}
		o.statuses = append(o.statuses, st)
	}
	var we *ociregistry.WireErrors
	if errors.As(o.err, &we) && len(we.Errors) > 0 {
		o.hasWire = true
		o.message, o.code, o.detail = we.Errors[0].Message, we.Errors[0].Code_, we.Errors[0].Detail_
	}
	return o, nil
}

func jsonEqual(a, b []byte) bool {
	if len(a) == 0 || len(b) == 0 {
		return len(a) == len(b)
	}
	// numbers are compared as written (not through float64, which cannot hold every JSON number)
	dec := func(data []byte) (any, error) {
		d := json.NewDecoder(bytes.NewReader(data))
		d.UseNumber()
		var x any
		err := d.Decode(&x)
		return x, err
	}
	x, err1 := dec(a)
	y, err2 := dec(b)
	if err1 != nil || err2 != nil {
		return false
	}
	return reflect.DeepEqual(x, y)
}

func run(s Script, v *vt.V) {
	before := s.build()
	// what the wire must carry
	wantCode := s.Code
	if wantCode == "" {
		wantCode = "UNKNOWN"
	}
	wantStatus, inTable := specStatus[wantCode]
	if !inTable {
		wantStatus = 500
		for i := len(s.Wraps) - 1; i >= 0; i-- { // the outermost HTTP-status wrapper is the error's own status
			if strings.HasPrefix(s.Wraps[i], "h") {
				fmt.Sscanf(s.Wraps[i][1:], "%d", &wantStatus)
				break
			}
		}
	}
	var first observed
	for h := 1; h <= s.Hops; h++ {
		o, err := through(s, h)
		if err != nil {
			v.Failf("harness", "%v", err)
			return
		}
		desc := fmt.Sprintf("error %q (code %q, detail %s, wraps %v) carried by %s over %d hop(s)", s.Message, s.Code, s.Detail, s.Wraps, s.Carrier, h)
		if o.err == nil {
			v.Failf("error-lost", "%s: the call succeeded", desc)
			return
		}
		for hi, st := range o.statuses {
			if st != wantStatus {
				v.Failf("wrong-status", "%s: hop %d answered status %d, want %d (statuses per hop %v, final error: %v)", desc, hi, st, wantStatus, o.statuses, o.err)
				return
			}
		}
		if isHead(s.Carrier) {
			// body-less: identity is the documented status mapping
			var want ociregistry.Error
			switch wantStatus {
			case 404:
				want = ociregistry.ErrNameUnknown
			case 401:
				want = ociregistry.ErrUnauthorized
			case 403:
				want = ociregistry.ErrDenied
			case 429:
				want = ociregistry.ErrTooManyRequests
			case 400:
				want = ociregistry.ErrUnsupported
			}
			for _, std := range standard {
				if std == ociregistry.ErrRangeInvalid {
					continue
				}
				is := errors.Is(o.err, std)
				if is != (want != nil && std.Code() == want.Code()) {
					v.Failf("head-identity", "%s (HEAD, status %d): errors.Is(err, %s) = %v", desc, wantStatus, std.Code(), is)
					return
				}
			}
			var he ociregistry.HTTPError
			if !errors.As(o.err, &he) || he.StatusCode() != wantStatus {
				v.Failf("head-identity", "%s: final error does not carry status %d: %v", desc, wantStatus, o.err)
				return
			}
			continue
		}
		for _, std := range standard {
			b, a := errors.Is(before, std), errors.Is(o.err, std)
			if std == ociregistry.ErrRangeInvalid {
				// status-based by documentation: a RANGE_INVALID code must survive;
				// a positive answer afterwards needs the code or the 416 status
				if s.Code == "RANGE_INVALID" && !a {
					v.Failf("identity-lost", "%s: errors.Is(err, ErrRangeInvalid) lost", desc)
					return
				}
				if a && s.Code != "RANGE_INVALID" && wantStatus != 416 {
					v.Failf("identity-invented", "%s: errors.Is(err, ErrRangeInvalid) became true", desc)
					return
				}
				continue
			}
			if a != b {
				v.Failf("identity-changed", "%s: errors.Is(err, %s) was %v on the original error and is %v after the wire", desc, std.Code(), b, a)
				return
			}
		}
		if !o.hasWire {
			v.Failf("no-wire-error", "%s: the client's error carries no OCI error body: %v", desc, o.err)
			return
		}
		if o.code != wantCode {
			v.Failf("code-changed", "%s: code on the wire %q, want %q", desc, o.code, wantCode)
			return
		}
		if (s.Code != "" || s.EmptyCodeError) && !jsonEqual(o.detail, []byte(s.Detail)) {
			v.Failf("detail-changed", "%s: detail %s, want %s", desc, o.detail, s.Detail)
			return
		}
		if h == 1 {
			first = o
		} else if o.message != first.message {
			v.Failf("message-accumulates", "%s: message after %d hops %q, after 1 hop %q", desc, h, o.message, first.message)
			return
		}
	}
	v.Class("carrier:%s", s.Carrier)
	v.Class("hops=%d", s.Hops)
	codeClass := "standard"
	if s.Code == "" {
		codeClass = "none"
	} else if !inTable {
		codeClass = "custom"
	}
	msgClass := "plain"
	switch {
	case len(s.Message) > 8000:
		msgClass = "limit-sized"
	case s.Message == "":
		msgClass = "empty"
	case strings.Contains(s.Message, ": "):
		msgClass = "prefix-like"
	}
	v.Class("code-%s/msg-%s/wraps=%d", codeClass, msgClass, len(s.Wraps))
	if s.Hops >= 2 || len(s.Wraps) > 0 || msgClass == "prefix-like" {
		v.NonTrivial(fmt.Sprintf("%s|%v|%s|%s|%d|%d", s.Code, s.Wraps, msgClass, s.Carrier, s.Hops, wantStatus))
	}
}

func genScript(t *rapid.T) Script {
	var s Script
	switch rapid.IntRange(0, 9).Draw(t, "codeKind") {
	case 0:
		s.Code = ""
	case 1, 2:
		s.Code = rapid.SampledFrom([]string{"CUSTOM", "X", "MY_OWN_CODE_123", "UNKNOWN", "NOT_IN_SPEC", "blob_unknown", "A_B"}).Draw(t, "custom")
	default:
		s.Code = rapid.SampledFrom(standard).Draw(t, "std").Code()
	}
	status := func(label string) int {
		if rapid.Bool().Draw(t, label+"Odd") {
			return rapid.SampledFrom([]int{419, 430, 452, 499, 512, 520, 599, 418, 451}).Draw(t, label)
		}
		return rapid.SampledFrom([]int{400, 401, 403, 404, 405, 409, 416, 429, 500, 502, 503}).Draw(t, label)
	}
	for n := rapid.IntRange(0, 3).Draw(t, "nwraps"); n > 0; n-- {
		if rapid.Bool().Draw(t, "httpWrap") {
			s.Wraps = append(s.Wraps, fmt.Sprintf("h%d", status("status")))
		} else {
			s.Wraps = append(s.Wraps, "w")
		}
	}
	code := s.Code
	if code == "" {
		code = "UNKNOWN"
	}
	rendered := strings.ToLower(strings.ReplaceAll(code, "_", " "))
	st := status("msgStatus")
	statusPrefix := fmt.Sprintf("%d %s", st, http.StatusText(st))
	switch rapid.IntRange(0, 8).Draw(t, "msgKind") {
	case 0:
		s.Message = ""
	case 1:
		s.Message = rapid.StringN(1, 40, 200).Draw(t, "randomMsg")
	case 2:
		s.Message = rendered + ": something went wrong"
	case 3:
		s.Message = statusPrefix + ": something went wrong"
	case 4:
		s.Message = statusPrefix + ": " + rendered + ": nested prefixes"
	case 5:
		s.Message = rendered + ": " + rendered + ": stutter"
	case 6:
		s.Message = "a: b: c"
	case 7:
		s.Message = fmt.Sprintf("%d : odd spacing", st)
	default:
		s.Message = "plain message"
	}
	if s.Code == "" && rapid.Bool().Draw(t, "emptyCodeError") {
		s.EmptyCodeError = true
	}
	if (s.Code != "" || s.EmptyCodeError) && rapid.IntRange(0, 2).Draw(t, "hasDetail") == 0 {
		s.Detail = rapid.SampledFrom([]string{`{"a":1}`, `[1,2,{"b":null}]`, `"text"`, `42`, `{"nested":{"k":["v",true]},"u":"é"}`, `null`, `{ "spaced" : [ 1 , 2 ] }`, `""`,
			`9007199254740993`, `{"n":12345678901234567890,"d":0.1000000000000000055511151231257827}`, `1e400`, `[-0.0,1E2,100]`}).Draw(t, "detail")
	}
	if rapid.IntRange(0, 11).Draw(t, "limitSized") == 0 {
		// an error body of exactly (or one less than) the client's documented 8 KiB limit
		// (a bare error: wrappers and the "(no code)" rendering would add to the message)
		s.Wraps, s.EmptyCodeError = nil, false
		if s.Code == "" {
			s.Detail = ""
		}
		wireCode := s.Code
		if wireCode == "" {
			wireCode = "UNKNOWN"
		}
		overhead := len(`{"errors":[{"code":"","message":""}]}`) + len(wireCode)
		if s.Detail != "" {
			var buf bytes.Buffer
			json.Compact(&buf, []byte(s.Detail))
			overhead += len(`,"detail":`) + buf.Len()
		}
		s.Message = strings.Repeat("m", 8192-overhead-rapid.IntRange(0, 1).Draw(t, "underLimit"))
	}
	s.Carrier = rapid.SampledFrom(carriers).Draw(t, "carrier")
	if strings.Contains(s.Carrier, "@") && len(s.Message) > 4096 {
		// the server puts a context text in front of what a backend writer reports: a message
		// sized to fill the client's limit exactly would no longer fit
		s.Message = s.Message[:4096]
	}
	s.Hops = rapid.SampledFrom([]int{1, 2, 2, 3}).Draw(t, "hops")
	s.AuthHop = rapid.IntRange(0, 3).Draw(t, "authHop") == 0
	s.CTParam = rapid.IntRange(0, 3).Draw(t, "ctParam") == 0
	return s
}

var prop = &vt.Prop[Script]{
	ID:   "C07",
	Name: "ErrorsAcrossTheWire",
	Rule: "error values: each of the 15 standard codes, custom codes, no code; optional JSON detail (objects, arrays, scalars, null, spaced, numbers that float64 cannot hold); messages {empty, random UTF-8, beginning with the rendered code, with a status line, with both, stuttering, odd spacing}; 0-3 wrappers from {fmt %w, NewHTTPError(status)} with statuses 400-599 incl. ones without a reason phrase (419, 452, 499, 512, 599); carrier = each of the 18 Interface methods (GET, HEAD, POST, PUT, DELETE and list-based) and errors raised by the backend's BlobWriter at Write, Close or Commit (and at Write followed by a different failure of the Close that comes after it) (reached through a chunked writer and through PushBlob), a MountBlob / a GetBlobRange that fails on a registry where everything else works, the GET by digest that a GetTag ends in when the server leaves the digest out of the tag answer and the manifest is above 128 KiB, and tag / repository listings that fail when the second page is asked for or after the first item of a page; sent through 1..3 real server->client hops (a quarter of the time every client goes through ociauth's standard transport without credentials and every registry puts a Basic challenge on its 401 answers; a quarter of the time a front end declares the JSON answers as application/json; charset=utf-8), and for every hop count h <= hops; oracle = errors.Is against every standard value unchanged (HEAD carriers: the documented status mapping; ErrRangeInvalid status-based as documented), status on every hop = the specification's for the code, else the error's own HTTP status, else 500, code and detail JSON-equal, message after h hops == message after one hop; non-trivial = >= 2 hops, a wrapper, or a prefix-like message; distinct = (code, wraps, message class, carrier, hops, status)",
	Gen:  genScript,
	Run:  run,
}

func TestPropErrors(t *testing.T) { vt.Check(t, prop) }

// TestPropAllCodesAllCarriers enumerates the grid no sampling should miss.
var propGrid = &vt.Prop[Script]{
	ID:   "C07",
	Name: "ErrorGrid",
	Rule: "complete grid: 15 standard codes + custom + none x 31 carriers x {bare, NewHTTPError(452) wrapper} over 2 hops",
	Run:  run,
}

func TestPropGrid(t *testing.T) {
	shard, shards := vt.Shard()
	vt.Enumerate(t, propGrid, true, func(yield func(Script) bool) {
		k := 0
		codes := []string{"", "CUSTOM"}
		for _, e := range standard {
			codes = append(codes, e.Code())
		}
		for _, code := range codes {
			for _, c := range carriers {
				for _, wraps := range [][]string{nil, {"h452"}} {
					k++
					if k%shards != shard {
						continue
					}
					if !yield(Script{Code: code, Message: "grid", Carrier: c, Hops: 2, Wraps: wraps, AuthHop: code == "UNAUTHORIZED" && len(wraps) == 0}) {
						return
					}
				}
			}
		}
	})
}

func TestReplay(t *testing.T) {
	vt.Register(prop)
	vt.Register(propGrid)
	vt.Replay(t)
}
