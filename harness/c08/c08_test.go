// Package c08 decides property C08: the in-memory registry is race-free and
// linearizable under concurrent use. The package is built with -race; any
// race report fails the run (the driver scans for it). Histories are checked
// with porcupine against the sequential reference model.
package c08

import (
	"bytes"
	"context"
	"crypto/sha256"
	"errors"
	"fmt"
	"io"
	"net/http/httptest"
	"regexp"
	"runtime"
	"strings"
	"sync"
	"sync/atomic"
	"testing"
	"time"

	"cuelabs.dev/go/oci/ociregistry"
	"cuelabs.dev/go/oci/ociregistry/ociclient"
	"cuelabs.dev/go/oci/ociregistry/ocimem"
	"cuelabs.dev/go/oci/ociregistry/ociserver"
	"github.com/anishathalye/porcupine"
	"github.com/opencontainers/go-digest"
	"pgregory.net/rapid"

	"verif/harness/internal/hist"
	"verif/harness/internal/memnet"
	"verif/harness/internal/model"
	"verif/harness/internal/ops"
	"verif/harness/vt"
)

func TestMain(m *testing.M) { vt.Main(m) }

// Workload: one universe, one op list per goroutine.
type Workload struct {
	Immutable bool         `json:"immutable,omitempty"`
	U         ops.Universe `json:"universe"`
	Threads   [][]ops.Op   `json:"threads"`
	HTTP      bool         `json:"http,omitempty"`
	// Recorded is filled in when a failing history is saved (replay re-checks it deterministically).
	Recorded []Event `json:"recorded,omitempty"`
}

type Event struct {
	Client int     `json:"client"`
	Op     ops.Op  `json:"op"`
	Out    ops.Out `json:"out"`
	Data   []byte  `json:"data,omitempty"`
	Call   int64   `json:"call"`
	Return int64   `json:"return"`
}

type input struct {
	op ops.Op
}

func porcupineModel(u *ops.Universe, immutable bool) porcupine.Model {
	return porcupine.Model{
		Init: func() interface{} { return model.New(immutable) },
		Step: func(state, in, out interface{}) (bool, interface{}) {
			m := state.(*model.Model).Clone()
			why := m.Step(u, in.(ops.Op), out.(ops.Out))
			return why == "", m
		},
		Equal: func(a, b interface{}) bool { return a.(*model.Model).Key() == b.(*model.Model).Key() },
		DescribeOperation: func(in, out interface{}) string {
			o := out.(ops.Out)
			return fmt.Sprintf("%+v -> err=%q desc=%v %dB list=%v id=%q n=%d size=%d", in.(ops.Op), o.Err, o.Desc, len(o.Data), o.List, o.ID, o.N, o.WSize)
		},
	}
}

func execute(wl Workload) ([]Event, error) {
	u := &wl.U
	mem := ocimem.NewWithConfig(&ocimem.Config{ImmutableTags: wl.Immutable})
	var regs []ociregistry.Interface
	if wl.HTTP {
		srv := memnet.NewServer(ociserver.New(mem, nil))
		defer srv.Close()
		for range wl.Threads {
			c, err := ociclient.New(srv.Host, &ociclient.Options{Insecure: true, Transport: srv.Transport()})
			if err != nil {
				return nil, err
			}
			regs = append(regs, c)
		}
	} else {
		for range wl.Threads {
			regs = append(regs, mem)
		}
	}
	var mu sync.Mutex
	var events []Event
	var wg sync.WaitGroup
	start := make(chan struct{})
	t0 := time.Now()
	for g, thread := range wl.Threads {
		wg.Add(1)
		go func(g int, thread []ops.Op) {
			defer wg.Done()
			// each goroutine has its own copy of the universe caches (they are filled lazily)
			env := ops.NewEnv(wl.U.Copy(), regs[g])
			defer env.CloseAll()
			<-start
			for _, op := range thread {
				call := time.Since(t0).Nanoseconds()
				out := env.Exec(op)
				ret := time.Since(t0).Nanoseconds()
				if out.Skipped {
					continue
				}
				out.Err0 = nil
				mu.Lock()
				events = append(events, Event{Client: g, Op: op, Out: out, Data: out.Data, Call: call, Return: ret})
				mu.Unlock()
			}
		}(g, thread)
	}
	_ = u
	close(start)
	wg.Wait()
	return events, nil
}

func checkHistory(wl Workload, events []Event) (porcupine.CheckResult, string) {
	u := &wl.U
	var pops []porcupine.Operation
	for _, e := range events {
		out := e.Out
		out.Data = e.Data
		pops = append(pops, porcupine.Operation{ClientId: e.Client, Input: e.Op, Call: e.Call, Output: out, Return: e.Return})
	}
	res, _ := porcupine.CheckOperationsVerbose(porcupineModel(u, wl.Immutable), pops, 4*time.Second)
	// content invariant, independent of the model
	for _, e := range events {
		if (e.Op.K == "getBlob" || e.Op.K == "getManifest" || e.Op.K == "getTag") && e.Out.Err == "" {
			if got := fmt.Sprintf("sha256:%x", sha256.Sum256(e.Data)); got != e.Out.Desc.Digest {
				return porcupine.Illegal, fmt.Sprintf("%+v returned %d bytes whose digest %s is not the descriptor's %s", e.Op, len(e.Data), got, e.Out.Desc.Digest)
			}
		}
	}
	return res, ""
}

var inconclusive int64

// A registry that deadlocks never returns: every concurrent execution runs
// under a watchdog, and a hang is reported with the goroutine dump. Once one
// case has hung, its goroutines are still there, so later cases of this
// process are skipped.
var hangSeen atomic.Bool

const hangAfter = 90 * time.Second

// A deadlock is told from slowness by what the goroutines are doing when the time is up: in a deadlock
// every goroutine (but the watchdog's own) is parked; while one of them is running or runnable the case is
// merely slow - a loaded machine - and gets more time, up to slowAfter, after which it is given up as
// inconclusive (never as a violation: a time budget is not an oracle).
const slowAfter = 15 * time.Minute

var goroutineHeader = regexp.MustCompile(`(?m)^goroutine \d+ \[([a-zA-Z .]+)`)

func busy(dump string) bool {
	n := 0
	for _, m := range goroutineHeader.FindAllStringSubmatch(dump, -1) {
		if st := m[1]; st == "running" || st == "runnable" || st == "syscall" || st == "sleep" {
			n++
		}
	}
	return n > 1 // the goroutine that takes the dump is running
}

func watchdog(f func()) (hung bool, dump string) {
	done := make(chan struct{})
	go func() { defer close(done); f() }()
	start := time.Now()
	for {
		select {
		case <-done:
			return false, ""
		case <-time.After(hangAfter):
		}
		buf := make([]byte, 1<<22)
		dump = string(buf[:runtime.Stack(buf, true)])
		if busy(dump) && time.Since(start) < slowAfter {
			continue
		}
		if busy(dump) {
			dump = "SLOW\n" + dump
		} else {
			// parked all of them: look once more a little later, to be sure
			select {
			case <-done:
				return false, ""
			case <-time.After(3 * time.Second):
			}
			dump = string(buf[:runtime.Stack(buf, true)])
			if busy(dump) && time.Since(start) < slowAfter {
				continue
			}
		}
		hangSeen.Store(true)
		return true, dump
	}
}

func runWorkload(wl Workload, v *vt.V) {
	events := wl.Recorded
	if len(events) == 0 {
		if hangSeen.Load() {
			return
		}
		var err error
		hung, dump := watchdog(func() { events, err = execute(wl) })
		if hung {
			if strings.HasPrefix(dump, "SLOW\n") {
				v.Failf("harness", "%d goroutines: the workload was still running after %v (a loaded machine?): given up", len(wl.Threads), slowAfter)
				return
			}
			v.Failf("hang", "%d goroutines: the workload did not finish within %v and every goroutine is parked (deadlock); goroutines:\n%.6000s", len(wl.Threads), hangAfter, dump)
			vt.SaveFailureNow(propWorkload, wl, v)
			return
		}
		if err != nil {
			v.Failf("harness", "%v", err)
			return
		}
	}
	shared := 0
	keys := map[string]map[int]bool{}
	for _, e := range events {
		k := fmt.Sprintf("%s/%d/%d/%d/%d", e.Op.K[:3], e.Op.R, e.Op.B, e.Op.M, e.Op.T)
		if keys[k] == nil {
			keys[k] = map[int]bool{}
		}
		keys[k][e.Client] = true
	}
	for _, cs := range keys {
		if len(cs) > 1 {
			shared++
		}
	}
	mode := "direct"
	if wl.HTTP {
		mode = "http"
	}
	v.Class("%s/threads=%d", mode, len(wl.Threads))
	if wl.HTTP {
		// over HTTP only the content invariant and the race detector are in force
		for _, e := range events {
			if (e.Op.K == "getBlob" || e.Op.K == "getManifest" || e.Op.K == "getTag") && e.Out.Err == "" && e.Out.ReadErr == "" {
				if got := fmt.Sprintf("sha256:%x", sha256.Sum256(e.Data)); got != e.Out.Desc.Digest {
					v.Failf("content-mismatch", "over HTTP %+v returned %d bytes whose digest %s is not the descriptor's %s", e.Op, len(e.Data), got, e.Out.Desc.Digest)
					return
				}
			}
		}
		if shared > 0 {
			v.NonTrivial(fmt.Sprintf("http|%d|%d", len(wl.Threads), len(events)))
		}
		return
	}
	res, why := checkHistory(wl, events)
	switch res {
	case porcupine.Illegal:
		wl.Recorded = events
		v.Note(wl)
		if why == "" {
			why = "no sequential order of the overlapping calls explains the results (history is not linearizable)"
		}
		v.Failf("not-linearizable", "%d goroutines, %d calls: %s", len(wl.Threads), len(events), why)
		// keep the history: executions are not reproducible
		vt.SaveFailureNow(propWorkload, wl, v)
		return
	case porcupine.Unknown:
		atomic.AddInt64(&inconclusive, 1)
		vt.Count("linearizability-check-timeouts", 1)
	}
	if shared > 0 {
		v.NonTrivial(fmt.Sprintf("%d|%d|%v", len(wl.Threads), len(events), firstKinds(events)))
	}
}

func firstKinds(ev []Event) string {
	var b strings.Builder
	for i, e := range ev {
		if i > 40 {
			break
		}
		b.WriteString(e.Op.K[:3])
	}
	return b.String()
}

func genWorkload(t *rapid.T) Workload {
	cfg := hist.Config{MaxOps: 90, ValidRepos: 2, Uploads: true, Mismatch: true, BadManifests: false, Retype: true,
		Deletes: true, Lists: true, UnknownResumeID: true, MaxSmall: 12, RepoPool: []string{"foo", "bar"}, Attach: true}
	h := hist.Gen(cfg)(t)
	// shrink the key space: fewer blobs / manifests / tags are shared more
	wl := Workload{Immutable: h.Immutable, U: h.U}
	g := rapid.SampledFrom([]int{2, 3, 4, 4, 6, 8, 8, 12, 16}).Draw(t, "goroutines")
	wl.Threads = make([][]ops.Op, g)
	for i, op := range h.Ops {
		th := i % g
		op.B %= 4
		op.M %= 3
		if op.T >= 2 {
			op.T = op.T % 2
		}
		op.W = th*10 + op.W
		if op.K == "upAttach" {
			op.O1 += int64(th * 10)
		}
		if op.K == "upResume" && op.Mode == 3 {
			op.S = rapid.SampledFrom([]string{"shared-1", "shared-2"}).Draw(t, "sharedID")
		}
		wl.Threads[th] = append(wl.Threads[th], op)
	}
	wl.HTTP = rapid.IntRange(0, 5).Draw(t, "http") == 0
	return wl
}

var propWorkload *vt.Prop[Workload]

func init() {
	propWorkload = &vt.Prop[Workload]{
		ID:   "C08",
		Name: "ConcurrentWorkloads",
		Rule: "generated workloads: 2-16 goroutines share one ocimem (or one ociserver over it, each goroutine with its own client) and issue pushes, chunked writes / resumes / commits on upload sessions shared by id, mounts, tag moves, deletes, reads and listings over 2 repositories, 4 blobs, 3 manifests, 2 tags; built with -race (any race report fails the run); every call is recorded with invocation / response times and the history is checked for linearizability with porcupine against the sequential reference model (direct runs), and every successful read must return bytes whose sha256 is the descriptor's digest (all runs); non-trivial = at least two goroutines touched the same key; distinct = (goroutines, calls, op-kind prefix); executions are scheduler-dependent: a failing history is saved verbatim",
		Gen:  genWorkload,
		Run:  runWorkload,
	}
}

func TestPropWorkloads(t *testing.T) { vt.Check(t, propWorkload) }

// ---- directed families for the known two-step operations ----

type Directed struct {
	Family string `json:"family"`
	Iters  int    `json:"iters"`
	Size   int    `json:"size"`
}

var ctx = context.Background()

func runDirected(d Directed, v *vt.V) {
	if hangSeen.Load() {
		return
	}
	hung, dump := watchdog(func() { runDirected1(d, v) })
	if hung {
		if strings.HasPrefix(dump, "SLOW\n") {
			v.Failf("harness", "family %s was still running after %v (a loaded machine?): given up", d.Family, slowAfter)
			return
		}
		v.Failf("hang", "family %s did not finish within %v and every goroutine is parked (deadlock); goroutines:\n%.6000s", d.Family, hangAfter, dump)
		vt.SaveFailureNow(propDirected, d, v)
	}
}

func runDirected1(d Directed, v *vt.V) {
	switch d.Family {
	case "tag-flip":
		// a tag that at every instant points at an existing manifest is never reported missing
		mem := ocimem.New()
		const mt = "application/vnd.verif.opaque"
		a, b := []byte(`{"m":"a"}`), []byte(`{"m":"b"}`)
		da, db := digest.FromBytes(a), digest.FromBytes(b)
		if _, err := mem.PushManifest(ctx, "foo", "t", a, mt); err != nil {
			v.Failf("harness", "%v", err)
			return
		}
		var stop atomic.Bool
		var bad atomic.Value
		var wg sync.WaitGroup
		for r := 0; r < 4; r++ {
			wg.Add(1)
			go func() {
				defer wg.Done()
				for !stop.Load() {
					rd, err := mem.GetTag(ctx, "foo", "t")
					if err != nil {
						bad.Store(fmt.Sprintf("GetTag failed: %v", err))
						return
					}
					data, _ := io.ReadAll(rd)
					rd.Close()
					if !bytes.Equal(data, a) && !bytes.Equal(data, b) {
						bad.Store("GetTag returned foreign bytes")
						return
					}
				}
			}()
		}
		for i := 0; i < d.Iters && bad.Load() == nil; i++ {
			mem.PushManifest(ctx, "foo", "t", b, mt)
			mem.DeleteManifest(ctx, "foo", da)
			mem.PushManifest(ctx, "foo", "t", a, mt)
			mem.DeleteManifest(ctx, "foo", db)
		}
		stop.Store(true)
		wg.Wait()
		if x := bad.Load(); x != nil {
			v.Failf("tag-reported-missing", "tag moved between two manifests, the old one deleted each time, %d iterations, 4 readers: %v", d.Iters, x)
			return
		}
	case "commit-vs-write", "commit-vs-cancel", "resume-vs-write", "commit-vs-wrong-commit", "commit-vs-write-commit":
		mem := ocimem.New()
		x := bytes.Repeat([]byte("x"), d.Size)
		y := []byte("YYYY")
		dx := digest.FromBytes(x)
		for i := 0; i < d.Iters; i++ {
			repo := "foo"
			w, err := mem.PushBlobChunked(ctx, repo, 0)
			if err != nil {
				v.Failf("harness", "%v", err)
				return
			}
			w.Write(x)
			id := w.ID()
			mem.DeleteBlob(ctx, repo, dx)
			var wg sync.WaitGroup
			var commitErr, otherErr error
			var desc ociregistry.Descriptor
			secondCommitted := false
			wg.Add(2)
			go func() {
				defer wg.Done()
				w1, err := mem.PushBlobChunkedResume(ctx, repo, id, -1, 0)
				if err != nil {
					commitErr = err
					return
				}
				desc, commitErr = w1.Commit(dx)
			}()
			go func() {
				defer wg.Done()
				w2, err := mem.PushBlobChunkedResume(ctx, repo, id, -1, 0)
				if err != nil {
					otherErr = err
					return
				}
				switch d.Family {
				case "commit-vs-cancel":
					otherErr = w2.Cancel()
				case "commit-vs-wrong-commit":
					_, otherErr = w2.Commit(digest.FromBytes([]byte("something else")))
				case "commit-vs-write-commit":
					if _, otherErr = w2.Write(y); otherErr == nil {
						xy := append(append([]byte{}, x...), y...)
						if _, err2 := w2.Commit(digest.FromBytes(xy)); err2 == nil {
							// a second successful commit: its digest must hold X||Y
							rd, err := mem.GetBlob(ctx, repo, digest.FromBytes(xy))
							if err != nil {
								otherErr = fmt.Errorf("second commit reported success but its blob is missing: %v", err)
							} else {
								data, _ := io.ReadAll(rd)
								rd.Close()
								if !bytes.Equal(data, xy) {
									otherErr = fmt.Errorf("second commit stored %d bytes, want %d", len(data), len(xy))
								}
							}
							secondCommitted = true
						}
						mem.DeleteBlob(ctx, repo, digest.FromBytes(xy))
					}
				default:
					_, otherErr = w2.Write(y)
				}
			}()
			wg.Wait()
			if d.Family == "commit-vs-write-commit" && otherErr != nil && secondCommitted {
				v.Failf("committed-blob-missing", "%s, iteration %d: %v", d.Family, i, otherErr)
				return
			}
			rd, gerr := mem.GetBlob(ctx, repo, dx)
			if commitErr == nil {
				if gerr != nil {
					v.Failf("committed-blob-missing", "%s, iteration %d: Commit(%s) reported success (size %d) but the blob is not retrievable: %v", d.Family, i, dx, desc.Size, gerr)
					return
				}
				data, _ := io.ReadAll(rd)
				rd.Close()
				if !bytes.Equal(data, x) {
					v.Failf("committed-blob-corrupt", "%s, iteration %d: the blob stored under digest(X) holds %d bytes, X has %d", d.Family, i, len(data), len(x))
					return
				}
				if desc.Size != int64(len(x)) {
					v.Failf("committed-blob-corrupt", "%s, iteration %d: Commit returned size %d for %d bytes", d.Family, i, desc.Size, len(x))
					return
				}
			} else if gerr == nil {
				rd.Close()
				v.Failf("failed-commit-stored", "%s, iteration %d: Commit failed (%v) but the blob is retrievable", d.Family, i, commitErr)
				return
			}
			// nothing may be stored under an empty or foreign digest
			if rd2, err := mem.GetBlob(ctx, repo, ""); err == nil {
				rd2.Close()
				v.Failf("blob-under-empty-digest", "%s, iteration %d: a blob is retrievable under the empty digest", d.Family, i)
				return
			}
		}
	case "interleaved-chunks":
		interleavedChunks(d, v)
	case "concurrent-listings":
		concurrentListings(d, v)
	case "stalled-push":
		stalledPush(d, v)
	case "reentrant-listing":
		reentrantListing(d, v)
		if v.Failed() {
			return
		}
	case "write-during-commit":
		// a Write on a second handle that succeeds while a Commit on the first is in flight has
		// either been counted by the commit's digest check (the commit then fails) or comes after
		// the commit - in which case the committed blob is there for any read that starts after
		// the Write has returned. The window between the commit's check and its store is widened
		// with public operations only: a large session (the check takes a few ms and the Write
		// queues behind it) and a read of a large blob that keeps the registry busy meanwhile.
		mem := ocimem.New()
		hog := bytes.Repeat([]byte("h"), 64<<20)
		dhog := digest.FromBytes(hog)
		if _, err := mem.PushBlob(ctx, "foo", ociregistry.Descriptor{MediaType: "application/octet-stream", Digest: dhog, Size: int64(len(hog))}, bytes.NewReader(hog)); err != nil {
			v.Failf("harness", "%v", err)
			return
		}
		for i := 0; i < max(d.Iters/30, 8); i++ {
			x := bytes.Repeat([]byte{byte(i)}, 16<<20)
			copy(x, fmt.Sprintf("trial %d;", i))
			dx := digest.FromBytes(x)
			wa, err := mem.PushBlobChunked(ctx, "foo", 0)
			if err != nil {
				v.Failf("harness", "%v", err)
				return
			}
			wa.Write(x)
			wb, err := mem.PushBlobChunkedResume(ctx, "foo", wa.ID(), int64(len(x)), 0)
			if err != nil {
				v.Failf("harness", "%v", err)
				return
			}
			start := make(chan struct{})
			var writeDone, hogDone, commitDone atomic.Bool
			var missing atomic.Int32
			var commitErr, writeErr error
			var wg sync.WaitGroup
			const readers = 8
			wg.Add(3 + readers)
			go func() {
				defer wg.Done()
				<-start
				_, commitErr = wa.Commit(dx)
				commitDone.Store(true)
			}()
			go func() {
				defer wg.Done()
				<-start
				time.Sleep(500 * time.Microsecond) // the Commit gets going first; its check takes much longer than this
				if _, writeErr = wb.Write([]byte("y")); writeErr == nil {
					writeDone.Store(true)
				}
			}()
			go func() {
				defer wg.Done()
				<-start
				time.Sleep(time.Millisecond)
				if r, err := mem.GetBlob(ctx, "foo", dhog); err == nil {
					r.Close()
				}
				hogDone.Store(true)
			}()
			for r := 0; r < readers; r++ {
				go func() {
					defer wg.Done()
					<-start
					for !hogDone.Load() {
						runtime.Gosched()
					}
					// only a read that starts after the Write has returned counts
					if !writeDone.Load() || commitDone.Load() {
						return
					}
					if rd, err := mem.GetBlob(ctx, "foo", dx); err == nil {
						rd.Close()
					} else {
						missing.Add(1)
					}
				}()
			}
			close(start)
			wg.Wait()
			if commitErr == nil && writeErr == nil && missing.Load() > 0 {
				v.Failf("commit-not-atomic", "%s, iteration %d: Commit(digest of %d bytes) succeeded, so the Write of one more byte through a second handle - which also succeeded - came after it; yet %d read(s) of the committed blob that started after that Write had returned found it missing", d.Family, i, len(x), missing.Load())
				return
			}
			mem.DeleteBlob(ctx, "foo", dx)
		}
	case "same-offset-race":
		// several handles opened at the same (right) offset write at once: exactly one write is
		// accepted, the others are refused as range-invalid, and the session holds one chunk
		mem := ocimem.New()
		const writers = 4
		x := bytes.Repeat([]byte("x"), max(d.Size, 1))
		for i := 0; i < d.Iters; i++ {
			w0, err := mem.PushBlobChunked(ctx, "foo", 0)
			if err != nil {
				v.Failf("harness", "%v", err)
				return
			}
			id := w0.ID()
			var wg sync.WaitGroup
			var accepted, refused, other atomic.Int64
			start := make(chan struct{})
			for g := 0; g < writers; g++ {
				wg.Add(1)
				go func() {
					defer wg.Done()
					w, err := mem.PushBlobChunkedResume(ctx, "foo", id, 0, 0)
					if err != nil {
						other.Add(1)
						return
					}
					<-start
					switch _, err := w.Write(x); {
					case err == nil:
						accepted.Add(1)
					case errors.Is(err, ociregistry.ErrRangeInvalid):
						refused.Add(1)
					default:
						other.Add(1)
					}
				}()
			}
			close(start)
			wg.Wait()
			if accepted.Load() != 1 || refused.Load() != writers-1 || w0.Size() != int64(len(x)) {
				v.Failf("same-offset-writes-accepted", "%s, iteration %d: %d handles opened at offset 0 of an empty session wrote %d bytes each at once: %d accepted, %d refused as range-invalid, %d other errors; the session holds %d bytes (want 1 accepted, %d refused, %d bytes)", d.Family, i, writers, len(x), accepted.Load(), refused.Load(), other.Load(), w0.Size(), writers-1, len(x))
				return
			}
			w0.Cancel()
		}
	case "cancel-during-commit":
		// a Cancel through a second handle that returns nil while a Commit is in flight is either before
		// the commit (which then fails) or after it (the blob is there once the Cancel has returned)
		mem := ocimem.New()
		if _, err := mem.PushManifest(ctx, "other", "t", []byte(`{}`), "application/vnd.verif.opaque"); err != nil {
			v.Failf("harness", "%v", err)
			return
		}
		var stop atomic.Bool
		var bg sync.WaitGroup
		for g := 0; g < 8; g++ {
			bg.Add(1)
			go func() { // ordinary concurrent use of the registry
				defer bg.Done()
				for !stop.Load() {
					mem.ResolveTag(ctx, "other", "t")
				}
			}()
		}
		defer bg.Wait()
		defer stop.Store(true)
		for i := 0; i < d.Iters*10; i++ {
			content := append(bytes.Repeat([]byte("c"), max(d.Size, 1)), []byte(fmt.Sprint(i))...)
			dg := digest.FromBytes(content)
			wa, err := mem.PushBlobChunked(ctx, "foo", 0)
			if err != nil {
				v.Failf("harness", "%v", err)
				return
			}
			wa.Write(content)
			wb, err := mem.PushBlobChunkedResume(ctx, "foo", wa.ID(), -1, 0)
			if err != nil {
				v.Failf("harness", "%v", err)
				return
			}
			started := make(chan struct{})
			commitDone := make(chan error, 1)
			go func() {
				close(started)
				_, err := wa.Commit(dg)
				commitDone <- err
			}()
			<-started
			for j := 0; j < i%64; j++ {
				_ = digest.FromString("x") // vary the timing a little
			}
			cancelErr := wb.Cancel()
			_, resolveErr := mem.ResolveBlob(ctx, "foo", dg) // issued after the Cancel has returned
			commitErr := <-commitDone
			if cancelErr == nil && commitErr == nil && resolveErr != nil {
				v.Failf("commit-not-atomic", "%s, iteration %d: Commit(digest of %d bytes) succeeded, so the Cancel through a second handle, which returned nil while the commit was in flight, came after it; yet a ResolveBlob issued after that Cancel had returned answered %v", d.Family, i, len(content), resolveErr)
				return
			}
		}
	case "delete-vs-tagged-push":
		// immutable tags: a DeleteBlob of a layer nothing refers to yet, against the PushManifest of a
		// tagged image that refers to it. In either order one of them is refused; a registry that holds
		// many tagged manifests spends longer over the delete's walk
		var mem *ocimem.Registry
		const imageMT = "application/vnd.oci.image.manifest.v1+json"
		pushBlob := func(content string) ociregistry.Descriptor {
			desc := ociregistry.Descriptor{MediaType: "application/octet-stream", Digest: digest.FromString(content), Size: int64(len(content))}
			if _, err := mem.PushBlob(ctx, "foo", desc, strings.NewReader(content)); err != nil {
				v.Failf("harness", "%v", err)
			}
			return desc
		}
		image := func(config, layer ociregistry.Descriptor, note string) []byte {
			return []byte(fmt.Sprintf(`{"schemaVersion":2,"mediaType":%q,"config":{"mediaType":%q,"digest":%q,"size":%d},"layers":[{"mediaType":%q,"digest":%q,"size":%d}],"annotations":{"note":%q}}`,
				imageMT, config.MediaType, config.Digest, config.Size, layer.MediaType, layer.Digest, layer.Size, note))
		}
		old := 30
		if d.Size > 4 {
			old = 400
		}
		var config ociregistry.Descriptor
		for i := 0; i < d.Iters*30/old; i++ {
			if i%100 == 0 {
				// a new registry now and then: every successful push adds a tagged manifest for the deletes to walk
				mem = ocimem.NewWithConfig(&ocimem.Config{ImmutableTags: true})
				var base ociregistry.Descriptor
				config, base = pushBlob("{}"), pushBlob("base layer")
				for j := 0; j < old; j++ {
					if _, err := mem.PushManifest(ctx, "foo", fmt.Sprintf("old%d", j), image(config, base, fmt.Sprint("old", j)), imageMT); err != nil {
						v.Failf("harness", "%v", err)
						return
					}
				}
			}
			layer := pushBlob(fmt.Sprintf("layer %d", i))
			tag := fmt.Sprintf("new%d", i)
			man := image(config, layer, tag)
			var wg sync.WaitGroup
			var delErr, pushErr error
			wg.Add(2)
			go func() {
				defer wg.Done()
				delErr = mem.DeleteBlob(ctx, "foo", layer.Digest)
			}()
			go func() {
				defer wg.Done()
				for j := 0; j < (i%32)*(old/8); j++ {
					_ = digest.FromString("x") // vary the timing a little
				}
				_, pushErr = mem.PushManifest(ctx, "foo", tag, man, imageMT)
			}()
			wg.Wait()
			_, layerErr := mem.ResolveBlob(ctx, "foo", layer.Digest)
			if pushErr == nil && (delErr == nil || layerErr != nil) {
				v.Failf("delete-and-tagged-push-both-succeed", "%s, iteration %d (immutable tags, %d tagged manifests in the repository): PushManifest of a tagged image answered success and DeleteBlob of its layer answered %v at the same time; the layer now resolves with %v - no order of the two explains that", d.Family, i, old, delErr, layerErr)
				return
			}
			if pushErr != nil {
				if _, err := mem.ResolveTag(ctx, "foo", tag); err == nil {
					v.Failf("failed-push-left-tag", "%s, iteration %d: PushManifest failed (%v) and the tag resolves", d.Family, i, pushErr)
					return
				}
			}
		}
	case "resume-hint-vs-write":
		// further handles opened on a session (with a chunk-size hint, as ociserver passes the request's
		// content length) while another goroutine writes through the first handle: opening a handle
		// changes nothing, so every acknowledged write stays and Size never goes back
		mem := ocimem.New()
		for i := 0; i < max(d.Iters/40, 3); i++ {
			w0, err := mem.PushBlobChunked(ctx, "foo", 0)
			if err != nil {
				v.Failf("harness", "%v", err)
				return
			}
			chunk := bytes.Repeat([]byte{byte('a' + i%26)}, max(d.Size, 1))
			nwrites := 4000
			if d.Size > 4 {
				nwrites = 400
			}
			var stop atomic.Bool
			var wg sync.WaitGroup
			var bad atomic.Value
			for g := 0; g < 4; g++ {
				wg.Add(1)
				go func() {
					defer wg.Done()
					hint := []int{1, 4096, 4096, 1 << 16}[g]
					for !stop.Load() {
						if w, err := mem.PushBlobChunkedResume(ctx, "foo", w0.ID(), -1, hint); err == nil {
							w.Close()
						} else {
							bad.Store(fmt.Sprintf("PushBlobChunkedResume(offset -1, chunkSize %d) failed: %v", hint, err))
							return
						}
					}
				}()
			}
			var last int64
			for j := 0; j < nwrites && bad.Load() == nil; j++ {
				if _, err := w0.Write(chunk); err != nil {
					bad.Store(fmt.Sprintf("Write %d through the first handle failed: %v", j, err))
					break
				}
				if sz := w0.Size(); sz < last || sz != int64((j+1)*len(chunk)) {
					bad.Store(fmt.Sprintf("after %d acknowledged writes of %d bytes through the first handle Size() = %d (it was %d before)", j+1, len(chunk), sz, last))
					break
				} else {
					last = sz
				}
			}
			stop.Store(true)
			wg.Wait()
			if x := bad.Load(); x != nil {
				v.Failf("acknowledged-write-lost", "%s, iteration %d: one goroutine writes through a handle while another opens and closes further handles on the same session: %v", d.Family, i, x)
				return
			}
			all := bytes.Repeat(chunk, nwrites)
			if _, err := w0.Commit(digest.FromBytes(all)); err != nil {
				v.Failf("acknowledged-write-lost", "%s, iteration %d: %d writes of %d bytes were acknowledged while further handles were opened on the session; Commit(digest of all of them) answered %v", d.Family, i, nwrites, len(chunk), err)
				return
			}
		}
	case "patch-range-vs-append":
		// over HTTP: a PATCH of one chunk at offset 0 while another client keeps trying to append the next
		// chunk right behind it. The append is accepted only once the first chunk is there, so it comes
		// after the PATCH: the PATCH's answer tells what the session held when it was done - its own chunk
		mem := ocimem.New()
		srv := ociserver.New(mem, nil)
		chunk := bytes.Repeat([]byte("p"), max(d.Size, 1))
		for i := 0; i < d.Iters*4; i++ {
			rec := httptest.NewRecorder()
			srv.ServeHTTP(rec, httptest.NewRequest("POST", "/v2/foo/blobs/uploads/", nil))
			loc := rec.Header().Get("Location")
			if rec.Code != 202 || loc == "" {
				v.Failf("harness", "POST answered %d %s", rec.Code, rec.Body.String())
				return
			}
			var done atomic.Bool
			var wg sync.WaitGroup
			appended := false
			wg.Add(1)
			go func() {
				defer wg.Done()
				for !done.Load() && !appended {
					req := httptest.NewRequest("PATCH", loc, bytes.NewReader([]byte("q")))
					req.Header.Set("Content-Range", fmt.Sprintf("%d-%d", len(chunk), len(chunk)))
					r2 := httptest.NewRecorder()
					srv.ServeHTTP(r2, req)
					appended = r2.Code == 202
				}
			}()
			req := httptest.NewRequest("PATCH", loc, bytes.NewReader(chunk))
			req.Header.Set("Content-Range", fmt.Sprintf("0-%d", len(chunk)-1))
			r1 := httptest.NewRecorder()
			srv.ServeHTTP(r1, req)
			done.Store(true)
			wg.Wait()
			if want := fmt.Sprintf("0-%d", len(chunk)-1); r1.Code != 202 || r1.Header().Get("Range") != want {
				v.Failf("patch-answer-from-later-state", "%s, iteration %d: PATCH of %d bytes at offset 0 of a fresh upload answered %d with Range %q, want 202 with Range %q (another client was appending one byte behind it, accepted: %v - which can only come after this request)", d.Family, i, len(chunk), r1.Code, r1.Header().Get("Range"), want, appended)
				return
			}
		}
	case "tag-flip-http":
		// tag-flip with the readers asking through ociserver (one request each); the larger size serves
		// with the options that make the server describe content before it sends it
		mem := ocimem.New()
		opts := &ociserver.Options{}
		if d.Size > 4 {
			opts.LocationsForDescriptor = func(isManifest bool, desc ociregistry.Descriptor) ([]string, error) {
				runtime.Gosched()
				return nil, nil
			}
		}
		srv := ociserver.New(mem, opts)
		const mt = "application/vnd.verif.opaque"
		a, b := []byte(`{"m":"a"}`), []byte(`{"m":"b"}`)
		da, db := digest.FromBytes(a), digest.FromBytes(b)
		if _, err := mem.PushManifest(ctx, "foo", "t", a, mt); err != nil {
			v.Failf("harness", "%v", err)
			return
		}
		var stop atomic.Bool
		var bad atomic.Value
		var wg sync.WaitGroup
		for r := 0; r < 4; r++ {
			wg.Add(1)
			go func() {
				defer wg.Done()
				for !stop.Load() {
					method := "GET"
					if r == 3 {
						method = "HEAD"
					}
					rec := httptest.NewRecorder()
					srv.ServeHTTP(rec, httptest.NewRequest(method, "/v2/foo/manifests/t", nil))
					if rec.Code != 200 {
						bad.Store(fmt.Sprintf("%s /v2/foo/manifests/t answered %d %s", method, rec.Code, rec.Body.String()))
						return
					}
					if body := rec.Body.Bytes(); method == "GET" && !bytes.Equal(body, a) && !bytes.Equal(body, b) {
						bad.Store(fmt.Sprintf("GET /v2/foo/manifests/t returned foreign bytes %q", body))
						return
					}
				}
			}()
		}
		for i := 0; i < d.Iters*2 && bad.Load() == nil; i++ {
			mem.PushManifest(ctx, "foo", "t", b, mt)
			mem.DeleteManifest(ctx, "foo", da)
			mem.PushManifest(ctx, "foo", "t", a, mt)
			mem.DeleteManifest(ctx, "foo", db)
		}
		stop.Store(true)
		wg.Wait()
		if x := bad.Load(); x != nil {
			v.Failf("tag-reported-missing", "%s (LocationsForDescriptor set: %v): tag moved between two manifests, the old one deleted each time, 4 readers asking the server: %v", d.Family, d.Size > 4, x)
			return
		}
	case "shared-handle-writes":
		// several goroutines write through ONE handle that was opened at the right offset: in every
		// sequential order each write is accepted (the handle's offset was right when it first wrote)
		mem := ocimem.New()
		const writers = 4
		x := bytes.Repeat([]byte("x"), max(d.Size, 1))
		for i := 0; i < d.Iters; i++ {
			w0, err := mem.PushBlobChunked(ctx, "foo", 0)
			if err != nil {
				v.Failf("harness", "%v", err)
				return
			}
			base := i % 3
			w0.Write(x[:min(base, len(x))])
			have := w0.Size()
			w, err := mem.PushBlobChunkedResume(ctx, "foo", w0.ID(), have, 0)
			if err != nil {
				v.Failf("harness", "%v", err)
				return
			}
			var wg sync.WaitGroup
			var accepted, refused, other atomic.Int64
			start := make(chan struct{})
			for g := 0; g < writers; g++ {
				wg.Add(1)
				go func() {
					defer wg.Done()
					<-start
					switch _, err := w.Write(x); {
					case err == nil:
						accepted.Add(1)
					case errors.Is(err, ociregistry.ErrRangeInvalid):
						refused.Add(1)
					default:
						other.Add(1)
					}
				}()
			}
			close(start)
			wg.Wait()
			if want := have + int64(writers*len(x)); accepted.Load() != writers || w0.Size() != want {
				v.Failf("shared-handle-write-refused", "%s, iteration %d: %d goroutines wrote %d bytes each through one handle opened at offset %d (the session's size): %d accepted, %d refused as range-invalid, %d other errors; the session holds %d bytes (want all accepted, %d bytes)", d.Family, i, writers, len(x), have, accepted.Load(), refused.Load(), other.Load(), w0.Size(), want)
				return
			}
			w0.Cancel()
		}
	case "first-resume-race":
		// several goroutines open the same, not yet existing, upload id at once (ocimem starts such a
		// session on demand) and write one byte each: every acknowledged byte belongs to the one session
		mem := ocimem.New()
		const writers = 4
		for i := 0; i < d.Iters; i++ {
			id := fmt.Sprintf("fresh-%d", i)
			var wg sync.WaitGroup
			var acked atomic.Int64
			start := make(chan struct{})
			for g := 0; g < writers; g++ {
				wg.Add(1)
				go func() {
					defer wg.Done()
					<-start
					w, err := mem.PushBlobChunkedResume(ctx, "foo", id, -1, 0)
					if err != nil {
						return
					}
					if n, err := w.Write([]byte("x")); err == nil && n == 1 {
						acked.Add(1)
					}
				}()
			}
			close(start)
			wg.Wait()
			w, err := mem.PushBlobChunkedResume(ctx, "foo", id, -1, 0)
			if err != nil {
				v.Failf("harness", "%v", err)
				return
			}
			if w.Size() != acked.Load() {
				v.Failf("acknowledged-write-lost", "%s, iteration %d: %d goroutines opened upload %q at once and %d one-byte writes were acknowledged, but the session holds %d bytes", d.Family, i, writers, id, acked.Load(), w.Size())
				return
			}
			w.Cancel()
		}
	case "stale-write-vs-status", "good-write-vs-wrong-offset":
		// each handle on an upload session checks the offset it was opened at: what another
		// handle on the same session is opened at must not matter
		mem := ocimem.New()
		x := bytes.Repeat([]byte("x"), d.Size)
		y := []byte("YYYY")
		for i := 0; i < d.Iters; i++ {
			repo := "foo"
			w, err := mem.PushBlobChunked(ctx, repo, 0)
			if err != nil {
				v.Failf("harness", "%v", err)
				return
			}
			id := w.ID()
			if d.Family == "stale-write-vs-status" {
				w.Write(x)
			}
			var wg sync.WaitGroup
			var aErr, bErr error
			var stop atomic.Bool
			wg.Add(2)
			go func() {
				defer wg.Done()
				defer stop.Store(true)
				// stale: offset 0 on a session that holds len(x) bytes; good: offset 0 on an empty session
				w1, err := mem.PushBlobChunkedResume(ctx, repo, id, 0, 0)
				if err != nil {
					aErr = fmt.Errorf("resume: %w", err)
					return
				}
				runtime.Gosched()
				if d.Family == "stale-write-vs-status" {
					_, aErr = w1.Write(y)
				} else {
					_, aErr = w1.Write(x)
				}
			}()
			go func() {
				defer wg.Done()
				for k := 0; k < 50 && !stop.Load(); k++ {
					if d.Family == "stale-write-vs-status" {
						// what the server's upload-status request does
						if w2, err := mem.PushBlobChunkedResume(ctx, repo, id, -1, 0); err == nil {
							w2.Size()
						}
					} else {
						// a writer that names an offset the session never has
						if w2, err := mem.PushBlobChunkedResume(ctx, repo, id, int64(len(x))+3, 0); err == nil {
							if _, err := w2.Write(y); err == nil {
								bErr = fmt.Errorf("a write at offset %d was accepted", len(x)+3)
							}
						}
					}
					runtime.Gosched()
				}
			}()
			wg.Wait()
			w3, err := mem.PushBlobChunkedResume(ctx, repo, id, -1, 0)
			if err != nil {
				v.Failf("harness", "%v", err)
				return
			}
			size := w3.Size()
			if d.Family == "stale-write-vs-status" {
				if aErr == nil || !errors.Is(aErr, ociregistry.ErrRangeInvalid) || size != int64(len(x)) {
					v.Failf("stale-offset-write-accepted", "%s, iteration %d: a handle opened at offset 0 on a session holding %d bytes wrote with result %v while another handle was opened at offset -1; the session now holds %d bytes (want a range-invalid error and %d bytes)", d.Family, i, len(x), aErr, size, len(x))
					return
				}
			} else {
				if aErr != nil || bErr != nil || size != int64(len(x)) {
					v.Failf("right-offset-write-refused", "%s, iteration %d: a handle opened at offset 0 on an empty session wrote %d bytes with result %v while other handles were opened at offset %d (their writes: %v); the session now holds %d bytes", d.Family, i, len(x), aErr, len(x)+3, bErr, size)
					return
				}
			}
			w3.Cancel()
		}
	default:
		v.Failf("harness", "unknown family")
		return
	}
	v.Class("family:%s", d.Family)
	v.NonTrivial(fmt.Sprintf("%s/%d/%d", d.Family, d.Iters, d.Size))
}

var propDirected *vt.Prop[Directed]

func init() {
	propDirected = &vt.Prop[Directed]{
		ID:   "C08",
		Name: "DirectedRaces",
		Rule: "directed workload families aimed at the registry's two-step operations, each a loop of racing goroutines under -race: tag-flip (a tag moved back and forth between two manifests, the old one deleted each time, while 4 readers GetTag: never missing, never foreign bytes), commit-vs-write / resume-vs-write (one goroutine commits digest(X) while another writes to the same session: a successful commit stores exactly X with the right size, a failed one stores nothing), commit-vs-cancel / commit-vs-wrong-commit / commit-vs-write-commit (every commit that reports success leaves exactly its content retrievable under its digest; nothing is ever stored under the empty digest), stale-write-vs-status / good-write-vs-wrong-offset (a handle opened at a stale offset is refused, one opened at the right offset is accepted, whatever offsets other handles on the same session are opened at meanwhile), first-resume-race (goroutines opening the same fresh upload id at once share one session: no acknowledged write is lost), same-offset-race (of several handles opened at the same offset and writing at once exactly one is accepted), shared-handle-writes (goroutines writing at once through one handle opened at the right offset are all accepted), cancel-during-commit (a Cancel that returns nil while a Commit is in flight: if the commit succeeded the blob is there once the Cancel has returned), write-during-commit (a Write that succeeds while a Commit is in flight either makes the commit fail or finds the committed blob in place once it has returned), interleaved-chunks (over HTTP: a chunk request is served while another one's body is half delivered - the requests must take effect one after the other), concurrent-listings (over HTTP: 8 clients list tags, repositories and referrers of a registry nobody writes to - every answer is the one the request gets when asked alone), stalled-push (a PushBlob - direct or as one HTTP request - whose content source stalls: operations on another repository complete meanwhile), reentrant-listing (a consumer resolves each tag while it iterates over Tags inside an iteration over Repositories, and another goroutine pushes between two items: nothing waits for the iteration), delete-vs-tagged-push (immutable tags: the DeleteBlob of a layer against the PushManifest of a tagged image that refers to it, 30 or 400 tagged manifests in the repository: one of the two is refused), resume-hint-vs-write (handles opened and closed on a session, with chunk-size hints 1 .. 64 KiB by four goroutines, while another goroutine writes through the first handle: every acknowledged write stays, Size never goes back, the commit of everything written succeeds), tag-flip-http (tag-flip with the readers asking ociserver by GET and HEAD, with and without LocationsForDescriptor), patch-range-vs-append (over HTTP: a PATCH at offset 0 while another client keeps trying to append behind it: the PATCH's Range answer covers its own chunk, not the later one); distinct = (family, iterations, size)",
		Run:  runDirected,
	}
}

func TestPropDirected(t *testing.T) {
	shard, shards := vt.Shard()
	iters := 300
	if vt.Thorough() {
		iters = 3000
	}
	vt.Enumerate(t, propDirected, false, func(yield func(Directed) bool) {
		k := 0
		for rep := 0; rep < 2; rep++ {
			for _, f := range []string{"tag-flip", "commit-vs-write", "commit-vs-cancel", "resume-vs-write", "commit-vs-wrong-commit", "commit-vs-write-commit", "stale-write-vs-status", "good-write-vs-wrong-offset", "first-resume-race", "same-offset-race", "shared-handle-writes", "cancel-during-commit", "write-during-commit", "interleaved-chunks", "concurrent-listings", "stalled-push", "reentrant-listing", "delete-vs-tagged-push", "resume-hint-vs-write", "tag-flip-http", "patch-range-vs-append"} {
				for _, size := range []int{4, 4096, 1 << 20} {
					if (f == "tag-flip" || f == "first-resume-race") && size != 4 || (f == "interleaved-chunks" || f == "same-offset-race" || f == "shared-handle-writes" || f == "cancel-during-commit" || f == "concurrent-listings" || f == "reentrant-listing" || f == "delete-vs-tagged-push" || f == "tag-flip-http" || f == "patch-range-vs-append" || f == "resume-hint-vs-write") && size > 4096 || f == "write-during-commit" && size < 1<<20 {
						continue
					}
					k++
					if k%shards != shard {
						continue
					}
					n := iters
					if size == 1<<20 {
						n = iters / 10
					}
					if f == "tag-flip" || f == "first-resume-race" || f == "same-offset-race" {
						n = iters * 20
					}
					if !yield(Directed{Family: f, Iters: n, Size: size}) {
						return
					}
				}
			}
		}
	})
}

func TestReplay(t *testing.T) {
	vt.Register(propWorkload)
	vt.Register(propDirected)
	vt.Replay(t)
}
