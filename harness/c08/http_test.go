package c08

// Concurrent HTTP requests on one upload session, with the interleaving forced: the body of one
// chunk request arrives in two pieces and a second chunk request is served in between.

import (
	"encoding/base64"
	"fmt"
	"io"
	"net/http"
	"strings"
	"time"

	"cuelabs.dev/go/oci/ociregistry/ocimem"
	"cuelabs.dev/go/oci/ociregistry/ociserver"

	"verif/harness/internal/memnet"
	"verif/harness/vt"
)

// interleavedChunks: PATCH A (range 0..2n-1) has delivered its first n bytes when PATCH B (range
// n..n+m-1) arrives. In every sequential order of the two requests B names an offset the session
// does not have (0 before A, 2n after it) and must be answered 416, A is accepted and the session
// ends up holding exactly A's 2n bytes.
func interleavedChunks(d Directed, v *vt.V) {
	if vt.Known("interleaved-chunks") {
		v.Excluded("interleaved-chunks")
		return
	}
	n := max(d.Size, 1)
	mem := ocimem.New()
	srv := memnet.NewServer(ociserver.New(mem, nil))
	defer srv.Close()
	client := srv.Client()
	for i := 0; i < max(d.Iters/50, 1); i++ {
		resp, err := client.Post(srv.URL+"/v2/foo/blobs/uploads/", "", nil)
		if err != nil || resp.StatusCode != 202 {
			v.Failf("harness", "start upload: %v %v", resp, err)
			return
		}
		resp.Body.Close()
		loc := resp.Header.Get("Location")
		idb, err := base64.RawURLEncoding.DecodeString(loc[strings.LastIndex(loc, "/")+1:])
		if err != nil {
			v.Failf("harness", "upload location %q: %v", loc, err)
			return
		}
		id := string(idb)
		size := func() int64 {
			w, err := mem.PushBlobChunkedResume(ctx, "foo", id, -1, 0)
			if err != nil {
				return -1
			}
			return w.Size()
		}
		p1, p2, b := strings.Repeat("a", n), strings.Repeat("A", n), "BBBB"
		pr, pw := io.Pipe()
		reqA, _ := http.NewRequest("PATCH", srv.URL+loc, pr)
		reqA.ContentLength = int64(2 * n)
		reqA.Header.Set("Content-Range", fmt.Sprintf("0-%d", 2*n-1))
		reqA.Header.Set("Content-Type", "application/octet-stream")
		statusA := make(chan int, 1)
		go func() {
			resp, err := client.Do(reqA)
			if err != nil {
				statusA <- -1
				return
			}
			resp.Body.Close()
			statusA <- resp.StatusCode
		}()
		io.WriteString(pw, p1)
		// wait until the first piece has reached the session
		deadline := time.Now().Add(5 * time.Second)
		for size() < int64(n) && time.Now().Before(deadline) {
			time.Sleep(time.Millisecond)
		}
		if size() != int64(n) {
			// the server buffered the piece: the interleaving cannot be produced (nothing to report)
			pw.Close()
			<-statusA
			v.Class("interleaved-chunks/not-produced")
			continue
		}
		reqB, _ := http.NewRequest("PATCH", srv.URL+loc, strings.NewReader(b))
		reqB.Header.Set("Content-Range", fmt.Sprintf("%d-%d", n, n+len(b)-1))
		reqB.Header.Set("Content-Type", "application/octet-stream")
		respB, err := client.Do(reqB)
		stB := -1
		if err == nil {
			respB.Body.Close()
			stB = respB.StatusCode
		}
		io.WriteString(pw, p2)
		pw.Close()
		stA := <-statusA
		final := size()
		if stB == 202 {
			v.Failf("interleaved-chunks", "PATCH A (Content-Range 0-%d) had delivered %d of its %d bytes when PATCH B (Content-Range %d-%d) was served: B was answered %d and A %d, the session holds %d bytes - in either sequential order B names an offset the session does not have and must get 416, and the session must hold A's %d bytes only", 2*n-1, n, 2*n, n, n+len(b)-1, stB, stA, final, 2*n)
			return
		}
		if stA != 202 || stB != 416 || final != int64(2*n) {
			v.Failf("chunk-requests-not-atomic", "PATCH A (0-%d, body in two pieces) answered %d, PATCH B (%d-%d, served in between) answered %d, the session holds %d bytes; want 202, 416 and %d bytes", 2*n-1, stA, n, n+len(b)-1, stB, final, 2*n)
			return
		}
	}
}
