package c08

// Concurrent HTTP requests on one upload session, with the interleaving forced: the body of one
// chunk request arrives in two pieces and a second chunk request is served in between.

import (
	"bytes"
	"fmt"
	"io"
	"net/http"
	"strings"
	"sync"
	"time"

	"github.com/opencontainers/go-digest"

	"cuelabs.dev/go/oci/ociregistry"
	"cuelabs.dev/go/oci/ociregistry/ocimem"
	"cuelabs.dev/go/oci/ociregistry/ociserver"

	"verif/harness/internal/memnet"
	"verif/harness/vt"
)

// interleavedChunks: PATCH A (range 0..2n-1) has delivered its first n bytes when PATCH B (range
// n..n+m-1) arrives. In every sequential order of the two requests B names an offset the session
// does not have (0 before A, 2n after it) and must be answered 416, A is accepted and the session
// ends up holding exactly A's 2n bytes.
func interleavedChunks(d Directed, v *vt.V) {
	if vt.Known("interleaved-chunks") {
		v.Excluded("interleaved-chunks")
		return
	}
	n := max(d.Size, 2)
	mem := ocimem.New()
	srv := memnet.NewServer(ociserver.New(mem, nil))
	defer srv.Close()
	client := srv.Client()
	for i := 0; i < max(d.Iters/50, 1); i++ {
		resp, err := client.Post(srv.URL+"/v2/foo/blobs/uploads/", "", nil)
		if err != nil || resp.StatusCode != 202 {
			v.Failf("harness", "start upload: %v %v", resp, err)
			return
		}
		resp.Body.Close()
		loc := resp.Header.Get("Location")
		// what the session holds, as the registry itself reports it for the upload's Location
		size := func() int64 {
			resp, err := client.Get(srv.URL + loc)
			if err != nil {
				return -1
			}
			resp.Body.Close()
			var a, b int64
			if _, err := fmt.Sscanf(resp.Header.Get("Range"), "%d-%d", &a, &b); err != nil || resp.StatusCode/100 != 2 {
				return -1
			}
			if b == 0 {
				return 0 // "0-0" stands for an empty upload as well as for one byte: n >= 2 here
			}
			return b + 1
		}
		p1, p2, b := strings.Repeat("a", n), strings.Repeat("A", n), "BBBB"
		pr, pw := io.Pipe()
		reqA, _ := http.NewRequest("PATCH", srv.URL+loc, pr)
		reqA.ContentLength = int64(2 * n)
		reqA.Header.Set("Content-Range", fmt.Sprintf("0-%d", 2*n-1))
		reqA.Header.Set("Content-Type", "application/octet-stream")
		statusA := make(chan int, 1)
		go func() {
			resp, err := client.Do(reqA)
			if err != nil {
				statusA <- -1
				return
			}
			resp.Body.Close()
			statusA <- resp.StatusCode
		}()
		io.WriteString(pw, p1)
		// wait until the first piece has reached the session
		deadline := time.Now().Add(5 * time.Second)
		for size() < int64(n) && time.Now().Before(deadline) {
			time.Sleep(time.Millisecond)
		}
		if size() != int64(n) {
			// the server buffered the piece: the interleaving cannot be produced (nothing to report)
			pw.Close()
			<-statusA
			v.Class("interleaved-chunks/not-produced")
			continue
		}
		reqB, _ := http.NewRequest("PATCH", srv.URL+loc, strings.NewReader(b))
		reqB.Header.Set("Content-Range", fmt.Sprintf("%d-%d", n, n+len(b)-1))
		reqB.Header.Set("Content-Type", "application/octet-stream")
		respB, err := client.Do(reqB)
		stB := -1
		if err == nil {
			respB.Body.Close()
			stB = respB.StatusCode
		}
		io.WriteString(pw, p2)
		pw.Close()
		stA := <-statusA
		final := size()
		if stB == 202 {
			v.Failf("interleaved-chunks", "PATCH A (Content-Range 0-%d) had delivered %d of its %d bytes when PATCH B (Content-Range %d-%d) was served: B was answered %d and A %d, the session holds %d bytes - in either sequential order B names an offset the session does not have and must get 416, and the session must hold A's %d bytes only", 2*n-1, n, 2*n, n, n+len(b)-1, stB, stA, final, 2*n)
			return
		}
		if stA != 202 || stB != 416 || final != int64(2*n) {
			v.Failf("chunk-requests-not-atomic", "PATCH A (0-%d, body in two pieces) answered %d, PATCH B (%d-%d, served in between) answered %d, the session holds %d bytes; want 202, 416 and %d bytes", 2*n-1, stA, n, n+len(b)-1, stB, final, 2*n)
			return
		}
	}
}

// concurrentListings: nothing is being written, so each listing request (tags, catalog, referrers) has
// one right answer whatever else is in flight: the one it gets when asked alone.
func concurrentListings(d Directed, v *vt.V) {
	mem := ocimem.New()
	ntags := min(max(d.Size, 1), 300)
	var urls []string
	for r := 0; r < 6; r++ {
		repo := fmt.Sprintf("repo%d/%s", r, strings.Repeat("x", r*3+1))
		var subject digest.Digest
		for t := 0; t < ntags/(r+1)+1; t++ {
			m := []byte(fmt.Sprintf(`{"schemaVersion":2,"mediaType":"application/vnd.oci.image.manifest.v1+json","artifactType":"application/x-%d-%d","config":{"mediaType":"application/vnd.oci.empty.v1+json","digest":"sha256:44136fa355b3678a1146ad16f7e8649e94fb4fc21fe77e8310c060f61caaff8a","size":2},"layers":[]%s}`, r, t, func() string {
				if subject == "" {
					return ""
				}
				return fmt.Sprintf(`,"subject":{"mediaType":"application/vnd.oci.image.manifest.v1+json","digest":%q,"size":1}`, subject)
			}()))
			if t == 0 {
				mem.PushBlob(ctx, repo, ocispecDesc("application/vnd.oci.empty.v1+json", []byte("{}")), bytes.NewReader([]byte("{}")))
			}
			desc, err := mem.PushManifest(ctx, repo, fmt.Sprintf("tag-%d-%s-%d", r, strings.Repeat("t", r), t), m, "application/vnd.oci.image.manifest.v1+json")
			if err != nil {
				v.Failf("harness", "push manifest: %v", err)
				return
			}
			if t == 0 {
				subject = desc.Digest
			}
		}
		urls = append(urls, "/v2/"+repo+"/tags/list", "/v2/"+repo+"/tags/list?n=3", fmt.Sprintf("/v2/%s/referrers/%s", repo, subject))
	}
	urls = append(urls, "/v2/_catalog", "/v2/_catalog?n=2")
	srv := memnet.NewServer(ociserver.New(mem, nil))
	defer srv.Close()
	client := srv.Client()
	get := func(u string) (string, error) {
		resp, err := client.Get(srv.URL + u)
		if err != nil {
			return "", err
		}
		defer resp.Body.Close()
		b, err := io.ReadAll(resp.Body)
		return fmt.Sprintf("%d %s %s", resp.StatusCode, resp.Header.Get("Link"), b), err
	}
	want := map[string]string{}
	for _, u := range urls {
		b, err := get(u)
		if err != nil || !strings.HasPrefix(b, "200 ") {
			v.Failf("harness", "GET %s alone: %.200s %v", u, b, err)
			return
		}
		want[u] = b
	}
	var wg sync.WaitGroup
	var mu sync.Mutex
	bad := ""
	for g := 0; g < 8; g++ {
		wg.Add(1)
		go func() {
			defer wg.Done()
			for i := 0; i < max(d.Iters/20, 5); i++ {
				u := urls[(g*7+i*3)%len(urls)]
				b, err := get(u)
				if err != nil || b != want[u] {
					mu.Lock()
					if bad == "" {
						bad = fmt.Sprintf("GET %s with 7 other listing requests in flight (nothing being written) answered %.300q (err %v); asked alone it answers %.300q", u, b, err, want[u])
					}
					mu.Unlock()
					return
				}
			}
		}()
	}
	wg.Wait()
	if bad != "" {
		v.Failf("listing-differs-under-concurrency", "%s", bad)
	}
}

func ocispecDesc(mt string, data []byte) ociregistry.Descriptor {
	return ociregistry.Descriptor{MediaType: mt, Digest: digest.FromBytes(data), Size: int64(len(data))}
}

// stalledReader delivers its content only once gate is closed, and says when it was first asked.
type stalledReader struct {
	data    []byte
	gate    chan struct{}
	entered chan struct{}
	once    sync.Once
}

func (r *stalledReader) Read(p []byte) (int, error) {
	r.once.Do(func() { close(r.entered) })
	<-r.gate
	if len(r.data) == 0 {
		return 0, io.EOF
	}
	n := copy(p, r.data)
	r.data = r.data[n:]
	return n, nil
}

// stalledPush: a PushBlob (direct, or a single-request upload over HTTP) whose content source stalls
// is one caller's business: other callers' operations complete meanwhile.
func stalledPush(d Directed, v *vt.V) {
	mem := ocimem.New()
	other := []byte("content of another repository")
	mem.PushBlob(ctx, "other", ocispecDesc("application/octet-stream", other), bytes.NewReader(other))
	srv := memnet.NewServer(ociserver.New(mem, nil))
	defer srv.Close()
	client := srv.Client()
	for i := 0; i < max(d.Iters/100, 2); i++ {
		data := bytes.Repeat([]byte{byte(i)}, max(d.Size, 1))
		desc := ocispecDesc("application/octet-stream", data)
		overHTTP := i%2 == 1
		r := &stalledReader{data: data, gate: make(chan struct{}), entered: make(chan struct{})}
		pushed := make(chan error, 1)
		go func() {
			if overHTTP {
				req, _ := http.NewRequest("POST", srv.URL+"/v2/foo/blobs/uploads/?digest="+string(desc.Digest), r)
				req.ContentLength = desc.Size
				req.Header.Set("Content-Type", "application/octet-stream")
				resp, err := client.Do(req)
				if err == nil {
					resp.Body.Close()
					if resp.StatusCode != 201 {
						err = fmt.Errorf("status %d", resp.StatusCode)
					}
				}
				pushed <- err
				return
			}
			_, err := mem.PushBlob(ctx, "foo", desc, r)
			pushed <- err
		}()
		select {
		case <-r.entered:
		case <-time.After(10 * time.Second):
			v.Failf("harness", "the content source of the push was never read")
			close(r.gate)
			return
		}
		if overHTTP {
			time.Sleep(2 * time.Millisecond) // let the request reach the handler
		}
		others := make(chan error, 1)
		go func() {
			if _, err := mem.ResolveBlob(ctx, "other", digest.FromBytes(other)); err != nil {
				others <- err
				return
			}
			_, err := ociregistry.All(mem.Repositories(ctx, ""))
			others <- err
		}()
		select {
		case err := <-others:
			if err != nil {
				v.Failf("stalled-push-disturbs-others", "while a push into foo waits for its content (over HTTP: %v), reading repository other failed: %v", overHTTP, err)
				close(r.gate)
				return
			}
		case <-time.After(10 * time.Second):
			v.Failf("registry-blocked-by-stalled-push", "while a push of %d bytes into foo waits for its content source (over HTTP: %v), ResolveBlob and Repositories on another repository have not returned within 10 s", len(data), overHTTP)
			close(r.gate)
			return
		}
		close(r.gate)
		if err := <-pushed; err != nil {
			v.Failf("stalled-push-failed", "push whose content arrived late (over HTTP: %v): %v", overHTTP, err)
			return
		}
	}
}

// reentrantListing: a consumer uses the registry while it is part-way through a listing (resolving
// each listed tag, listing the tags of each listed repository), and other goroutines go on working.
func reentrantListing(d Directed, v *vt.V) {
	mem := ocimem.New()
	m := []byte(`{"opaque":"manifest"}`)
	for r := 0; r < 3; r++ {
		for t := 0; t < max(min(d.Size, 40), 2); t++ {
			if _, err := mem.PushManifest(ctx, fmt.Sprintf("repo%d", r), fmt.Sprintf("t%d", t), m, "application/vnd.verif.opaque"); err != nil {
				v.Failf("harness", "%v", err)
				return
			}
		}
	}
	done := make(chan string, 1)
	go func() {
		for i := 0; i < max(d.Iters/100, 2); i++ {
			for repo, err := range mem.Repositories(ctx, "") {
				if err != nil {
					done <- fmt.Sprintf("Repositories: %v", err)
					return
				}
				prev := ""
				nseen := 0
				for tag, err := range mem.Tags(ctx, repo, "") {
					if err != nil {
						done <- fmt.Sprintf("Tags(%s): %v", repo, err)
						return
					}
					// the consumer changes the repository's tags while it lists them: whatever the listing
					// then shows of the change, it stays a listing - names, each once, ascending
					if tag == "" || nseen > 0 && tag <= prev {
						done <- fmt.Sprintf("Tags(%s), while tags of the repository are being added and removed from inside the loop, yielded %q after %q", repo, tag, prev)
						return
					}
					prev = tag
					nseen++
					if nseen%2 == 1 {
						mem.PushManifest(ctx, repo, fmt.Sprintf("a-new-%d-%d", i, nseen), m, "application/vnd.verif.opaque")
						mem.DeleteTag(ctx, repo, fmt.Sprintf("a-new-%d-%d", i, nseen-2))
					}
					if _, err := mem.ResolveTag(ctx, repo, tag); err != nil {
						done <- fmt.Sprintf("ResolveTag(%s, %s) of a listed tag: %v", repo, tag, err)
						return
					}
					// another goroutine's operation completes while this loop body is running
					other := make(chan error, 1)
					go func() {
						_, err := mem.PushManifest(ctx, "elsewhere", "x", m, "application/vnd.verif.opaque")
						other <- err
					}()
					select {
					case err := <-other:
						if err != nil {
							done <- fmt.Sprintf("PushManifest from another goroutine: %v", err)
							return
						}
					case <-time.After(10 * time.Second):
						done <- "a PushManifest issued by another goroutine while a Tags iteration was between two items has not returned within 10 s"
						return
					}
				}
			}
		}
		done <- ""
	}()
	select {
	case msg := <-done:
		if msg != "" {
			v.Failf("listing-holds-the-registry", "%s", msg)
		}
	case <-time.After(30 * time.Second):
		v.Failf("listing-holds-the-registry", "a consumer that resolves each tag while iterating over Tags (inside an iteration over Repositories) has not finished within 30 s: the iteration keeps the registry to itself")
	}
}
