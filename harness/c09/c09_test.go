// Package c09 decides property C09: auth scopes behave as finite sets of
// (resource type, resource, action) triples.
package c09

import (
	"fmt"
	"sort"
	"strings"
	"testing"

	"cuelabs.dev/go/oci/ociregistry/ociauth"
	"pgregory.net/rapid"

	"verif/harness/vt"
)

func TestMain(m *testing.M) { vt.Main(m) }

type RS = ociauth.ResourceScope

// ---- the naive model: a set of triples ----

type set map[RS]bool

func mkset(l []RS) set {
	s := set{}
	for _, x := range l {
		s[x] = true
	}
	return s
}

func (s set) sorted() []RS {
	var l []RS
	for x := range s {
		l = append(l, x)
	}
	sort.Slice(l, func(i, j int) bool { return cmp(l[i], l[j]) < 0 })
	return l
}

func cmp(a, b RS) int {
	if c := strings.Compare(a.ResourceType, b.ResourceType); c != 0 {
		return c
	}
	if c := strings.Compare(a.Resource, b.Resource); c != 0 {
		return c
	}
	return strings.Compare(a.Action, b.Action)
}

func (s set) subsetOf(t set) bool {
	for x := range s {
		if !t[x] {
			return false
		}
	}
	return true
}

func (s set) union(t set) set {
	u := set{}
	for x := range s {
		u[x] = true
	}
	for x := range t {
		u[x] = true
	}
	return u
}

// modelParse is the documented scope syntax: space-separated fields, each
// type:resource:action[,action...]; anything else is an opaque scope.
func modelParse(text string) []RS {
	var out []RS
	for _, f := range strings.Fields(text) {
		p := strings.Split(f, ":")
		if len(p) != 3 {
			out = append(out, RS{ResourceType: f})
			continue
		}
		for _, a := range strings.Split(p[2], ",") {
			out = append(out, RS{ResourceType: p[0], Resource: p[1], Action: a})
		}
	}
	return out
}

func iterList(s ociauth.Scope) (l []RS, calls int) {
	s.Iter()(func(x RS) bool {
		calls++
		l = append(l, x)
		return true
	})
	return
}

func cp(l []RS) []RS { return append([]RS(nil), l...) } // NewScope sorts and compacts its argument in place

func printable(x RS) bool {
	ok := func(s string) bool { return s != "" && !strings.ContainsAny(s, " \t\n\r\v\f:,\u0085 ") }
	return ok(x.ResourceType) && ok(x.Resource) && ok(x.Action)
}

// checkSet checks every single-scope law for the scope built from list l.
func checkSet(l []RS, probes []RS, v *vt.V) (ociauth.Scope, bool) {
	want := mkset(l)
	arg := cp(l)
	s := ociauth.NewScope(arg...)
	// the caller's slice is the caller's: it is used again (here as the scratch buffer of another
	// scope) and what s holds does not change
	for i := range arg {
		arg[i] = RS{ResourceType: "zz-reused", Resource: "slot", Action: fmt.Sprint(i)}
	}
	ociauth.NewScope(arg...)
	fail := func(sig, f string, a ...any) (ociauth.Scope, bool) {
		v.Failf(sig, "scope built from %v: %s", l, fmt.Sprintf(f, a...))
		return s, false
	}
	if s.IsUnlimited() {
		return fail("", "is unlimited")
	}
	if s.Len() != len(want) {
		return fail("len", "Len() = %d, the set has %d elements", s.Len(), len(want))
	}
	if s.IsEmpty() != (len(want) == 0) {
		return fail("isempty", "IsEmpty() = %v for %d elements", s.IsEmpty(), len(want))
	}
	got, _ := iterList(s)
	ws := want.sorted()
	if fmt.Sprint(got) != fmt.Sprint(ws) {
		return fail("iter", "Iter yields %v, want exactly %v in ascending order", got, ws)
	}
	for i := 1; i < len(got); i++ {
		if got[i-1].Compare(got[i]) >= 0 {
			return fail("iter", "Iter not strictly ascending at %v, %v", got[i-1], got[i])
		}
	}
	// one iterator value can be run again, also after a run that was stopped early
	it := s.Iter()
	for pass := 0; pass < 3; pass++ {
		var again []RS
		it(func(x RS) bool {
			again = append(again, x)
			return pass != 1 // the second run stops at the first item
		})
		if wantN := len(ws); pass != 1 && (len(again) != wantN || fmt.Sprint(again) != fmt.Sprint(ws)) {
			return fail("iter-rerun", "run %d of one iterator value yields %v, want %v", pass+1, again, ws)
		}
	}
	// the iterator stops when told
	for stop := 1; stop <= len(ws) && stop <= 3; stop++ {
		n := 0
		s.Iter()(func(RS) bool { n++; return n < stop })
		if n != stop {
			return fail("iter-stop", "Iter called its consumer %d times after being told to stop at %d", n, stop)
		}
	}
	for _, p := range append(append([]RS{}, probes...), ws...) {
		if s.Holds(p) != want[p] {
			return fail("holds", "Holds(%v) = %v, membership is %v", p, s.Holds(p), want[p])
		}
	}
	if !ociauth.UnlimitedScope().Contains(s) || s.Contains(ociauth.UnlimitedScope()) {
		return fail("unlimited", "unlimited scope containment wrong")
	}
	if s.Equal(ociauth.UnlimitedScope()) || ociauth.UnlimitedScope().Equal(s) {
		return fail("unlimited", "a finite scope and the unlimited scope compare equal")
	}
	// same set, other presentation (reversed, duplicated)
	var alt []RS
	for i := len(l) - 1; i >= 0; i-- {
		alt = append(alt, l[i], l[i])
	}
	s2 := ociauth.NewScope(alt...)
	if !s.Equal(s2) || !s2.Equal(s) || !s.Contains(s2) || !s2.Contains(s) {
		return fail("equal", "not Equal / mutually containing with the scope built from the reversed, duplicated list")
	}
	// print / parse round trip on the stated domain
	all := true
	for x := range want {
		if !printable(x) {
			all = false
		}
	}
	if all {
		text := s.Canonical().String()
		back := ociauth.ParseScope(text)
		if !back.Equal(s) {
			bl, _ := iterList(back)
			return fail("roundtrip", "String() = %q parses back to %v", text, bl)
		}
		if back.String() != text {
			return fail("roundtrip", "ParseScope(%q).String() = %q", text, back.String())
		}
	}
	return s, true
}

func checkPair(a, b []RS, v *vt.V) bool {
	sa, sb := ociauth.NewScope(cp(a)...), ociauth.NewScope(cp(b)...)
	ma, mb := mkset(a), mkset(b)
	fail := func(sig, f string, x ...any) bool {
		v.Failf(sig, "A=%v B=%v: %s", a, b, fmt.Sprintf(f, x...))
		return false
	}
	if sa.Contains(sb) != mb.subsetOf(ma) {
		return fail("contains", "A.Contains(B) = %v, B subset of A is %v", sa.Contains(sb), mb.subsetOf(ma))
	}
	if sb.Contains(sa) != ma.subsetOf(mb) {
		return fail("contains", "B.Contains(A) = %v, A subset of B is %v", sb.Contains(sa), ma.subsetOf(mb))
	}
	eq := ma.subsetOf(mb) && mb.subsetOf(ma)
	if sa.Equal(sb) != eq {
		return fail("equal", "A.Equal(B) = %v, sets equal is %v", sa.Equal(sb), eq)
	}
	u := sa.Union(sb)
	ul, _ := iterList(u)
	wl := ma.union(mb).sorted()
	if fmt.Sprint(ul) != fmt.Sprint(wl) {
		return fail("union", "A.Union(B) holds %v, want %v", ul, wl)
	}
	if u.Len() != len(wl) {
		return fail("union", "A.Union(B).Len() = %d, want %d", u.Len(), len(wl))
	}
	if !u.Contains(sa) || !u.Contains(sb) {
		return fail("union", "the union does not contain both operands")
	}
	if !sa.Union(ociauth.UnlimitedScope()).IsUnlimited() || !ociauth.UnlimitedScope().Union(sb).IsUnlimited() {
		return fail("unlimited", "union with the unlimited scope is not unlimited")
	}
	// scopes are values: a union leaves its operands what they were, also when the receiver is
	// itself the result of a union (whose internal slices may have room to spare)
	u.Union(sb)
	u.Union(sa)
	sb.Union(u)
	for _, x := range []struct {
		name string
		s    ociauth.Scope
		want []RS
	}{{"A", sa, ma.sorted()}, {"B", sb, mb.sorted()}, {"A.Union(B)", u, wl}} {
		if got, _ := iterList(x.s); fmt.Sprint(got) != fmt.Sprint(x.want) {
			return fail("operand-changed", "after further unions %s holds %v, it held %v", x.name, got, x.want)
		}
	}
	return true
}

// ---- the small universe ----

var uniTypes = []string{"repository", "registry", "other"}
var uniRes = []string{"", "a", "b", "catalog"}
var uniActs = []string{"pull", "push", "*", "delete", ""}

var universe = func() []RS {
	var u []RS
	for _, t := range uniTypes {
		for _, r := range uniRes {
			for _, a := range uniActs {
				u = append(u, RS{ResourceType: t, Resource: r, Action: a})
			}
		}
	}
	// the wider part (used by the single-set enumeration): an unrecognised action that sorts
	// between "pull" and "push", and a case variant of a recognised one
	for _, t := range uniTypes {
		for _, r := range uniRes {
			for _, a := range []string{"purge", "PULL"} {
				u = append(u, RS{ResourceType: t, Resource: r, Action: a})
			}
		}
	}
	return u
}()

const baseN = 60 // the triples the pair enumeration ranges over

// subsets of the first n triples of the universe of size <= k, as index lists
func subsets(k, n int) [][]int {
	out := [][]int{{}}
	for i := 0; i < n; i++ {
		out = append(out, []int{i})
	}
	if k >= 2 {
		for i := 0; i < n; i++ {
			for j := i + 1; j < n; j++ {
				out = append(out, []int{i, j})
			}
		}
	}
	if k >= 3 {
		for i := 0; i < n; i++ {
			for j := i + 1; j < n; j++ {
				for l := j + 1; l < n; l++ {
					out = append(out, []int{i, j, l})
				}
			}
		}
	}
	return out
}

func pick(ix []int) []RS {
	var l []RS
	for _, i := range ix {
		l = append(l, universe[i])
	}
	return l
}

type PairScript struct {
	A []int `json:"a"`
	B []int `json:"b"`
}

func runPair(p PairScript, v *vt.V) {
	a, b := pick(p.A), pick(p.B)
	if !checkPair(a, b, v) {
		return
	}
	known := func(l []RS) (k, o bool) {
		for _, x := range l {
			if (x.ResourceType == "repository" && x.Resource != "" && (x.Action == "pull" || x.Action == "push")) || x == ociauth.CatalogScope {
				k = true
			} else {
				o = true
			}
		}
		return
	}
	ka, oa := known(a)
	kb, ob := known(b)
	shared := false
	for _, x := range a {
		for _, y := range b {
			if x.Resource == y.Resource && x.ResourceType == y.ResourceType {
				shared = true
			}
		}
	}
	if shared || (ka || kb) && (oa || ob) {
		v.NonTrivial(fmt.Sprint(p.A, p.B))
	}
}

var propPairs = &vt.Prop[PairScript]{
	ID:   "C09",
	Name: "ScopePairsSmallUniverse",
	Rule: "complete enumeration over the small universe {repository, registry, other} x {'', a, b, catalog} x {pull, push, *, delete, ''} (60 triples): all ordered pairs (A,B) of subsets of size <= 2 (thorough: |A| <= 2, |B| <= 3), sharded; oracle = naive set model: Contains both ways, Equal, Union (elements via Iter, Len, containment of both operands; operands and results unchanged by further unions), union with unlimited; non-trivial = the two sets share a (type, resource) or mix known and unrecognised scopes; distinct = the pair",
	Run:  runPair,
}

type SetScript struct {
	A []int `json:"a"`
}

var propSets = &vt.Prop[SetScript]{
	ID:   "C09",
	Name: "ScopeSetsSmallUniverse",
	Rule: "complete enumeration of all subsets of size <= 3 of the 60-triple universe widened by the actions 'purge' (sorts between pull and push) and 'PULL' (84 triples); oracle = naive set model: Len, IsEmpty, the argument slice overwritten and reused after construction, one iterator value run three times (the second run stopped early), Iter (exact elements, strictly ascending, stops when told), Holds for all 84 triples, equality with the reversed and duplicated presentation, containment vs unlimited (incl. the empty set) and inequality with it, print/parse round trip on the stated domain (non-empty fields without whitespace, colon, comma), catalog vs repository separation; every non-empty set is non-trivial",
	Run: func(s SetScript, v *vt.V) {
		l := pick(s.A)
		if _, ok := checkSet(l, universe, v); !ok {
			return
		}
		if len(l) > 0 {
			v.NonTrivial(fmt.Sprint(s.A))
		}
	},
}

func TestPropSets(t *testing.T) {
	shard, shards := vt.Shard()
	vt.Enumerate(t, propSets, true, func(yield func(SetScript) bool) {
		for i, s := range subsets(3, len(universe)) {
			if i%shards != shard {
				continue
			}
			if !yield(SetScript{s}) {
				return
			}
		}
	})
}

func TestPropPairs(t *testing.T) {
	shard, shards := vt.Shard()
	as := subsets(2, baseN)
	bs := as
	if vt.Thorough() {
		bs = subsets(3, baseN)
	}
	vt.Enumerate(t, propPairs, true, func(yield func(PairScript) bool) {
		k := 0
		for _, a := range as {
			for _, b := range bs {
				k++
				if k%shards != shard {
					continue
				}
				if !yield(PairScript{a, b}) {
					return
				}
			}
		}
	})
}

// ---- random large universe, scope strings ----

type TextScript struct {
	A     []RS   `json:"a"`
	B     []RS   `json:"b"`
	TextA string `json:"text_a"` // a scope string presenting A (with duplicates / permutations / grouped actions)
}

func genRS(t *rapid.T) RS {
	field := func(label string, common []string) string {
		switch rapid.IntRange(0, 5).Draw(t, label+"Kind") {
		case 0:
			return rapid.SampledFrom([]string{"", " ", "a b", "a:b", "a,b", ":", ",", "\t", "é", "a b"}).Draw(t, label+"Odd")
		case 1:
			return rapid.StringMatching(`[a-z/._-]{1,6}`).Draw(t, label+"Rand")
		}
		return rapid.SampledFrom(common).Draw(t, label)
	}
	return RS{
		ResourceType: field("type", []string{"repository", "repository", "registry", "other"}),
		Resource:     field("res", []string{"foo", "bar", "foo/bar", "catalog", "a"}),
		Action:       field("act", []string{"pull", "push", "*", "delete", "purge", "pulx", "PULL", "Push"}),
	}
}

func runText(s TextScript, v *vt.V) {
	sa, ok := checkSet(s.A, s.B, v)
	if !ok {
		return
	}
	if _, ok := checkSet(s.B, s.A, v); !ok {
		return
	}
	if !checkPair(s.A, s.B, v) {
		return
	}
	_ = sa
	// scope strings: parse == model parse
	pa := ociauth.ParseScope(s.TextA)
	got, _ := iterList(pa)
	want := mkset(modelParse(s.TextA)).sorted()
	if fmt.Sprint(got) != fmt.Sprint(want) {
		v.Failf("parse", "ParseScope(%q) holds %v, the documented syntax gives %v", s.TextA, got, want)
		return
	}
	if pa.String() != s.TextA && len(want) > 0 {
		v.Failf("parse-text", "ParseScope(%q).String() = %q: the original text is not kept", s.TextA, pa.String())
		return
	}
	// a union that adds nothing returns the receiver with its text unchanged
	sub := ociauth.NewScope(cp(want[:len(want)/2])...)
	if u := pa.Union(sub); u.String() != pa.String() || !u.Equal(pa) {
		v.Failf("union-noop-text", "ParseScope(%q).Union(subset %v).String() = %q", s.TextA, want[:len(want)/2], u.String())
		return
	}
	// ... also when the argument holds exactly the same set under another spelling
	same := ociauth.NewScope(cp(want)...)
	if u := pa.Union(same); len(want) > 0 && (u.String() != pa.String() || !u.Equal(pa)) {
		v.Failf("union-noop-text", "ParseScope(%q).Union(the same set, built from a list and printing as %q).String() = %q: the receiver's text is not kept", s.TextA, same.String(), u.String())
		return
	}
	if u := pa.Union(ociauth.ParseScope(s.TextA)); u.String() != s.TextA {
		v.Failf("union-noop-text", "ParseScope(%q).Union(itself).String() = %q", s.TextA, u.String())
		return
	}
	v.NonTrivial(fmt.Sprint(s.A, s.B, s.TextA))
}

func genText(t *rapid.T) TextScript {
	var s TextScript
	s.A = rapid.SliceOfN(rapid.Custom(genRS), 0, 5).Draw(t, "a")
	s.B = rapid.SliceOfN(rapid.Custom(genRS), 0, 4).Draw(t, "b")
	if len(s.A) > 0 && rapid.Bool().Draw(t, "overlap") {
		s.B = append(s.B, rapid.SampledFrom(s.A).Draw(t, "shared"))
	}
	// a scope string from printable triples, with duplicates, permutations and grouped actions
	var fields []string
	n := rapid.IntRange(0, 6).Draw(t, "nfields")
	for i := 0; i < n; i++ {
		switch rapid.IntRange(0, 6).Draw(t, "fieldKind") {
		case 0:
			fields = append(fields, rapid.SampledFrom([]string{"opaque", "*", "a:b", "a:b:c:d", "::", "repository::pull", "registry:catalog:*", ":x:", "repository:foo:"}).Draw(t, "odd"))
		default:
			typ := rapid.SampledFrom([]string{"repository", "repository", "repository", "registry", "other"}).Draw(t, "ftype")
			res := rapid.SampledFrom([]string{"foo", "bar", "foo/bar", "catalog"}).Draw(t, "fres")
			acts := rapid.SliceOfN(rapid.SampledFrom([]string{"pull", "push", "*", "delete", "pull"}), 1, 3).Draw(t, "facts")
			fields = append(fields, typ+":"+res+":"+strings.Join(acts, ","))
		}
	}
	if len(fields) > 0 && rapid.Bool().Draw(t, "dup") {
		fields = append(fields, fields[0])
	}
	s.TextA = strings.Join(fields, rapid.SampledFrom([]string{" ", " ", "  "}).Draw(t, "sep"))
	return s
}

var propText = &vt.Prop[TextScript]{
	ID:   "C09",
	Name: "ScopeRandomAndStrings",
	Rule: "rapid: lists of resource scopes whose fields are drawn from common values, random words and odd values (empty, spaces, colons, commas, tabs, non-ASCII, NBSP), plus scope strings assembled from fields with grouped actions, duplicates, permutations and malformed fields; oracle = all single-set and pair laws of the naive model, ParseScope == documented tokenisation, original text kept, a union that adds nothing (a subset, or the scope itself) returns the receiver with its text unchanged; distinct = the inputs",
	Gen:  genText,
	Run:  runText,
}

func TestPropText(t *testing.T) { propText.Scale = 5; vt.Check(t, propText) }

func TestReplay(t *testing.T) {
	vt.Register(propPairs)
	vt.Register(propSets)
	vt.Register(propText)
	vt.Register(propFanout)
	vt.Replay(t)
}

// FuzzParseScope: native target (thorough): ParseScope agrees with the model on any string.
func FuzzParseScope(f *testing.F) {
	for _, s := range []string{"", "repository:foo:pull", "repository:foo:pull,push registry:catalog:*", "a:b", "::", "repository::pull", "x y z"} {
		f.Add(s)
	}
	f.Fuzz(func(t *testing.T, s string) {
		if v := vt.RunOne(propText, TextScript{TextA: s}); v.Failed() {
			t.Fatalf("%s", v.Failure())
		}
	})
}
