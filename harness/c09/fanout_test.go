package c09

// Several unions taken from ONE receiver value (a desired scope kept in a context and united with
// what each request needs): every result is the union it was when it was computed, whatever is
// computed from the same receiver afterwards - results do not share storage that a later union rewrites.

import (
	"fmt"
	"sort"
	"testing"

	"cuelabs.dev/go/oci/ociregistry/ociauth"
	"pgregory.net/rapid"

	"verif/harness/vt"
)

type FanoutScript struct {
	Base   []RS   `json:"base"`
	Others [][]RS `json:"others"` // united with the base one after the other
	Parsed bool   `json:"parsed"` // the base is built by ParseScope from its text
}

func runFanout(s FanoutScript, v *vt.V) {
	base := ociauth.NewScope(cp(s.Base)...)
	if s.Parsed {
		base = ociauth.ParseScope(base.Canonical().String())
	}
	wantBase := mkset(s.Base)
	var results []ociauth.Scope
	var wants []set
	for _, o := range s.Others {
		other := ociauth.NewScope(cp(o)...)
		results = append(results, base.Union(other))
		wants = append(wants, wantBase.union(mkset(o)))
		// every result so far, and the receiver, is still what it was
		for i, r := range results {
			got, _ := iterList(r)
			if fmt.Sprint(got) != fmt.Sprint(wants[i].sorted()) {
				v.Failf("union-result-rewritten", "base %v: the union with %v, computed as result %d, reads %v after %d further union(s) were taken from the same base; it was and should be %v", s.Base, s.Others[i], i, got, len(results)-1-i, wants[i].sorted())
				return
			}
			if r.Len() != len(wants[i]) {
				v.Failf("union-result-rewritten", "base %v: Len() of result %d is %d, want %d", s.Base, i, r.Len(), len(wants[i]))
				return
			}
		}
		if got, _ := iterList(base); fmt.Sprint(got) != fmt.Sprint(wantBase.sorted()) {
			v.Failf("operand-changed", "base %v reads %v after unions with %v", s.Base, got, s.Others[:len(results)])
			return
		}
	}
	v.Class("fanout/base=%d/others=%d", min(len(wantBase), 8), len(s.Others))
	if len(s.Others) > 1 {
		v.NonTrivial(fmt.Sprintf("%v|%v|%v", s.Base, s.Others, s.Parsed))
	}
}

var propFanout = &vt.Prop[FanoutScript]{
	ID:   "C09",
	Name: "UnionsFromOneReceiver",
	Rule: "a base scope of 0-8 repository entries (names that sort before, between and after the others', pull / push / both / an unknown action), built by NewScope or by ParseScope, is united with 2-4 other scopes (1-3 entries each) one after the other; oracle = after each union every earlier result, read member by member, is still the model's union and the base is unchanged; distinct = the script",
	Gen: func(t *rapid.T) FanoutScript {
		name := func(label string) string {
			return rapid.SampledFrom([]string{"a", "b", "c", "d", "e", "f", "g", "m", "x", "y", "z", "zz"}).Draw(t, label)
		}
		entry := func(label string) RS {
			return RS{ResourceType: "repository", Resource: name(label), Action: rapid.SampledFrom([]string{"pull", "pull", "push", "delete"}).Draw(t, label+"Action")}
		}
		var s FanoutScript
		for n := rapid.SampledFrom([]int{0, 1, 2, 3, 3, 4, 5, 6, 7, 8}).Draw(t, "nbase"); n > 0; n-- {
			s.Base = append(s.Base, entry("base"))
		}
		sort.Slice(s.Base, func(i, j int) bool { return cmp(s.Base[i], s.Base[j]) < 0 })
		for n := rapid.IntRange(2, 4).Draw(t, "nothers"); n > 0; n-- {
			var o []RS
			for k := rapid.IntRange(1, 3).Draw(t, "nentries"); k > 0; k-- {
				o = append(o, entry("other"))
			}
			s.Others = append(s.Others, o)
		}
		s.Parsed = rapid.Bool().Draw(t, "parsed")
		return s
	},
	Run: runFanout,
}

func TestPropFanout(t *testing.T) { propFanout.Scale = 5; vt.Check(t, propFanout) }
