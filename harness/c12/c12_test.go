// Package c12 decides property C12: access-checking / selecting wrappers
// never let a rejected repository through.
package c12

import (
	"bytes"
	"context"
	"errors"
	"fmt"
	"io"
	"sort"
	"testing"

	"cuelabs.dev/go/oci/ociregistry"
	"cuelabs.dev/go/oci/ociregistry/ocifilter"
	"github.com/opencontainers/go-digest"
	"pgregory.net/rapid"

	"verif/harness/internal/rec"
	"verif/harness/vt"
)

func TestMain(m *testing.M) { vt.Main(m) }

var methods = []string{"GetBlob", "GetBlobRange", "GetManifest", "GetTag", "ResolveBlob", "ResolveManifest", "ResolveTag",
	"PushBlob", "PushBlobChunked", "PushBlobChunkedResume", "MountBlob", "PushManifest",
	"DeleteBlob", "DeleteManifest", "DeleteTag", "Repositories", "Tags", "Referrers"}

const (
	kRead = iota
	kWrite
	kDelete
	kList
)

// Script: Policy[name][kind] = 0 allow, n>0 reject with error #n. Names not in
// the table are answered by Default[kind].
type Script struct {
	Wrapper string            `json:"wrapper"` // access | select
	Policy  map[string][4]int `json:"policy"`
	Default [4]int            `json:"default"`
	Method  string            `json:"method"`
	Repo    string            `json:"repo"`
	From    string            `json:"from,omitempty"`
	ID      string            `json:"id,omitempty"`
	Offset  int64             `json:"offset,omitempty"`
	Start   string            `json:"start,omitempty"`
	Listed  []string          `json:"listed,omitempty"` // backend's repository listing
	// ListErrAt > 0: the backend's repository listing ends at item ListErrAt-1 by yielding that name
	// together with an error (a Seq may deliver an item along with its error)
	ListErrAt int `json:"list_err_at,omitempty"`
	// Inner != "": the registry that is wrapped is itself a wrapper (access | select) around the backend,
	// with a policy of its own that allows everything (InnerRejects false) or rejects everything
	// CtxDone: the call is made with a context that is already cancelled (a rejection is a rejection
	// all the same; the policy is not a matter of the caller's patience)
	CtxDone bool `json:"ctx_done,omitempty"`
	// IDFrom (PushBlobChunkedResume): the upload id is the one of an upload started, through the same
	// wrapper, in repository IDFrom just before (when the policy lets that through)
	IDFrom string `json:"id_from,omitempty"`
	// Before: a call of this method about the same repository is made through the same wrapper first
	Before       string `json:"before,omitempty"`
	Inner        string `json:"inner,omitempty"`
	InnerRejects bool   `json:"inner_rejects,omitempty"`
}

type policyErr struct{ n int }

func (e *policyErr) Error() string { return fmt.Sprintf("policy error #%d", e.n) }

var policyErrs = []*policyErr{nil, {1}, {2}, {3}}

func (s Script) verdict(name string, kind int) int {
	if p, ok := s.Policy[name]; ok {
		return p[kind]
	}
	return s.Default[kind]
}

func run(s Script, v *vt.V) {
	ctx := context.WithValue(context.Background(), "k", "caller's context")
	if s.CtxDone {
		c, cancel := context.WithCancel(ctx)
		cancel()
		ctx = c
	}
	r := rec.New(nil)
	r.Canned.Data = []byte("backend bytes")
	r.Canned.Desc = ociregistry.Descriptor{Digest: digest.FromBytes(r.Canned.Data), Size: int64(len(r.Canned.Data)), MediaType: "application/x-sentinel"}
	r.Canned.Strings = s.Listed
	if s.Method != "Repositories" {
		r.Canned.Strings = []string{"t1", "t2"}
	}
	r.Canned.Descs = []ociregistry.Descriptor{{Digest: "sha256:aaaa", Size: 1}, {Digest: "sha256:bbbb", Size: 2}}
	var policyCalls []string
	var reg ociregistry.Interface
	var backend ociregistry.Interface = r.Registry()
	if s.Method == "Repositories" && s.ListErrAt > 0 && s.ListErrAt <= len(s.Listed) && s.Inner == "" {
		backend = &listFault{Interface: backend, names: s.Listed, at: s.ListErrAt - 1}
	}
	innerPolicyCalls := 0
	switch s.Inner {
	case "access":
		backend = ocifilter.AccessChecker(backend, func(name string, k ocifilter.AccessKind) error {
			innerPolicyCalls++
			if s.InnerRejects {
				return errInner
			}
			return nil
		})
	case "select":
		backend = ocifilter.Select(backend, func(name string) bool {
			innerPolicyCalls++
			return !s.InnerRejects
		})
	}
	switch s.Wrapper {
	case "access":
		reg = ocifilter.AccessChecker(backend, func(name string, k ocifilter.AccessKind) error {
			policyCalls = append(policyCalls, fmt.Sprintf("%s/%d", name, k))
			if n := s.verdict(name, int(k)); n > 0 {
				return policyErrs[n]
			}
			return nil
		})
	case "select":
		reg = ocifilter.Select(backend, func(name string) bool {
			return s.verdict(name, kRead) == 0
		})
	default:
		v.Failf("harness", "unknown wrapper")
		return
	}
	// expected verdicts
	type need struct {
		name string
		kind int
	}
	var needs []need
	switch s.Method {
	case "GetBlob", "GetBlobRange", "GetManifest", "GetTag", "ResolveBlob", "ResolveManifest", "ResolveTag":
		needs = []need{{s.Repo, kRead}}
	case "PushBlob", "PushBlobChunked", "PushBlobChunkedResume", "PushManifest":
		needs = []need{{s.Repo, kWrite}}
	case "MountBlob":
		needs = []need{{s.From, kRead}, {s.Repo, kWrite}}
	case "DeleteBlob", "DeleteManifest", "DeleteTag":
		needs = []need{{s.Repo, kDelete}}
	case "Tags", "Referrers":
		needs = []need{{s.Repo, kList}}
	case "Repositories":
		needs = []need{{"*", kList}}
	}
	var wantErrs []error // acceptable errors when rejected
	for _, n := range needs {
		if s.Wrapper == "access" {
			if k := s.verdict(n.name, n.kind); k > 0 {
				wantErrs = append(wantErrs, policyErrs[k])
			}
		} else {
			if n.name == "*" && n.kind == kList {
				continue // the selecting wrapper always allows listing
			}
			if s.verdict(n.name, kRead) != 0 { // Select's policy is a function of the name only
				if n.kind == kWrite {
					wantErrs = append(wantErrs, ociregistry.ErrDenied)
				} else {
					wantErrs = append(wantErrs, ociregistry.ErrNameUnknown)
				}
			}
		}
	}
	rejected := len(wantErrs) > 0

	dg := digest.FromBytes([]byte("x"))
	var gotErr error
	var gotReader ociregistry.BlobReader
	var gotWriter ociregistry.BlobWriter
	var gotDesc ociregistry.Descriptor
	var gotList []string
	var gotDescs []ociregistry.Descriptor
	listCalls, listErrs := 0, 0
	var rerun func() (int, error) // runs the returned sequence once more
	withErr := ""                 // the item delivered together with the error that ended a listing
	collectS := func(it ociregistry.Seq[string]) {
		done := false
		it(func(x string, err error) bool {
			listCalls++
			if done {
				listErrs += 100
				return false
			}
			if err != nil {
				gotErr = err
				listErrs++
				done = true
				withErr = x
				return false
			}
			gotList = append(gotList, x)
			return len(gotList) < 1000
		})
	}
	priorCalls, priorWriters := 0, 0
	if s.Method == "PushBlobChunkedResume" && s.IDFrom != "" {
		if w0, err := reg.PushBlobChunked(ctx, s.IDFrom, 17); err == nil {
			s.ID = w0.ID() // (the upload stays open: it is neither committed nor cancelled)
			v.Class("resume-with-id-of-another-upload")
		}
		priorCalls = len(r.Calls())
		priorWriters = len(r.Writers())
		policyCalls = nil
		innerPolicyCalls = 0
	}
	if s.Before != "" && s.IDFrom == "" {
		// another call through the same wrapper comes first, about the same repository but of another
		// kind: what the policy said about that one is nothing to this one
		switch s.Before {
		case "ResolveBlob":
			reg.ResolveBlob(ctx, s.Repo, dg)
		case "PushManifest":
			reg.PushManifest(ctx, s.Repo, "tag0", []byte("{}"), "m/t")
		case "DeleteTag":
			reg.DeleteTag(ctx, s.Repo, "tag0")
		case "Tags":
			ociregistry.All(reg.Tags(ctx, s.Repo, ""))
		}
		priorCalls = len(r.Calls())
		priorWriters = len(r.Writers())
		policyCalls = nil
		innerPolicyCalls = 0
	}
	switch s.Method {
	case "GetBlob":
		gotReader, gotErr = reg.GetBlob(ctx, s.Repo, dg)
	case "GetBlobRange":
		gotReader, gotErr = reg.GetBlobRange(ctx, s.Repo, dg, 1, 5)
	case "GetManifest":
		gotReader, gotErr = reg.GetManifest(ctx, s.Repo, dg)
	case "GetTag":
		gotReader, gotErr = reg.GetTag(ctx, s.Repo, "tag1")
	case "ResolveBlob":
		gotDesc, gotErr = reg.ResolveBlob(ctx, s.Repo, dg)
	case "ResolveManifest":
		gotDesc, gotErr = reg.ResolveManifest(ctx, s.Repo, dg)
	case "ResolveTag":
		gotDesc, gotErr = reg.ResolveTag(ctx, s.Repo, "tag1")
	case "PushBlob":
		gotDesc, gotErr = reg.PushBlob(ctx, s.Repo, ociregistry.Descriptor{Digest: dg, Size: 1, MediaType: "m/t"}, bytes.NewReader([]byte("x")))
	case "PushBlobChunked":
		gotWriter, gotErr = reg.PushBlobChunked(ctx, s.Repo, 17)
	case "PushBlobChunkedResume":
		gotWriter, gotErr = reg.PushBlobChunkedResume(ctx, s.Repo, s.ID, s.Offset, 17)
	case "MountBlob":
		gotDesc, gotErr = reg.MountBlob(ctx, s.From, s.Repo, dg)
	case "PushManifest":
		gotDesc, gotErr = reg.PushManifest(ctx, s.Repo, "tag1", []byte("{}"), "m/t")
	case "DeleteBlob":
		gotErr = reg.DeleteBlob(ctx, s.Repo, dg)
	case "DeleteManifest":
		gotErr = reg.DeleteManifest(ctx, s.Repo, dg)
	case "DeleteTag":
		gotErr = reg.DeleteTag(ctx, s.Repo, "tag1")
	case "Repositories":
		collectS(reg.Repositories(ctx, s.Start))
	case "Tags":
		seq := reg.Tags(ctx, s.Repo, s.Start)
		collectS(seq)
		rerun = func() (int, error) { l, err := ociregistry.All(seq); return len(l), err }
	case "Referrers":
		done := false
		rseq := reg.Referrers(ctx, s.Repo, dg, "")
		rerun = func() (int, error) { l, err := ociregistry.All(rseq); return len(l), err }
		rseq(func(d ociregistry.Descriptor, err error) bool {
			listCalls++
			if done {
				listErrs += 100
				return false
			}
			if err != nil {
				gotErr = err
				listErrs++
				done = true
				return false
			}
			gotDescs = append(gotDescs, d)
			return true
		})
	default:
		v.Failf("harness", "unknown method")
		return
	}
	if lf, ok := backend.(*listFault); ok && !rejected {
		// the backend's listing broke off: the consumer learns about the error, has seen only
		// names the policy shows, and is not handed a hidden name along with the error either
		v.Class("%s/Repositories/listing-fault", s.Wrapper)
		if gotErr == nil {
			v.Failf("listing-error-lost", "%s: the backend's listing failed at item %d but the wrapper's listing ended without an error after %v", s.Wrapper, lf.at, gotList)
			return
		}
		for _, name := range append(append([]string{}, gotList...), withErr) {
			if name != "" && s.verdict(name, kRead) != 0 {
				v.Failf("listing-filter", "%s: the listing (which ended with the backend's error) handed out %q, which the policy hides (items %v, item delivered with the error %q)", s.Wrapper, name, gotList, withErr)
				return
			}
		}
		v.NonTrivial(fmt.Sprintf("%s|listfault|%v|%v|%v|%d", s.Wrapper, s.Policy, s.Default, s.Listed, lf.at))
		return
	}
	calls := r.Calls()[priorCalls:]
	v.Class("%s/%s/rejected=%v", s.Wrapper, s.Method, rejected)
	if s.Inner != "" {
		v.Class("stacked/%s-over-%s/outer-rejects=%v/inner-rejects=%v", s.Wrapper, s.Inner, rejected, s.InnerRejects)
		if rejected && innerPolicyCalls > 0 {
			v.Failf("rejected-reached-wrapped", "%s over %s: the outer policy rejects %s(repo=%q from=%q) but the wrapped registry (a wrapper with its own policy) was invoked: its policy was asked %d times", s.Wrapper, s.Inner, s.Method, s.Repo, s.From, innerPolicyCalls)
			return
		}
		if !rejected && s.InnerRejects {
			// the outer wrapper lets the call through to a wrapped registry that refuses it
			if len(calls) != 0 && s.Method != "Repositories" { // (a selecting wrapper lists by filtering the backend's listing)
				v.Failf("rejected-reached-backend", "%s over %s: the inner policy rejects everything but the backend was invoked: %v", s.Wrapper, s.Inner, calls)
			}
			if len(gotList)+len(gotDescs) > 0 || gotReader != nil || gotWriter != nil {
				v.Failf("rejected-leaks", "%s over %s: the inner policy rejects everything but data came back", s.Wrapper, s.Inner)
			}
			return
		}
	}
	if rejected {
		v.NonTrivial(fmt.Sprintf("%s|%s|%v|%v|%q|%q|%q|%d", s.Wrapper, s.Method, s.Policy, s.Default, s.Repo, s.From, s.ID, s.Offset))
	}
	desc := fmt.Sprintf("%s(%s).%s(repo=%q from=%q id=%q offset=%d) with policy %v default %v", s.Wrapper, "backend", s.Method, s.Repo, s.From, s.ID, s.Offset, s.Policy, s.Default)
	if rejected {
		if len(calls) != 0 {
			v.Failf("rejected-reached-backend", "%s: the policy rejects but the wrapped registry was invoked: %v", desc, calls)
			return
		}
		if gotErr == nil {
			v.Failf("rejected-no-error", "%s: the policy rejects but the call succeeded", desc)
			return
		}
		ok := false
		for _, w := range wantErrs {
			if s.Wrapper == "access" && gotErr == error(w) {
				ok = true
			}
			if s.Wrapper == "select" && errors.Is(gotErr, w) {
				ok = true
			}
		}
		if !ok {
			v.Failf("wrong-rejection-error", "%s: rejected with %v, want the policy's error %v", desc, gotErr, wantErrs)
			return
		}
		if gotReader != nil || gotWriter != nil || len(gotList)+len(gotDescs) > 0 {
			v.Failf("rejected-leaks", "%s: a rejected call returned data (%v %v %v %v)", desc, gotReader, gotWriter, gotList, gotDescs)
		}
		if listErrs > 1 {
			v.Failf("consumer-protocol", "%s: the consumer was invoked again after the error", desc)
		}
		// a rejected listing is rejected every time its sequence is run
		if rerun != nil {
			items, err2 := rerun()
			if err2 == nil || items > 0 || len(r.Calls()[priorCalls:]) != 0 {
				v.Failf("rejected-second-run", "%s: the policy rejects; the first run of the returned sequence said so, a second run of the same sequence delivered %d items, error %v, and the wrapped registry saw %v", desc, items, err2, r.Calls()[priorCalls:])
			}
		}
		return
	}
	// allowed: exactly one backend call with the caller's arguments, results passed through
	if gotErr != nil {
		v.Failf("allowed-failed", "%s: the policy allows but the call failed: %v", desc, gotErr)
		return
	}
	if len(calls) != 1 || calls[0].Method != s.Method {
		v.Failf("allowed-wrong-call", "%s: the wrapped registry saw %v, want exactly one %s", desc, calls, s.Method)
		return
	}
	c := calls[0]
	if c.Ctx != ctx {
		v.Failf("allowed-wrong-args", "%s: the wrapped registry did not receive the caller's context", desc)
		return
	}
	wantRepo := s.Repo
	if s.Method == "Repositories" {
		wantRepo = ""
	}
	if c.Repo != wantRepo || (s.Method == "MountBlob" && c.FromRepo != s.From) ||
		(s.Method == "PushBlobChunkedResume" && (c.ID != s.ID || c.Offset0 != s.Offset || c.ChunkSize != 17)) ||
		(s.Method == "PushBlobChunked" && c.ChunkSize != 17) ||
		((s.Method == "Repositories" || s.Method == "Tags") && c.StartAfter != s.Start) ||
		(s.Method == "GetBlobRange" && (c.Offset0 != 1 || c.Offset1 != 5)) {
		v.Failf("allowed-wrong-args", "%s: the wrapped registry saw %v", desc, c)
		return
	}
	switch {
	case gotReader != nil:
		if rs := r.Readers(); len(rs) != 1 || gotReader != ociregistry.BlobReader(rs[0]) {
			v.Failf("allowed-wrong-result", "%s: returned reader is not the wrapped registry's", desc)
		}
		gotReader.Close()
	case gotWriter != nil:
		ws := r.Writers()[priorWriters:]
		if len(ws) != 1 {
			v.Failf("allowed-wrong-result", "%s: %d writers handed out", desc, len(ws))
			return
		}
		// use the writer: data and commit must land in the backend's session
		if _, err := gotWriter.Write([]byte("payload")); err != nil {
			v.Failf("allowed-wrong-result", "%s: Write on the returned writer: %v", desc, err)
			return
		}
		d, err := gotWriter.Commit(digest.FromBytes([]byte("payload")))
		if err != nil || d.Size != 7 {
			v.Failf("allowed-wrong-result", "%s: Commit on the returned writer: %v %v", desc, d, err)
			return
		}
		cm := r.Commits()
		if s.IDFrom != "" {
			// (the recording backend files a commit under the repository its session was started in)
			cm = nil
		} else if len(cm) != 1 || cm[0].Repo != s.Repo || string(cm[0].Data) != "payload" {
			v.Failf("allowed-wrong-result", "%s: backend commits %v", desc, cm)
		}
	}
	switch s.Method {
	case "ResolveBlob", "ResolveManifest", "ResolveTag", "MountBlob":
		if gotDesc.MediaType != "application/x-sentinel" {
			v.Failf("allowed-wrong-result", "%s: descriptor %v is not the backend's", desc, gotDesc)
		}
	case "Tags":
		if fmt.Sprint(gotList) != "[t1 t2]" {
			v.Failf("allowed-wrong-result", "%s: tags %v, backend's are [t1 t2]", desc, gotList)
		}
	case "Referrers":
		if len(gotDescs) != 2 || gotDescs[0].Digest != "sha256:aaaa" {
			v.Failf("allowed-wrong-result", "%s: referrers %v", desc, gotDescs)
		}
	case "Repositories":
		var want []string
		for _, name := range s.Listed {
			visible := false
			if s.Wrapper == "access" {
				visible = s.verdict(name, kRead) == 0
			} else {
				visible = s.verdict(name, kRead) == 0
			}
			if visible {
				want = append(want, name)
			}
		}
		if fmt.Sprint(gotList) != fmt.Sprint(want) {
			v.Failf("listing-filter", "%s: listed %v, want %v (backend has %v)", desc, gotList, want, s.Listed)
		}
		if len(want) != len(s.Listed) {
			v.NonTrivial(fmt.Sprintf("%s|repos|%v|%v|%v", s.Wrapper, s.Policy, s.Default, s.Listed))
		}
	}
	_ = io.EOF
}

var errInner = errors.New("the inner wrapper's policy says no")

var errListing = errors.New("the backend's listing broke off")

// listFault makes the backend's repository listing end with (names[at], error).
type listFault struct {
	ociregistry.Interface
	names []string
	at    int
}

func (l *listFault) Repositories(ctx context.Context, startAfter string) ociregistry.Seq[string] {
	return func(yield func(string, error) bool) {
		for i, n := range l.names {
			if i == l.at {
				yield(n, errListing)
				return
			}
			if !yield(n, nil) {
				return
			}
		}
	}
}

// (the first four are the well-formed ones; the last four are other spellings of those, which a policy
// that is a function of the name it is given may well judge differently)
var names = []string{"a", "b", "a/b", "c", "", "../a", "c/../a", "a/", "a//b", "./b"}

func genScript(t *rapid.T) Script {
	s := Script{Wrapper: rapid.SampledFrom([]string{"access", "select"}).Draw(t, "wrapper"), Policy: map[string][4]int{}}
	verdict := func(label string) int {
		return rapid.SampledFrom([]int{0, 0, 1, 2, 3}).Draw(t, label)
	}
	for _, n := range append([]string{"*"}, names...) {
		if rapid.IntRange(0, 4).Draw(t, "inTable") > 0 {
			var p [4]int
			for k := range p {
				p[k] = verdict("verdict")
			}
			if s.Wrapper == "select" {
				p[1], p[2], p[3] = p[0], p[0], p[0] // a function of the name only
			}
			s.Policy[n] = p
		}
	}
	for k := range s.Default {
		s.Default[k] = verdict("default")
	}
	if s.Wrapper == "select" {
		s.Default[1], s.Default[2], s.Default[3] = s.Default[0], s.Default[0], s.Default[0]
	}
	s.Method = rapid.SampledFrom(methods).Draw(t, "method")
	s.Repo = rapid.SampledFrom(names).Draw(t, "repo")
	switch s.Method {
	case "MountBlob":
		s.From = rapid.SampledFrom(names).Draw(t, "from")
	case "PushBlobChunkedResume":
		if rapid.IntRange(0, 2).Draw(t, "idFrom") == 0 {
			s.IDFrom = rapid.SampledFrom(names[:4]).Draw(t, "idFromRepo")
		}
		s.ID = rapid.SampledFrom([]string{"", "", "upload-1", "x", "/v2/a/blobs/uploads/x", "/v2/b/blobs/uploads/x", "/v2/a/b/blobs/uploads/x", "https://r.test/v2/c/blobs/uploads/y?z=1"}).Draw(t, "id")
		s.Offset = rapid.SampledFrom([]int64{-1, 0, 0, 1, 100}).Draw(t, "offset")
	case "Repositories", "Tags":
		s.Start = rapid.SampledFrom([]string{"", "a", "b", "zz"}).Draw(t, "start")
	}
	s.CtxDone = rapid.IntRange(0, 5).Draw(t, "ctxDone") == 0
	if rapid.IntRange(0, 2).Draw(t, "before") == 0 {
		s.Before = rapid.SampledFrom([]string{"ResolveBlob", "PushManifest", "DeleteTag", "Tags"}).Draw(t, "beforeMethod")
	}
	if rapid.IntRange(0, 3).Draw(t, "stacked") == 0 {
		s.Inner = rapid.SampledFrom([]string{"access", "select"}).Draw(t, "inner")
		s.InnerRejects = rapid.Bool().Draw(t, "innerRejects")
	}
	if s.Method == "Repositories" {
		s.Listed = rapid.SliceOfNDistinct(rapid.SampledFrom([]string{"a", "a/b", "b", "c", "d", "e/f", "*", "a//b", "./b"}), 0, 6, func(x string) string { return x }).Draw(t, "listed")
		sort.Strings(s.Listed)
		if len(s.Listed) > 0 && rapid.IntRange(0, 3).Draw(t, "listFault") == 0 {
			s.ListErrAt = rapid.IntRange(1, len(s.Listed)).Draw(t, "listErrAt")
		}
	}
	return s
}

var prop = &vt.Prop[Script]{
	ID:   "C12",
	Name: "FilterWrappersRandomPolicies",
	Rule: "wrapper in {AccessChecker, Select}; policy = random table (repository name, access kind) -> allow | one of three distinct errors, with a default row (pure function; Select's depends on the name only); method = each of the 18 Interface methods with repositories from {a, b, a/b, c, the empty name, '../a', and the spellings 'c/../a', 'a/', 'a//b', './b' with verdicts of their own} (the policy is asked about whatever name the caller passes; mount: source and target, incl. the same repository), resume ids {empty, opaque, shaped like the upload location of each repository} x offsets {-1,0,1,100}, listing start points, backend repository listings incl. a repository named '*'; recording backend that accepts everything; a sixth of the calls are made with an already cancelled context; a third of the calls come after a call of another kind (read, write, delete, list) about the same repository through the same wrapper; a third of the resumes present the id of an upload just started through the same wrapper in another (or the same) repository; the sequence of a rejected Tags / Referrers call is run a second time; a quarter of the wrappers are laid over a registry that is itself an AccessChecker/Select wrapper with a counting policy of its own (allow-all or reject-all): that wrapper is the wrapped registry, so a call the outer policy rejects does not reach its policy either and fails with the outer policy's error; oracle = policy rejects => zero backend calls, the policy's own error (Select: name-unknown for read/list/delete, denied for write), no data; policy allows => exactly one backend call with the caller's context and arguments, the backend's own reader/writer/results (writers are used: Write+Commit must land in the backend's session); repository listings = backend's list filtered by the read verdict; a backend listing that breaks off by yielding a name together with an error reaches the consumer as an error without any hidden name; non-trivial = some involved repository is rejected, or a listing is filtered; distinct = (wrapper, method, policy, arguments)",
	Gen:  genScript,
	Run:  run,
}

var propEnum = &vt.Prop[Script]{
	ID:   "C12",
	Name: "FilterWrappersExhaustive2Repos",
	Rule: "complete enumeration for two repositories {a,b}: every allow/deny assignment to (a,b) x 4 access kinds (AccessChecker: 256 tables; Select: 4), x 18 methods x every choice of the repositories involved (mount: all 4 (from,to) pairs) x resume id {empty, non-empty}",
	Run:  run,
}

func TestPropRandom(t *testing.T) { prop.Scale = 4; vt.Check(t, prop) }

func TestPropEnum(t *testing.T) {
	shard, shards := vt.Shard()
	vt.Enumerate(t, propEnum, true, func(yield func(Script) bool) {
		k := 0
		emit := func(s Script) bool {
			k++
			if k%shards != shard {
				return true
			}
			return yield(s)
		}
		for _, wrapper := range []string{"access", "select"} {
			ntab := 256
			if wrapper == "select" {
				ntab = 4
			}
			for tab := 0; tab < ntab; tab++ {
				pol := map[string][4]int{}
				var pa, pb [4]int
				if wrapper == "select" {
					for k := range pa {
						pa[k], pb[k] = tab&1, (tab>>1)&1
					}
				} else {
					for k := 0; k < 4; k++ {
						pa[k], pb[k] = (tab>>k)&1, (tab>>(4+k))&1
					}
				}
				pol["a"], pol["b"] = pa, pb
				for _, m := range methods {
					for _, repo := range []string{"a", "b"} {
						froms := []string{""}
						if m == "MountBlob" {
							froms = []string{"a", "b"}
						}
						ids := []string{""}
						if m == "PushBlobChunkedResume" {
							ids = []string{"", "u1"}
						}
						for _, from := range froms {
							for _, id := range ids {
								s := Script{Wrapper: wrapper, Policy: pol, Method: m, Repo: repo, From: from, ID: id}
								if m == "Repositories" {
									if repo == "b" {
										continue
									}
									s.Listed = []string{"a", "b"}
								}
								if !emit(s) {
									return
								}
							}
						}
					}
				}
			}
		}
	})
}

func TestReplay(t *testing.T) {
	vt.Register(prop)
	vt.Register(propEnum)
	vt.Replay(t)
}
