// Package c13 decides property C13: a sub-registry view is confined to its
// prefix and equals the underlying registry restricted to it.
package c13

import (
	"bytes"
	"context"
	"fmt"
	"io"
	"sort"
	"strings"
	"testing"

	"cuelabs.dev/go/oci/ociregistry"
	"cuelabs.dev/go/oci/ociregistry/ociauth"
	"cuelabs.dev/go/oci/ociregistry/ocifilter"
	"cuelabs.dev/go/oci/ociregistry/ocimem"
	"github.com/opencontainers/go-digest"
	"pgregory.net/rapid"

	"verif/harness/internal/gen"
	"verif/harness/internal/hist"
	"verif/harness/internal/ops"
	"verif/harness/internal/rec"
	"verif/harness/vt"
)

func TestMain(m *testing.M) { vt.Main(m) }

// ---- (a)+(c): what the underlying registry receives, for every method ----

type RelayScript struct {
	Prefix string   `json:"prefix"`
	Method string   `json:"method"`
	Repo   string   `json:"repo"`
	From   string   `json:"from,omitempty"`
	Start  string   `json:"start,omitempty"`
	Scopes []string `json:"scopes,omitempty"` // "type:resource:action"
	Nested bool     `json:"nested,omitempty"` // the view is built as a view of a view
	Listed []string `json:"listed,omitempty"` // backend's repository listing
	O0     int64    `json:"o0,omitempty"`     // GetBlobRange offsets (0,0 stands for 1,3)
	O1     int64    `json:"o1,omitempty"`
	Again  int      `json:"again,omitempty"` // the same call is made this many more times with the same context
	// Earlier: scopes of a call another caller made through the same view before this one ("fold|text"
	// stands for a scope whose resource type alone is that text - it prints like the well-formed one)
	Earlier []string `json:"earlier,omitempty"`
}

var methods = []string{"GetBlob", "GetBlobRange", "GetManifest", "GetTag", "ResolveBlob", "ResolveManifest", "ResolveTag",
	"PushBlob", "PushBlobChunked", "PushBlobChunkedResume", "MountBlob", "PushManifest",
	"DeleteBlob", "DeleteManifest", "DeleteTag", "Repositories", "Tags", "Referrers"}

func parseRS(s string) ociauth.ResourceScope {
	p := strings.SplitN(s, ":", 3)
	for len(p) < 3 {
		p = append(p, "")
	}
	return ociauth.ResourceScope{ResourceType: p[0], Resource: p[1], Action: p[2]}
}

// subOf builds the view for prefix: directly, or (nested) as a view of a view, which must be the
// same thing: Sub(Sub(r, "a"), "b") shows what lies under a/b.
func subOf(r ociregistry.Interface, prefix string, nested bool) ociregistry.Interface {
	if first, rest, ok := strings.Cut(prefix, "/"); ok && nested {
		return ocifilter.Sub(ocifilter.Sub(r, first), rest)
	}
	return ocifilter.Sub(r, prefix)
}

func runRelay(s RelayScript, v *vt.V) {
	r := rec.New(nil)
	r.Canned.Data = []byte("data")
	r.Canned.Strings = s.Listed
	if s.Method != "Repositories" {
		r.Canned.Strings = []string{"t1"}
	}
	sub := subOf(r.Registry(), s.Prefix, s.Nested)
	var rss []ociauth.ResourceScope
	for _, sc := range s.Scopes {
		rss = append(rss, parseRS(sc))
	}
	ctx := context.Background()
	unlimited := false
	for _, sc := range s.Scopes {
		unlimited = unlimited || sc == "unlimited"
	}
	if unlimited {
		// the scope that contains everything: there is nothing to rewrite, it stays what it is
		ctx = ociauth.ContextWithScope(ctx, ociauth.UnlimitedScope())
	} else if len(rss) > 0 {
		ctx = ociauth.ContextWithScope(ctx, ociauth.NewScope(append([]ociauth.ResourceScope(nil), rss...)...)) // NewScope sorts and compacts its argument in place
	}
	dg := digest.FromBytes([]byte("x"))
	if len(s.Earlier) > 0 {
		// what one caller's context held is nothing to the next caller of the same view
		var ers []ociauth.ResourceScope
		for _, sc := range s.Earlier {
			if text, ok := strings.CutPrefix(sc, "fold|"); ok {
				ers = append(ers, ociauth.ResourceScope{ResourceType: text})
			} else {
				ers = append(ers, parseRS(sc))
			}
		}
		sub.ResolveBlob(ociauth.ContextWithScope(context.Background(), ociauth.NewScope(ers...)), "x", dg)
		r.Reset()
	}
	var gotList []string
	var callerScope ociauth.Scope
	if len(rss) > 0 || unlimited {
		callerScope = ociauth.ScopeFromContext(ctx)
	}
	callerBefore := scopeText(callerScope)
	bad := false
	invoke := func() {
		switch s.Method {
		case "GetBlob":
			closeR(sub.GetBlob(ctx, s.Repo, dg))
		case "GetBlobRange":
			o0, o1 := s.O0, s.O1
			if o0 == 0 && o1 == 0 {
				o0, o1 = 1, 3
			}
			closeR(sub.GetBlobRange(ctx, s.Repo, dg, o0, o1))
		case "GetManifest":
			closeR(sub.GetManifest(ctx, s.Repo, dg))
		case "GetTag":
			closeR(sub.GetTag(ctx, s.Repo, "t"))
		case "ResolveBlob":
			sub.ResolveBlob(ctx, s.Repo, dg)
		case "ResolveManifest":
			sub.ResolveManifest(ctx, s.Repo, dg)
		case "ResolveTag":
			sub.ResolveTag(ctx, s.Repo, "t")
		case "PushBlob":
			sub.PushBlob(ctx, s.Repo, ociregistry.Descriptor{Digest: dg, Size: 1, MediaType: "m/t"}, bytes.NewReader([]byte("x")))
		case "PushBlobChunked":
			if w, err := sub.PushBlobChunked(ctx, s.Repo, 0); err == nil {
				w.Close()
			}
		case "PushBlobChunkedResume":
			if w, err := sub.PushBlobChunkedResume(ctx, s.Repo, "id1", 0, 0); err == nil {
				w.Close()
			}
		case "MountBlob":
			sub.MountBlob(ctx, s.From, s.Repo, dg)
		case "PushManifest":
			sub.PushManifest(ctx, s.Repo, "t", []byte("{}"), "m/t")
		case "DeleteBlob":
			sub.DeleteBlob(ctx, s.Repo, dg)
		case "DeleteManifest":
			sub.DeleteManifest(ctx, s.Repo, dg)
		case "DeleteTag":
			sub.DeleteTag(ctx, s.Repo, "t")
		case "Repositories":
			gotList, _ = ociregistry.All(sub.Repositories(ctx, s.Start))
		case "Tags":
			ociregistry.All(sub.Tags(ctx, s.Repo, s.Start))
		case "Referrers":
			ociregistry.All(sub.Referrers(ctx, s.Repo, dg, ""))
		default:
			bad = true
		}
	}
	invoke()
	if bad {
		v.Failf("harness", "unknown method")
		return
	}
	calls := r.Calls()
	desc := fmt.Sprintf("Sub(r,%q).%s(repo=%q from=%q start=%q scopes=%v)", s.Prefix, s.Method, s.Repo, s.From, s.Start, s.Scopes)
	hostile := !validRepo(s.Repo) || (s.Method == "MountBlob" && !validRepo(s.From))
	v.Class("%s/hostile=%v/scopes=%v", s.Method, hostile, len(s.Scopes) > 0)
	if hostile || s.Start != "" || strings.HasPrefix(s.Repo, s.Prefix) {
		v.NonTrivial(fmt.Sprintf("%s|%s|%q|%q|%q", s.Prefix, s.Method, s.Repo, s.From, s.Start))
	}
	// (reading the whole blob through the range call may be passed on as a plain GetBlob)
	wholeBlob := s.Method == "GetBlobRange" && s.O0 == 0 && s.O1 < 0 && len(calls) == 1 && calls[0].Method == "GetBlob"
	if len(calls) != 1 || calls[0].Method != s.Method && !wholeBlob {
		v.Failf("wrong-call", "%s: the underlying registry saw %v", desc, calls)
		return
	}
	c := calls[0]
	mapped := func(n string) string {
		if n == "" {
			return ""
		}
		return s.Prefix + "/" + n
	}
	check := func(what, got, caller string) bool {
		if validRepo(caller) {
			if got != s.Prefix+"/"+caller {
				v.Failf("wrong-name", "%s: underlying registry received %s %q, want %q", desc, what, got, s.Prefix+"/"+caller)
				return false
			}
			return true
		}
		// malformed caller name: whatever arrives must not name a place outside the prefix
		if got != "" && !strings.HasPrefix(got, s.Prefix+"/") {
			v.Failf("escapes-prefix", "%s: underlying registry received %s %q, which is not below %q", desc, what, got, s.Prefix+"/")
			return false
		}
		if got != mapped(caller) {
			// (informational class: the view rewrote a malformed name)
			v.Class("malformed-name-rewritten")
		}
		// (A name with dot segments is passed on verbatim below the prefix: registries
		// treat names as opaque strings and reject or do not find it; the differential
		// check below demonstrates that nothing outside is reached or changed.)
		return true
	}
	if s.Method != "Repositories" && !check("repository", c.Repo, s.Repo) {
		return
	}
	if s.Method == "MountBlob" && !check("source repository", c.FromRepo, s.From) {
		return
	}
	if s.Method == "GetBlobRange" {
		o0, o1 := s.O0, s.O1
		if o0 == 0 && o1 == 0 {
			o0, o1 = 1, 3
		}
		if !wholeBlob && (c.Offset0 != o0 || c.Offset1 != o1) {
			v.Failf("wrong-range", "%s: range %d..%d arrived as %d..%d", desc, o0, o1, c.Offset0, c.Offset1)
			return
		}
	}
	if s.Method == "Tags" && c.StartAfter != s.Start {
		v.Failf("wrong-start", "%s: tags start point %q, want %q", desc, c.StartAfter, s.Start)
		return
	}
	if s.Method == "Repositories" {
		wantStart := ""
		if s.Start != "" {
			wantStart = s.Prefix + "/" + s.Start
		}
		// any start point that yields the same restricted listing is acceptable; the exact one is checked by the differential.
		_ = wantStart
		var want []string
		for _, n := range s.Listed {
			if rest, ok := strings.CutPrefix(n, s.Prefix+"/"); ok {
				want = append(want, rest)
			}
		}
		if fmt.Sprint(gotList) != fmt.Sprint(want) {
			v.Failf("wrong-listing", "%s: backend listed %v; view shows %v, want %v", desc, s.Listed, gotList, want)
			return
		}
	}
	// scopes: repository resources prefixed, everything else untouched
	got := ociauth.ScopeFromContext(c.Ctx)
	var wantRS []ociauth.ResourceScope
	for _, rs := range rss {
		if rs.ResourceType == ociauth.TypeRepository {
			rs.Resource = mapped(rs.Resource)
		}
		wantRS = append(wantRS, rs)
	}
	want := ociauth.NewScope(wantRS...)
	if unlimited {
		want = ociauth.UnlimitedScope()
	}
	if !got.Equal(want) || got.IsUnlimited() != want.IsUnlimited() {
		v.Failf("wrong-scope", "%s: context scope at the underlying registry is %q, want %q", desc, got.Canonical().String(), want.Canonical().String())
		return
	}
	// the view is a function of its arguments: the caller's own scope value is what it was, and making
	// the same call again with the same context puts the same call to the underlying registry
	if now := scopeText(callerScope); now != callerBefore {
		v.Failf("caller-scope-changed", "%s: the scope in the caller's context was %s before the call and is %s after it", desc, callerBefore, now)
		return
	}
	for i := 0; i < s.Again; i++ {
		invoke()
		calls := r.Calls()
		if len(calls) != i+2 {
			v.Failf("wrong-call", "%s: repeat %d: the underlying registry saw %d calls", desc, i+1, len(calls))
			return
		}
		ci := calls[i+1]
		if ci.Method != c.Method || ci.Repo != c.Repo || ci.FromRepo != c.FromRepo || ci.StartAfter != c.StartAfter {
			v.Failf("not-repeatable", "%s: repeat %d reached the underlying registry as %s(repo=%q from=%q start=%q); the first time it was %s(repo=%q from=%q start=%q)", desc, i+1, ci.Method, ci.Repo, ci.FromRepo, ci.StartAfter, c.Method, c.Repo, c.FromRepo, c.StartAfter)
			return
		}
		if g := ociauth.ScopeFromContext(ci.Ctx); !g.Equal(want) || g.IsUnlimited() != want.IsUnlimited() {
			v.Failf("wrong-scope", "%s: repeat %d with the same context: scope at the underlying registry is %q, want %q", desc, i+1, g.Canonical().String(), want.Canonical().String())
			return
		}
		if now := scopeText(callerScope); now != callerBefore {
			v.Failf("caller-scope-changed", "%s: the scope in the caller's context was %s and is %s after %d calls", desc, callerBefore, now, i+2)
			return
		}
	}
}

// scopeText lists the members of a scope one by one (not through its cached string form).
func scopeText(s ociauth.Scope) string {
	var b strings.Builder
	fmt.Fprintf(&b, "[unlimited=%v", s.IsUnlimited())
	s.Iter()(func(rs ociauth.ResourceScope) bool {
		fmt.Fprintf(&b, " %s:%s:%s", rs.ResourceType, rs.Resource, rs.Action)
		return true
	})
	return b.String() + "]"
}

func closeR(r ociregistry.BlobReader, err error) {
	if err == nil {
		r.Close()
	}
}

func validRepo(n string) bool { return ociregistry.IsValidRepoName(n) }

func genRelay(t *rapid.T) RelayScript {
	var s RelayScript
	s.Prefix = rapid.SampledFrom([]string{"p", "foo", "foo/bar", "a/b/c", "blobs", "x1/uploads"}).Draw(t, "prefix")
	s.Method = rapid.SampledFrom(methods).Draw(t, "method")
	name := func(label string) string {
		switch rapid.IntRange(0, 3).Draw(t, label+"Kind") {
		case 0:
			return gen.HostileRepo().Draw(t, label)
		case 1:
			return rapid.SampledFrom([]string{"../other", "..", "x/../../other", "../" + s.Prefix + "ey", "./x", "x/..", "/abs", "", s.Prefix, s.Prefix + "/x"}).Draw(t, label)
		}
		return gen.Repo().Draw(t, label)
	}
	s.Repo = name("repo")
	if s.Method == "MountBlob" {
		s.From = name("from")
	}
	if s.Method == "Tags" || s.Method == "Repositories" {
		s.Start = rapid.SampledFrom([]string{"", "", "a", "x/y", "zz", "../x", s.Prefix}).Draw(t, "start")
	}
	for n := rapid.IntRange(0, 3).Draw(t, "nscopes"); n > 0; n-- {
		s.Scopes = append(s.Scopes, rapid.SampledFrom([]string{"repository:a:pull", "repository:a:push", "repository:a/b:pull", "repository:x:delete", "registry:catalog:*", "other:thing:act", "repository::pull", "opaque", "unlimited",
			// repositories of the view whose own names look like the prefix
			"repository:" + s.Prefix + ":pull", "repository:" + s.Prefix + "/x:pull", "repository:" + s.Prefix + "/" + s.Prefix + ":push", "repository:" + s.Prefix + "ey:pull", "other:" + s.Prefix + "/x:pull"}).Draw(t, "scope"))
	}
	if len(s.Scopes) > 0 && rapid.IntRange(0, 2).Draw(t, "earlier") == 0 {
		for _, sc := range s.Scopes {
			switch rapid.IntRange(0, 3).Draw(t, "earlierKind") {
			case 0:
				s.Earlier = append(s.Earlier, "fold|"+sc)
			case 1:
				s.Earlier = append(s.Earlier, sc+",push")
			case 2:
				s.Earlier = append(s.Earlier, sc)
			}
		}
	}
	s.Nested = rapid.IntRange(0, 3).Draw(t, "nested") == 0
	s.Again = rapid.SampledFrom([]int{0, 0, 1, 2}).Draw(t, "again")
	if s.Method == "GetBlobRange" {
		r := rapid.SampledFrom([][2]int64{{0, 0}, {0, -1}, {0, -5}, {0, 5}, {2, -1}, {0, 1}}).Draw(t, "range")
		s.O0, s.O1 = r[0], r[1]
	}
	if s.Method == "Repositories" {
		p := s.Prefix
		pool := []string{p, p + "/a", p + "/a/b", p + "/z", p + "ey/x", p + "-tools", p + ".d/x", "other", "a", p + "0", "zz/" + p + "/a"}
		s.Listed = rapid.SliceOfNDistinct(rapid.SampledFrom(pool), 0, 8, func(x string) string { return x }).Draw(t, "listed")
		sort.Strings(s.Listed)
		s.Start = "" // the canned backend does not implement start points; the differential covers them
	}
	return s
}

var propRelay = &vt.Prop[RelayScript]{
	ID:   "C13",
	Name: "SubRelay",
	Rule: "Sub(recorder, prefix) with prefixes of 1-3 elements (incl. routing words), a quarter of them built as a view of a view; each of the 18 methods (GetBlobRange with whole-blob, open-ended and bounded ranges); caller repository names from the valid grammar and from hostile generators (empty, '.', '..', '../other', 'x/../../other', leading/trailing/double slashes, upper case, NUL, UTF-8, names equal to or starting with the prefix); 0-3 context scopes (repository pull/push/unknown action, registry:catalog:*, other types, empty repository, opaque, repositories whose own name equals or starts with the prefix, the unlimited scope); oracle = exactly one underlying call; a well-formed name n arrives as prefix/n; whatever arrives for a malformed name is empty or literally below prefix/ and does not resolve (dot segments) outside it; the context scope at the underlying registry equals the caller's with repository resources prefixed and nothing else changed; Repositories shows exactly the stripped names under prefix/; a third of the scoped calls come after another caller's call through the same view whose scopes print like this caller's (the whole text as a resource type, an action list with a comma); half of the calls are then repeated once or twice with the same context: the same call with the same scope reaches the underlying registry each time and the scope value in the caller's context is member for member what it was; non-trivial = hostile name, start point, or name sharing the prefix text; distinct = (prefix, method, names, start)",
	Gen:  genRelay,
	Run:  runRelay,
}

// ---- (b)+(frame): differential histories ----

type DiffScript struct {
	Nested bool        `json:"nested,omitempty"`
	Prefix string      `json:"prefix"`
	Hist   hist.Script `json:"hist"`
}

func snapshotOutside(ctx context.Context, m *ocimem.Registry, names []string, dgs []digest.Digest) string {
	var b strings.Builder
	for _, n := range names {
		for _, d := range dgs {
			if r, err := m.GetBlob(ctx, n, d); err == nil {
				data, _ := io.ReadAll(r)
				fmt.Fprintf(&b, "%s blob %s %d\n", n, d, len(data))
			}
			if r, err := m.GetManifest(ctx, n, d); err == nil {
				data, _ := io.ReadAll(r)
				fmt.Fprintf(&b, "%s manifest %s %d\n", n, d, len(data))
			}
		}
		tags, err := ociregistry.All(m.Tags(ctx, n, ""))
		fmt.Fprintf(&b, "%s tags %v %v\n", n, tags, err != nil)
	}
	repos, _ := ociregistry.All(m.Repositories(ctx, ""))
	var outside []string
	for _, r := range repos {
		outside = append(outside, r)
	}
	fmt.Fprintf(&b, "repos %v\n", outside)
	return b.String()
}

func runDiff(s DiffScript, v *vt.V) {
	ctx := context.Background()
	u := &s.Hist.U
	cfg := &ocimem.Config{ImmutableTags: s.Hist.Immutable}
	memA, memB := ocimem.NewWithConfig(cfg), ocimem.NewWithConfig(cfg)
	p := s.Prefix
	// content outside the prefix that the view must neither show nor touch
	secret := []byte("content that exists only outside the prefix")
	sd := digest.FromBytes(secret)
	outsideNames := []string{"other", p + "ey/x", p, p + "-tools", "zz"}
	for _, n := range outsideNames {
		if !ociregistry.IsValidRepoName(n) {
			continue
		}
		memA.PushBlob(ctx, n, ociregistry.Descriptor{MediaType: "application/octet-stream", Digest: sd, Size: int64(len(secret))}, bytes.NewReader(secret))
		memA.PushManifest(ctx, n, "latest", secret, "application/vnd.verif.opaque")
		// blobs of the universe too, so that a leak of a universe digest is visible as well
		for i := range u.Blobs {
			b := u.BlobBytes(i)
			memA.PushBlob(ctx, n, ociregistry.Descriptor{MediaType: "application/octet-stream", Digest: digest.FromBytes(b), Size: int64(len(b))}, bytes.NewReader(b))
		}
	}
	var dgs []digest.Digest
	dgs = append(dgs, sd)
	for i := range u.Blobs {
		dgs = append(dgs, u.BlobDigest(i))
	}
	for i := range u.Manifests {
		dgs = append(dgs, u.ManDigest(i))
	}
	before := snapshotOutside(ctx, memA, outsideNames, dgs)
	view := subOf(memA, p, s.Nested)
	envA, envB := ops.NewEnv(u, view), ops.NewEnv(u, memB)
	defer envA.CloseAll()
	defer envB.CloseAll()
	hostile := false
	for i, op := range s.Hist.Ops {
		a, b := envA.Exec(op), envB.Exec(op)
		a.ID, b.ID = "", ""
		if op.K == "upCommit" {
			a.ID, b.ID = "", ""
		}
		if op.K == "repos" {
			// the restricted registry B has no notion of the prefix; A's listing is already stripped
		}
		if why := diffOut(a, b); why != "" {
			name := "?"
			if op.R < len(u.Repos) {
				name = u.Repos[op.R]
			}
			v.Failf("", "op %d %+v (repository %q) through Sub(mem,%q) vs the restricted registry: %s", i, op, name, p, why)
			return
		}
		if op.R < len(u.Repos) && !ociregistry.IsValidRepoName(u.Repos[op.R]) {
			hostile = true
		}
		// nothing outside the prefix may ever be served
		if a.HasData && bytes.Equal(a.Data, secret) {
			v.Failf("leak", "op %d %+v through Sub(mem,%q) returned content that exists only outside the prefix", i, op, p)
			return
		}
	}
	// probes: names that try to climb out
	for _, n := range []string{"../other", "../" + p + "ey/x", "x/../../other", "..", "../zz"} {
		for _, d := range []digest.Digest{sd, u.BlobDigest(0)} {
			if r, err := view.GetBlob(ctx, n, d); err == nil {
				data, _ := io.ReadAll(r)
				r.Close()
				v.Failf("leak", "Sub(mem,%q).GetBlob(%q) succeeded with %d bytes", p, n, len(data))
				return
			}
		}
		if r, err := view.GetTag(ctx, n, "latest"); err == nil {
			r.Close()
			v.Failf("leak", "Sub(mem,%q).GetTag(%q, latest) succeeded", p, n)
			return
		}
		view.DeleteBlob(ctx, n, sd)
		view.DeleteTag(ctx, n, "latest")
		view.PushManifest(ctx, n, "latest", []byte("overwritten"), "application/vnd.verif.opaque")
	}
	// listings from any start point, each Seq value iterated twice (a Seq is re-iterable and must
	// list the same names every time)
	for _, start := range append([]string{"", "a", "b", "f", "x", "x/y", "zz", p, "x/", "x//", "x/.", "x/../y", "./x", "e/", "fooey/../a", "a/"}, u.Repos...) {
		want, _ := ociregistry.All(memB.Repositories(ctx, start))
		seq := view.Repositories(ctx, start)
		for round := 1; round <= 2; round++ {
			got, err := ociregistry.All(seq)
			if err != nil || fmt.Sprint(got) != fmt.Sprint(want) {
				v.Failf("listing", "Sub(mem,%q).Repositories(start %q), iteration %d of the same Seq: %v (err %v), the restricted registry lists %v", p, start, round, got, err, want)
				return
			}
		}
	}
	after := snapshotOutside(ctx, memA, outsideNames, dgs)
	// repositories created below the prefix legitimately appear in the global listing: compare only the outside part
	if stripInside(before, p) != stripInside(after, p) {
		v.Failf("frame", "content outside %q changed through the view:\nbefore:\n%s\nafter:\n%s", p+"/", stripInside(before, p), stripInside(after, p))
		return
	}
	v.Class("hostile=%v", hostile)
	if hostile || true {
		var kinds []string
		for _, op := range s.Hist.Ops {
			kinds = append(kinds, op.K)
		}
		v.NonTrivial(p + "|" + strings.Join(u.Repos, ",") + "|" + strings.Join(kinds, ","))
	}
}

func stripInside(snap, p string) string {
	var out []string
	for _, l := range strings.Split(snap, "\n") {
		if strings.HasPrefix(l, "repos [") {
			var keep []string
			for _, r := range strings.Fields(strings.Trim(strings.TrimPrefix(l, "repos "), "[]")) {
				if !strings.HasPrefix(r, p+"/") {
					keep = append(keep, r)
				}
			}
			l = "repos " + fmt.Sprint(keep)
		}
		out = append(out, l)
	}
	return strings.Join(out, "\n")
}

func diffOut(a, b ops.Out) string {
	if a.Skipped != b.Skipped {
		return "skipped on one side (harness)"
	}
	if a.Err != b.Err {
		return fmt.Sprintf("error %q (%s) vs %q (%s)", a.Err, a.ErrMsg, b.Err, b.ErrMsg)
	}
	if a.Desc != b.Desc {
		return fmt.Sprintf("descriptor %+v vs %+v", a.Desc, b.Desc)
	}
	if !bytes.Equal(a.Data, b.Data) && a.HasData {
		return fmt.Sprintf("bytes differ (%d vs %d)", len(a.Data), len(b.Data))
	}
	if fmt.Sprint(a.List) != fmt.Sprint(b.List) || a.ListErr != b.ListErr {
		return fmt.Sprintf("listing %v/%q vs %v/%q", a.List, a.ListErr, b.List, b.ListErr)
	}
	if fmt.Sprint(a.Descs) != fmt.Sprint(b.Descs) {
		return fmt.Sprintf("referrers %v vs %v", a.Descs, b.Descs)
	}
	if a.N != b.N || a.WSize != b.WSize {
		return fmt.Sprintf("n/size %d/%d vs %d/%d", a.N, a.WSize, b.N, b.WSize)
	}
	return ""
}

func genDiff(t *rapid.T) DiffScript {
	var s DiffScript
	s.Prefix = rapid.SampledFrom([]string{"p", "foo", "foo/bar", "a/b/c"}).Draw(t, "prefix")
	cfg := hist.Config{MaxOps: 30, ValidRepos: 3, InvalidRepos: true, Uploads: true, Mismatch: true, BadManifests: true, Retype: true,
		Deletes: true, Lists: true, UnknownResumeID: true, MaxSmall: 30,
		RepoPool: []string{"x", "x/y", "fooey", "ey/x", "a", "other", "a-b", "a.b", "x-1"}}
	s.Nested = rapid.IntRange(0, 3).Draw(t, "nested") == 0
	s.Hist = hist.Gen(cfg)(t)
	// replace the malformed names by ones that try to leave the prefix
	n := len(s.Hist.U.Repos)
	s.Hist.U.Repos[n-2] = rapid.SampledFrom([]string{"../other", "x/../../other", "..", "../" + s.Prefix + "ey/x", "../zz"}).Draw(t, "climb")
	s.Hist.U.Repos[n-1] = rapid.SampledFrom([]string{"", "A", "a//b", "/other", "./x", "x/.."}).Draw(t, "bad")
	return s
}

var propDiff = &vt.Prop[DiffScript]{
	ID:   "C13",
	Name: "SubVsRestrictedRegistry",
	Rule: "the same generated history (<= 30 ops, all Interface and BlobWriter methods, both tag modes, listings with start points) is applied to Sub(ocimem, prefix) (a quarter of the time built as a view of a view) and to a second ocimem that plays the restricted registry; the universe holds 3 valid names plus names that try to leave the prefix ('../other', 'x/../../other', '..', '../<prefix>ey/x') and malformed ones; the underlying registry also holds siblings outside the prefix (other, <prefix>ey/x, <prefix>, <prefix>-tools, zz) with a secret blob, a tagged manifest and copies of the universe's blobs; oracle = every outcome equal on both sides (codes, descriptors, bytes, listings from any start point), no read ever returns the outside content, repository listings from a set of start points incl. unclean paths (each Seq iterated twice) equal the restricted registry's, and everything outside the prefix is unchanged afterwards (also after explicit climbing probes that read, delete and overwrite); distinct = (prefix, names, op-kind sequence)",
	Gen:  genDiff,
	Run:  runDiff,
}

func TestPropRelay(t *testing.T) { propRelay.Scale = 6; vt.Check(t, propRelay) }
func TestPropDiff(t *testing.T)  { vt.Check(t, propDiff) }

func TestReplay(t *testing.T) {
	vt.Register(propRelay)
	vt.Register(propDiff)
	vt.Register(propClient)
	vt.Replay(t)
}
