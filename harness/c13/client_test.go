package c13

// Confinement when the underlying registry is not an in-process one but a client
// of a remote registry: the view hands prefix/name to the client, which pastes names
// into URLs. A caller-supplied name that contains URL syntax ('?', '#', '&', percent
// escapes) must not turn into a request for something outside the prefix.

import (
	"bytes"
	"context"
	"fmt"
	"io"
	"net/http"
	"strings"
	"testing"

	"cuelabs.dev/go/oci/ociregistry"
	"cuelabs.dev/go/oci/ociregistry/ociclient"
	"cuelabs.dev/go/oci/ociregistry/ocimem"
	"cuelabs.dev/go/oci/ociregistry/ociserver"
	"github.com/opencontainers/go-digest"
	"pgregory.net/rapid"

	"verif/harness/internal/memnet"
	"verif/harness/vt"
)

var viaView = []byte("pushed through the view")

type ClientCall struct {
	Method string `json:"method"`
	Repo   string `json:"repo"`
	From   string `json:"from,omitempty"`
	Ref    string `json:"ref,omitempty"` // "secret" | "inside" (which digest / tag is aimed at)
}

type ClientScript struct {
	Prefix string `json:"prefix"`
	Nested bool   `json:"nested,omitempty"`
	// Mux: the registry's handler sits behind net/http's ServeMux, which redirects unclean paths
	// (//, /./, /../) to their clean form, as front ends commonly do
	Mux   bool         `json:"mux,omitempty"`
	Calls []ClientCall `json:"calls"`
}

func runClient(s ClientScript, v *vt.V) {
	ctx := context.Background()
	mem := ocimem.New()
	p := s.Prefix
	secret := []byte("content that exists only outside the prefix")
	inside := []byte("content inside the prefix")
	sd, id := digest.FromBytes(secret), digest.FromBytes(inside)
	first, _, _ := strings.Cut(p, "/")
	outsideNames := []string{"other", "other/blah", p + "ey/x", p, first, "zz"}
	var kept []string
	for _, n := range outsideNames {
		if !ociregistry.IsValidRepoName(n) {
			continue
		}
		kept = append(kept, n)
		mem.PushBlob(ctx, n, ociregistry.Descriptor{MediaType: "application/octet-stream", Digest: sd, Size: int64(len(secret))}, bytes.NewReader(secret))
		mem.PushManifest(ctx, n, "latest", secret, "application/vnd.verif.opaque")
	}
	mem.PushBlob(ctx, p+"/x", ociregistry.Descriptor{MediaType: "application/octet-stream", Digest: id, Size: int64(len(inside))}, bytes.NewReader(inside))
	mem.PushManifest(ctx, p+"/x", "latest", inside, "application/vnd.verif.opaque")
	kept = append(kept, "secret/new")
	before := snapshotOutside(ctx, mem, kept, []digest.Digest{sd, id, digest.FromBytes(viaView)})

	var handler http.Handler = ociserver.New(mem, nil)
	if s.Mux {
		mux := http.NewServeMux()
		mux.Handle("/", handler)
		handler = mux
	}
	srv := memnet.NewServer(handler)
	defer srv.Close()
	client, err := ociclient.New(srv.Host, &ociclient.Options{Insecure: true, Transport: srv.Transport()})
	if err != nil {
		v.Failf("harness", "%v", err)
		return
	}
	view := subOf(client, p, s.Nested)

	leak := func(what string, r ociregistry.BlobReader, err error) bool {
		if err != nil {
			return false
		}
		data, _ := io.ReadAll(r)
		r.Close()
		if bytes.Equal(data, secret) {
			v.Failf("leak", "Sub(client,%q): %s returned the content that exists only outside the prefix", p, what)
			return true
		}
		return false
	}
	urlSyntax := false
	for i, c := range s.Calls {
		dg := id
		if c.Ref == "secret" {
			dg = sd
		}
		what := fmt.Sprintf("call %d %s(repo=%q from=%q %s)", i, c.Method, c.Repo, c.From, c.Ref)
		if strings.ContainsAny(c.Repo+c.From, "?#&%") {
			urlSyntax = true
		}
		switch c.Method {
		case "GetBlob":
			r, err := view.GetBlob(ctx, c.Repo, dg)
			if leak(what, r, err) {
				return
			}
		case "GetManifest":
			r, err := view.GetManifest(ctx, c.Repo, dg)
			if leak(what, r, err) {
				return
			}
		case "GetTag":
			r, err := view.GetTag(ctx, c.Repo, "latest")
			if leak(what, r, err) {
				return
			}
		case "ResolveBlob":
			view.ResolveBlob(ctx, c.Repo, dg)
		case "DeleteBlob":
			view.DeleteBlob(ctx, c.Repo, dg)
		case "DeleteManifest":
			view.DeleteManifest(ctx, c.Repo, dg)
		case "DeleteTag":
			view.DeleteTag(ctx, c.Repo, "latest")
		case "PushManifest":
			view.PushManifest(ctx, c.Repo, "latest", []byte("overwritten through the view"), "application/vnd.verif.opaque")
		case "PushBlob":
			b := viaView
			view.PushBlob(ctx, c.Repo, ociregistry.Descriptor{MediaType: "application/octet-stream", Digest: digest.FromBytes(b), Size: int64(len(b))}, bytes.NewReader(b))
		case "MountBlob":
			if _, err := view.MountBlob(ctx, c.From, c.Repo, dg); err == nil && !ociregistry.IsValidRepoName(c.From) {
				// a source name that is not a repository name names no repository: acting on another one
				// in its place (the name cut short at '&' or '#', say) is acting on something the caller did not name
				v.Failf("mount-from-malformed-name", "Sub(client,%q): %s succeeded although %q is not a repository name: the blob was mounted from some other repository", p, what, c.From)
				return
			}
		case "Tags":
			ociregistry.All(view.Tags(ctx, c.Repo, ""))
		case "Repositories":
			// the view's listing is the backend's, restricted and stripped; the sequence it returns is
			// as good the second time (also after a run that stopped early) as the first
			var want []string
			all, _ := ociregistry.All(mem.Repositories(ctx, ""))
			for _, n := range all {
				if rest, ok := strings.CutPrefix(n, p+"/"); ok {
					want = append(want, rest)
				}
			}
			seq := view.Repositories(ctx, "")
			if c.Ref == "inside" {
				for _, err := range seq {
					_ = err
					break
				}
			}
			for run := 0; run < 2; run++ {
				got, err := ociregistry.All(seq)
				if err != nil || fmt.Sprint(got) != fmt.Sprint(want) {
					v.Failf("wrong-listing", "Sub(client,%q): %s: run %d of the sequence (early stop first: %v) gave %v, %v; the backend's listing under the prefix is %v", p, what, run+1, c.Ref == "inside", got, err, want)
					return
				}
			}
		case "ResumeRewritten":
			// an upload id obtained through the view, rewritten to name a repository outside the
			// prefix, then resumed through the view
			if w, err := view.PushBlobChunked(ctx, "x", 0); err == nil {
				id := w.ID()
				w.Close()
				for _, target := range []string{"other/blah", "secret/new", p} {
					// the plain spelling of the rewritten path and spellings a path-cleaning front end maps to it
					for _, lead := range []string{"/v2/", "//v2/", "/./v2/", "/x/../v2/", "/v2/./"} {
						id2 := strings.Replace(id, "/v2/"+p+"/x/", lead+target+"/", 1)
						if id2 == id {
							continue
						}
						for _, offset := range []int64{0, -1} {
							if w2, err := view.PushBlobChunkedResume(ctx, "x", id2, offset, 0); err == nil {
								w2.Write(viaView)
								w2.Commit(digest.FromBytes(viaView))
								w2.Close()
							}
						}
					}
					// an "upload id" that is the URL of something else in a repository outside: a manifest
					// (the commit's PUT would store one there), a blob
					for _, route := range []string{"/manifests/evil", "/blobs/" + string(digest.FromBytes(viaView))} {
						for _, form := range []string{"/v2/" + target + route, "http://" + srv.Host + "/v2/" + target + route} {
							if w2, err := view.PushBlobChunkedResume(ctx, "x", form, 0, 0); err == nil {
								w2.Write(viaView)
								w2.Commit(digest.FromBytes(viaView))
								w2.Close()
							}
						}
					}
				}
				// an "upload id" inside the view's own repository whose tail names another route: the last
				// two path elements decide what a server takes a path for, so the commit's PUT would store a
				// manifest in the repository <prefix>/x/blobs/uploads/b - not the one the call is about
				for _, form := range []string{"/v2/" + p + "/x/blobs/uploads/b/manifests/evil", "http://" + srv.Host + "/v2/" + p + "/x/blobs/uploads/b/manifests/evil", "//v2/" + p + "/x/blobs/uploads/./b/manifests/evil"} {
					for _, offset := range []int64{0, -1} {
						if w2, err := view.PushBlobChunkedResume(ctx, "x", form, offset, 0); err == nil {
							w2.Write(viaView)
							w2.Commit(digest.FromBytes(viaView))
							w2.Close()
						}
					}
				}
				if _, err := mem.ResolveTag(ctx, p+"/x/blobs/uploads/b", "evil"); err == nil {
					v.Failf("upload-id-acts-elsewhere", "Sub(client,%q): resuming, through the view's repository x, an \"upload id\" that spells /v2/%s/x/blobs/uploads/b/manifests/evil and committing stored a tagged manifest in repository %s/x/blobs/uploads/b: the operation on x acted on another repository", p, p, p)
					return
				}
			}
		case "Chunked":
			if w, err := view.PushBlobChunked(ctx, c.Repo, 0); err == nil {
				w.Write(viaView)
				w.Commit(digest.FromBytes(viaView))
				w.Close()
			}
		default:
			v.Failf("harness", "unknown method %q", c.Method)
			return
		}
		// whatever happened: the outside content must not have become readable inside the view
		for _, n := range []string{"x", "y"} {
			if r, err := view.GetBlob(ctx, n, sd); err == nil {
				r.Close()
				v.Failf("leak", "Sub(client,%q): after %s the outside content is readable in view repository %q", p, what, n)
				return
			}
		}
	}
	after := snapshotOutside(ctx, mem, kept, []digest.Digest{sd, id, digest.FromBytes(viaView)})
	if stripInside(before, p) != stripInside(after, p) {
		v.Failf("frame", "Sub(client,%q): content outside %q changed through the view (calls %+v):\nbefore:\n%s\nafter:\n%s", p, p+"/", s.Calls, stripInside(before, p), stripInside(after, p))
		return
	}
	v.Class("client/url-syntax=%v", urlSyntax)
	if urlSyntax {
		var k []string
		for _, c := range s.Calls {
			k = append(k, c.Method+":"+c.Repo+":"+c.From)
		}
		v.NonTrivial(p + "|" + strings.Join(k, ","))
	}
}

var propClient = &vt.Prop[ClientScript]{
	ID:   "C13",
	Name: "SubOverClientConfinement",
	Rule: "the view is laid over an ociclient talking (in-memory HTTP) to an ociserver over ocimem; the backend holds siblings outside the prefix (other, other/blah, <prefix>ey/x, <prefix> itself, the prefix's first element, zz) with a secret blob and a tagged manifest, and one repository inside; 1-6 calls (reads, deletes, pushes, mounts in both directions, chunked uploads, tag listings, and resuming - at offset 0 and at -1 - an upload id obtained through the view after rewriting it to name a repository outside, spelled plainly or with //, /./, /../ segments; or replacing it by the URL of a manifest or blob outside, or by an upload location of the view's own repository with a manifest route appended; half of the servers sit behind a path-cleaning ServeMux) use names that contain URL syntax ('?', '#', '&', '=', percent escapes, injected query parameters such as mount= and from=, fragments that cut the path short) besides dot segments and well-formed names; oracle = the view's repository listing, run twice (sometimes after a run that stopped at the first item), is each time the backend's restricted to the prefix; no read returns the outside content, the outside content never becomes readable inside the view, and everything outside the prefix is unchanged afterwards; non-trivial = some name contains URL syntax; distinct = (prefix, calls)",
	Gen: func(t *rapid.T) ClientScript {
		s := ClientScript{Prefix: rapid.SampledFrom([]string{"p", "foo", "foo/bar"}).Draw(t, "prefix"), Nested: rapid.IntRange(0, 3).Draw(t, "nested") == 0, Mux: rapid.Bool().Draw(t, "mux")}
		sd := digest.FromBytes([]byte("content that exists only outside the prefix")).String()
		name := func(label string) string {
			pool := []string{"x", "y", "../other", "x/../../other",
				"x?", "x#", "x?n=1", "x%2F..%2F..%2Fother", "..%2Fother", "%2e%2e/other", "x%00",
				"blobs/" + sd + "#", "manifests/latest#", "tags/list#", "blobs/" + sd + "?",
				"x/blobs/uploads/?mount=" + sd + "&from=other/blah&z=", "x/blobs/uploads/?mount=" + sd + "&from=other&z=",
				"x/blobs/uploads/?digest=" + sd + "&z=", "x&from=other", "x;y", "x/manifests/latest?", "#", "?"}
			return rapid.SampledFrom(pool).Draw(t, label)
		}
		n := rapid.IntRange(1, 6).Draw(t, "ncalls")
		for i := 0; i < n; i++ {
			c := ClientCall{Method: rapid.SampledFrom([]string{"GetBlob", "GetManifest", "GetTag", "ResolveBlob", "DeleteBlob", "DeleteManifest", "DeleteTag", "PushManifest", "PushBlob", "MountBlob", "MountBlob", "Tags", "Chunked", "ResumeRewritten", "Repositories"}).Draw(t, "method")}
			c.Repo = name("repo")
			c.Ref = rapid.SampledFrom([]string{"secret", "secret", "inside"}).Draw(t, "ref")
			if c.Method == "MountBlob" {
				c.From = name("from")
				if rapid.Bool().Draw(t, "validTarget") {
					c.Repo = "x"
				}
			}
			s.Calls = append(s.Calls, c)
		}
		return s
	},
	Run: runClient,
}

func TestPropClient(t *testing.T) { vt.Check(t, propClient) }
