// Package c14 decides property C14: read-only, immutable and immutable-tags
// modes hold for every history.
package c14

import (
	"bytes"
	"context"
	"encoding/json"
	"errors"
	"fmt"
	"io"
	"strings"
	"testing"

	"cuelabs.dev/go/oci/ociregistry"
	"cuelabs.dev/go/oci/ociregistry/ocifilter"
	"cuelabs.dev/go/oci/ociregistry/ocimem"
	"github.com/opencontainers/go-digest"
	ocispec "github.com/opencontainers/image-spec/specs-go/v1"
	"pgregory.net/rapid"

	"verif/harness/internal/hist"
	"verif/harness/internal/ops"
	"verif/harness/vt"
)

func TestMain(m *testing.M) { vt.Main(m) }

var ctx = context.Background()

// observe renders everything observable about the registry over the universe.
func observe(reg ociregistry.Interface, u *ops.Universe) string {
	var b strings.Builder
	e := ops.NewEnv(u, reg)
	rd := func(op ops.Op) {
		o := e.Exec(op)
		fmt.Fprintf(&b, "%s r%d b%d m%d t%d: err=%s desc=%v sha=%s list=%v descs=%v lerr=%s\n", op.K, op.R, op.B, op.M, op.T, o.Err, o.Desc, o.DataSHA, o.List, o.Descs, o.ListErr)
	}
	for r := range u.Repos {
		for i := range u.Blobs {
			rd(ops.Op{K: "getBlob", R: r, B: i})
		}
		for i := range u.Manifests {
			rd(ops.Op{K: "getManifest", R: r, M: i})
			rd(ops.Op{K: "referrers", R: r, M: i})
		}
		for i := range u.Tags {
			rd(ops.Op{K: "resolveTag", R: r, T: i})
			rd(ops.Op{K: "getTag", R: r, T: i})
		}
		rd(ops.Op{K: "tags", R: r})
	}
	rd(ops.Op{K: "repos"})
	return b.String()
}

// retrievable maps every blob / manifest of the universe that can be read to the sha of its bytes.
func retrievable(reg ociregistry.Interface, u *ops.Universe) map[string]string {
	out := map[string]string{}
	e := ops.NewEnv(u, reg)
	for r := range u.Repos {
		for i := range u.Blobs {
			if o := e.Exec(ops.Op{K: "getBlob", R: r, B: i}); o.Err == "" {
				out[fmt.Sprintf("blob %s %s", u.Repos[r], u.BlobDigest(i))] = o.DataSHA
			}
		}
		for i := range u.Manifests {
			if o := e.Exec(ops.Op{K: "getManifest", R: r, M: i}); o.Err == "" {
				out[fmt.Sprintf("manifest %s %s", u.Repos[r], u.ManDigest(i))] = o.DataSHA
			}
		}
	}
	return out
}

func mutating(k string) bool {
	switch k {
	case "pushBlob", "pushManifest", "mount", "deleteBlob", "deleteManifest", "deleteTag", "upStart", "upResume":
		return true
	}
	return false
}

// ---- read-only wrapper ----

type ROScript struct {
	Hist  hist.Script `json:"hist"`
	Split int         `json:"split"` // ops before Split populate the registry directly
}

func runRO(s ROScript, v *vt.V) {
	u := &s.Hist.U
	mem := ocimem.NewWithConfig(&ocimem.Config{ImmutableTags: s.Hist.Immutable})
	direct := ops.NewEnv(u, mem)
	split := s.Split
	if split > len(s.Hist.Ops) {
		split = len(s.Hist.Ops)
	}
	for _, op := range s.Hist.Ops[:split] {
		direct.Exec(op)
	}
	direct.CloseAll()
	ro := ocifilter.ReadOnly(mem)
	env := ops.NewEnv(u, ro)
	defer env.CloseAll()
	before := observe(mem, u)
	nmut := 0
	for i, op := range s.Hist.Ops[split:] {
		if strings.HasPrefix(op.K, "up") && op.K != "upStart" && !(op.K == "upResume" && op.Mode == 3) {
			continue // no writer can exist
		}
		out := env.Exec(op)
		if mutating(op.K) {
			nmut++
			if out.Err == "" {
				v.Failf("readonly-mutation-accepted", "op %d %+v through ReadOnly succeeded", i, op)
				return
			}
			if !errors.Is(out.Err0, ociregistry.ErrUnsupported) {
				v.Failf("readonly-wrong-error", "op %d %+v through ReadOnly failed with %v, which is not ErrUnsupported", i, op, out.Err0)
				return
			}
		} else {
			// reads equal the underlying registry's
			want := ops.NewEnv(u, mem).Exec(op)
			if out.Err != want.Err || out.Desc != want.Desc || !bytes.Equal(out.Data, want.Data) || fmt.Sprint(out.List) != fmt.Sprint(want.List) || fmt.Sprint(out.Descs) != fmt.Sprint(want.Descs) {
				v.Failf("readonly-read-differs", "op %d %+v: through ReadOnly %+v, directly %+v", i, op, out, want)
				return
			}
		}
		if after := observe(mem, u); after != before {
			v.Failf("readonly-changed", "op %d %+v through ReadOnly changed the underlying registry:\n%s", i, op, firstDiffLine(before, after))
			return
		}
	}
	v.Class("readonly/mutations=%d", min(nmut, 3))
	if nmut > 0 && split > 0 {
		v.NonTrivial(kindsOf(s.Hist.Ops, split))
	}
}

func kindsOf(o []ops.Op, split int) string {
	var k []string
	for i, op := range o {
		if i == split {
			k = append(k, "|")
		}
		k = append(k, fmt.Sprintf("%s%d", op.K, op.Mode))
	}
	return strings.Join(k, ",")
}

func firstDiffLine(a, b string) string {
	la, lb := strings.Split(a, "\n"), strings.Split(b, "\n")
	for i := range la {
		if i >= len(lb) || la[i] != lb[i] {
			other := ""
			if i < len(lb) {
				other = lb[i]
			}
			return "- " + la[i] + "\n+ " + other
		}
	}
	return "(length differs)"
}

// ---- immutable wrapper and immutable-tags mode ----

type ImmScript struct {
	Mode string      `json:"mode"` // wrapper | tagsmode
	Hist hist.Script `json:"hist"`
}

type tagKey struct {
	repo int
	tag  int
}
type tagVal struct {
	digest string
	data   []byte
	how    string
}

// closure returns every (kind, digest) a stored manifest references through
// layers / config / index children, interpreting bytes by the media type they are stored with.
func closure(reg ociregistry.Interface, repo string, dg ociregistry.Digest, seen map[string]bool, out *[]string) {
	if _, done := seen["manifest "+string(dg)]; done {
		return
	}
	r, err := reg.GetManifest(ctx, repo, dg)
	seen["manifest "+string(dg)] = err == nil
	if err != nil {
		*out = append(*out, "manifest "+string(dg)+" MISSING")
		return
	}
	data, _ := io.ReadAll(r)
	mt := r.Descriptor().MediaType
	r.Close()
	if digest.FromBytes(data) != dg {
		// retrievable means: its bytes come back
		seen["manifest "+string(dg)] = false
		*out = append(*out, "manifest "+string(dg)+" MISSING (other bytes are served under its digest)")
		return
	}
	switch mt {
	case ocispec.MediaTypeImageManifest:
		var m ocispec.Manifest
		if json.Unmarshal(data, &m) != nil {
			return
		}
		if m.Subject != nil {
			closure(reg, repo, m.Subject.Digest, seen, out) // a subject is a reference too (it may dangle)
		}
		for _, d := range append(append([]ocispec.Descriptor{}, m.Layers...), m.Config) {
			rb, err := reg.GetBlob(ctx, repo, d.Digest)
			if err == nil {
				content, rerr := io.ReadAll(rb)
				rb.Close()
				if rerr != nil || digest.FromBytes(content) != d.Digest {
					err = fmt.Errorf("%d bytes that do not hash to the digest are served (read error %v)", len(content), rerr)
				}
			}
			seen["blob "+string(d.Digest)] = err == nil
			if err != nil {
				*out = append(*out, "blob "+string(d.Digest)+" MISSING (referenced by "+string(dg)+"): "+err.Error())
			}
		}
	case ocispec.MediaTypeImageIndex:
		var ix ocispec.Index
		if json.Unmarshal(data, &ix) != nil {
			return
		}
		if ix.Subject != nil {
			closure(reg, repo, ix.Subject.Digest, seen, out)
		}
		for _, d := range ix.Manifests {
			closure(reg, repo, d.Digest, seen, out)
		}
	}
}

func runImm(s ImmScript, v *vt.V) {
	u := &s.Hist.U
	var mem *ocimem.Registry
	var reg ociregistry.Interface
	if s.Mode == "wrapper" {
		mem = ocimem.New()
		reg = ocifilter.Immutable(mem)
	} else {
		// the Config value is the caller's: it is used again for something else once the registry exists
		cfg := ocimem.Config{ImmutableTags: true}
		mem = ocimem.NewWithConfig(&cfg)
		cfg.ImmutableTags = false
		reg = mem
	}
	env := ops.NewEnv(u, reg)
	defer env.CloseAll()
	ledger := map[tagKey]tagVal{}
	closureSeen := map[tagKey]map[string]bool{}
	present := map[string]string{} // wrapper mode: everything ever retrievable -> sha of its bytes
	conflicts, protectedDeletes := 0, 0
	checkInvariants := func(i int, op ops.Op) bool {
		var prevK tagKey
		havePrev := false
		for k, want := range ledger {
			d, err := reg.ResolveTag(ctx, u.Repos[k.repo], u.Tags[k.tag])
			if err != nil {
				v.Failf("tag-lost", "after op %d %+v: tag %s:%s, observed (%s) to resolve to %s, now fails: %v", i, op, u.Repos[k.repo], u.Tags[k.tag], want.how, want.digest, err)
				return false
			}
			if string(d.Digest) != want.digest {
				v.Failf("tag-moved", "after op %d %+v: tag %s:%s, observed (%s) to resolve to %s, now resolves to %s", i, op, u.Repos[k.repo], u.Tags[k.tag], want.how, want.digest, d.Digest)
				return false
			}
			r, err := reg.GetTag(ctx, u.Repos[k.repo], u.Tags[k.tag])
			if err != nil {
				v.Failf("tag-lost", "after op %d %+v: GetTag %s:%s fails: %v (it resolved to %s before)", i, op, u.Repos[k.repo], u.Tags[k.tag], err, want.digest)
				return false
			}
			// (readers are independent: another tag is read, and its reader closed twice - an explicit Close
			// and a deferred one - while this reader is open)
			if havePrev {
				if r2, err := reg.GetTag(ctx, u.Repos[prevK.repo], u.Tags[prevK.tag]); err == nil {
					data2, _ := io.ReadAll(r2)
					r2.Close()
					r2.Close()
					if !bytes.Equal(data2, ledger[prevK].data) {
						v.Failf("tag-bytes-changed", "after op %d %+v: tag %s:%s, read while a reader of %s:%s was open, yields other bytes", i, op, u.Repos[prevK.repo], u.Tags[prevK.tag], u.Repos[k.repo], u.Tags[k.tag])
						return false
					}
				}
			}
			prevK, havePrev = k, true
			data, _ := io.ReadAll(r)
			r.Close()
			r.Close()
			if !bytes.Equal(data, want.data) {
				v.Failf("tag-bytes-changed", "after op %d %+v: tag %s:%s now yields other bytes", i, op, u.Repos[k.repo], u.Tags[k.tag])
				return false
			}
			if s.Mode == "tagsmode" {
				// whatever the tag's closure was seen to hold must remain retrievable
				// (something already missing when the tag was made is not "lost")
				var missing []string
				now := map[string]bool{}
				closure(reg, u.Repos[k.repo], digest.Digest(want.digest), now, &missing)
				if closureSeen[k] == nil {
					closureSeen[k] = map[string]bool{}
				}
				for member, ok := range now {
					if !ok && closureSeen[k][member] {
						v.Failf("closure-broken", "after op %d %+v: %s, referenced by tag %s:%s and retrievable earlier, is no longer retrievable", i, op, member, u.Repos[k.repo], u.Tags[k.tag])
						return false
					}
					if ok {
						closureSeen[k][member] = true
					}
				}
				for member := range closureSeen[k] {
					if _, still := now[member]; !still {
						// no longer reached by the walk (a manifest on the way is now stored under another
						// media type): what the tagged manifest referred to must be retrievable all the same
						kind, dg, _ := strings.Cut(member, " ")
						var err error
						var r ociregistry.BlobReader
						if kind == "blob" {
							r, err = reg.GetBlob(ctx, u.Repos[k.repo], digest.Digest(dg))
						} else {
							r, err = reg.GetManifest(ctx, u.Repos[k.repo], digest.Digest(dg))
						}
						if err != nil {
							v.Failf("closure-broken", "after op %d %+v: %s, referenced by tag %s:%s when it was observed, is no longer retrievable: %v", i, op, member, u.Repos[k.repo], u.Tags[k.tag], err)
							return false
						}
						r.Close()
					}
				}
			}
		}
		return true
	}
	for i, op := range s.Hist.Ops {
		// conflicting push?
		if op.K == "pushManifest" && op.T >= 0 {
			if cur, ok := ledger[tagKey{op.R, op.T}]; ok && cur.digest != string(u.ManDigest(op.M)) {
				conflicts++
			}
		}
		out := env.Exec(op)
		if s.Mode == "wrapper" && (op.K == "deleteBlob" || op.K == "deleteManifest" || op.K == "deleteTag") {
			if out.Err == "" {
				v.Failf("immutable-delete-accepted", "op %d %+v through Immutable succeeded", i, op)
				return
			}
		}
		if out.Err == "" && op.R < len(u.Repos) && op.T >= 0 && op.T < len(u.Tags) && u.Tags[op.T] != "" {
			k := tagKey{op.R, op.T}
			switch op.K {
			case "pushManifest":
				if _, ok := ledger[k]; !ok {
					ledger[k] = tagVal{string(u.ManDigest(op.M)), u.ManBytes(op.M), fmt.Sprintf("pushed at op %d", i)}
				}
			case "resolveTag":
				if _, ok := ledger[k]; !ok && s.Mode == "tagsmode" {
					// (in wrapper mode a resolvable tag always has its manifest: nothing is ever deleted)
				}
			case "getTag":
				if _, ok := ledger[k]; !ok {
					ledger[k] = tagVal{out.Desc.Digest, out.Data, fmt.Sprintf("read at op %d", i)}
				}
			}
		}
		if out.Err == "DENIED" && (op.K == "deleteBlob" || op.K == "deleteManifest") {
			protectedDeletes++
		}
		if !checkInvariants(i, op) {
			return
		}
		if s.Mode == "wrapper" {
			// monotone: nothing that was ever retrievable disappears
			now := retrievable(reg, u)
			for k, sha := range present {
				if now[k] != sha {
					v.Failf("immutable-content-lost", "after op %d %+v through Immutable, %s (sha %s) is no longer retrievable (now %q)", i, op, k, sha, now[k])
					return
				}
			}
			for k, sha := range now {
				present[k] = sha
			}
		}
	}
	v.Class("%s/conflicts=%d/protected-deletes=%d", s.Mode, min(conflicts, 2), min(protectedDeletes, 2))
	if len(ledger) > 0 && (conflicts > 0 || protectedDeletes > 0 || s.Mode == "wrapper") {
		v.NonTrivial(s.Mode + "|" + kindsOf(s.Hist.Ops, -1))
	}
}

func cfg() hist.Config {
	return hist.Config{MaxOps: 35, ValidRepos: 2, Uploads: true, Mismatch: false, BadManifests: true, Retype: true,
		Deletes: true, Lists: true, MaxSmall: 20, NoRange: true, DeepChain: true}
}

var propRO = &vt.Prop[ROScript]{
	ID:   "C14",
	Name: "ReadOnlyWrapper",
	Rule: "a generated history (<= 35 ops) is split: the first part populates an ocimem directly, the rest goes through ocifilter.ReadOnly; oracle = every mutating call (push, mount, delete, start/resume upload) fails with ErrUnsupported, everything observable in the underlying registry (every blob, manifest, tag, referrers and listing over the universe) is byte-identical after every call, and every read equals the same read on the underlying registry; non-trivial = at least one mutating call through the wrapper on a populated registry; distinct = op sequence",
	Gen: func(t *rapid.T) ROScript {
		h := hist.Gen(cfg())(t)
		return ROScript{Hist: h, Split: rapid.IntRange(0, len(h.Ops)).Draw(t, "split")}
	},
	Run: runRO,
}

var propImm = &vt.Prop[ImmScript]{
	ID:   "C14",
	Name: "ImmutableModes",
	Rule: "generated histories (<= 35 ops: tagged/untagged pushes of equal and different content under few tags, image manifests and nested indexes (a quarter of the universes are one chain of indexes seven manifests deep), deletes aimed at tagged manifests and their references, mounts, chunked uploads) through ocifilter.Immutable(ocimem) and on ocimem{ImmutableTags}; a ledger records (repository, tag) -> (digest, bytes) at the first successful tagged push or tag read; oracle after every step: every ledger entry still resolves to the same digest and reads the same bytes; wrapper: every delete fails and nothing that was ever retrievable disappears; tags mode: every layer, config, (nested) index child and subject of every tagged manifest, interpreted by the media type it is stored with, is retrievable; non-trivial = a tag is in the ledger and a conflicting push or a refused delete occurred; distinct = (mode, op sequence)",
	Gen: func(t *rapid.T) ImmScript {
		return ImmScript{Mode: rapid.SampledFrom([]string{"wrapper", "tagsmode", "tagsmode"}).Draw(t, "mode"), Hist: hist.Gen(cfg())(t)}
	},
	Run: runImm,
}

func TestPropReadOnly(t *testing.T)  { vt.Check(t, propRO) }
func TestPropImmutable(t *testing.T) { propImm.Scale = 2; vt.Check(t, propImm) }

func TestReplay(t *testing.T) {
	vt.Register(propRO)
	vt.Register(propImm)
	vt.Register(propConc)
	vt.Register(propShadow)
	vt.Register(propGraph)
	vt.Register(propClosureRace)
	vt.Replay(t)
}
