package c14

// Immutable-tags mode under concurrency: the push of a tagged manifest against the deletion of something
// it refers to directly. Whichever comes first, the other is refused: pushed first, the tag protects what
// the manifest refers to; deleted first, the manifest refers to something missing and is not accepted.

import (
	"fmt"
	"strings"
	"sync"
	"testing"

	"cuelabs.dev/go/oci/ociregistry"
	"cuelabs.dev/go/oci/ociregistry/ocimem"
	"github.com/opencontainers/go-digest"

	"verif/harness/vt"
)

type ClosureRace struct {
	Victim string `json:"victim"` // layer | config | child
	Rounds int    `json:"rounds"`
	Old    int    `json:"old"` // tagged manifests already in the repository (the delete's walk takes longer)
}

func runClosureRace(s ClosureRace, v *vt.V) {
	var mem *ocimem.Registry
	const imageMT, indexMT = "application/vnd.oci.image.manifest.v1+json", "application/vnd.oci.image.index.v1+json"
	pushBlob := func(content string) ociregistry.Descriptor {
		desc := ociregistry.Descriptor{MediaType: "application/octet-stream", Digest: digest.FromString(content), Size: int64(len(content))}
		if _, err := mem.PushBlob(ctx, "foo", desc, strings.NewReader(content)); err != nil {
			v.Failf("harness", "%v", err)
		}
		return desc
	}
	image := func(config, layer ociregistry.Descriptor, note string) []byte {
		return []byte(fmt.Sprintf(`{"schemaVersion":2,"mediaType":%q,"config":{"mediaType":%q,"digest":%q,"size":%d},"layers":[{"mediaType":%q,"digest":%q,"size":%d}],"annotations":{"note":%q}}`,
			imageMT, config.MediaType, config.Digest, config.Size, layer.MediaType, layer.Digest, layer.Size, note))
	}
	both := 0
	for i := 0; i < s.Rounds; i++ {
		if i%100 == 0 {
			// a new registry now and then: every successful push adds a tagged manifest for the deletes to walk
			mem = ocimem.NewWithConfig(&ocimem.Config{ImmutableTags: true})
			config0, base := pushBlob(`{"base":true}`), pushBlob("base layer")
			for j := 0; j < s.Old; j++ {
				if _, err := mem.PushManifest(ctx, "foo", fmt.Sprintf("old%d", j), image(config0, base, fmt.Sprint("old", j)), imageMT); err != nil {
					v.Failf("harness", "%v", err)
					return
				}
			}
		}
		tag := fmt.Sprintf("new%d", i)
		config, layer := pushBlob(fmt.Sprintf(`{"round":%d}`, i)), pushBlob(fmt.Sprintf("layer %d", i))
		man, mt := image(config, layer, tag), imageMT
		var del func() error
		var gone func() error
		switch s.Victim {
		case "layer":
			del = func() error { return mem.DeleteBlob(ctx, "foo", layer.Digest) }
			gone = func() error { _, err := mem.ResolveBlob(ctx, "foo", layer.Digest); return err }
		case "config":
			del = func() error { return mem.DeleteBlob(ctx, "foo", config.Digest) }
			gone = func() error { _, err := mem.ResolveBlob(ctx, "foo", config.Digest); return err }
		case "child":
			child, err := mem.PushManifest(ctx, "foo", "", man, imageMT)
			if err != nil {
				v.Failf("harness", "%v", err)
				return
			}
			man = []byte(fmt.Sprintf(`{"schemaVersion":2,"mediaType":%q,"manifests":[{"mediaType":%q,"digest":%q,"size":%d}],"annotations":{"note":%q}}`, indexMT, imageMT, child.Digest, child.Size, tag))
			mt = indexMT
			del = func() error { return mem.DeleteManifest(ctx, "foo", child.Digest) }
			gone = func() error { _, err := mem.ResolveManifest(ctx, "foo", child.Digest); return err }
		}
		var wg sync.WaitGroup
		var delErr, pushErr error
		wg.Add(2)
		go func() {
			defer wg.Done()
			delErr = del()
		}()
		go func() {
			defer wg.Done()
			for j := 0; j < (i%32)*(s.Old/8+1); j++ {
				_ = digest.FromString("x") // vary the timing a little
			}
			_, pushErr = mem.PushManifest(ctx, "foo", tag, man, mt)
		}()
		wg.Wait()
		goneErr := gone()
		if pushErr == nil && (delErr == nil || goneErr != nil) {
			v.Failf("tagged-reference-deleted", "round %d (immutable tags, %d tagged manifests in the repository): the push of a tagged manifest answered success and the deletion of its %s answered %v at the same time; the %s now resolves with %v - whichever came first, the other had to be refused", i, s.Old, s.Victim, delErr, s.Victim, goneErr)
			return
		}
		if pushErr == nil {
			both++
		}
	}
	v.Class("closure-race/%s", s.Victim)
	v.NonTrivial(fmt.Sprintf("%+v push-won=%d", s, both))
}

var propClosureRace = &vt.Prop[ClosureRace]{
	ID:   "C14",
	Name: "TaggedPushVersusDelete",
	Rule: "immutable-tags mode under concurrency: per round the PushManifest of a tagged manifest races the deletion of something it refers to directly (an image's layer, an image's config, an index's child manifest), in a repository that holds 20 or 400 tagged manifests; oracle = never both succeed, and after a successful push the referenced content resolves; every case is non-trivial; schedules are the Go scheduler's",
	Run:  runClosureRace,
}

func TestPropClosureRace(t *testing.T) {
	rounds := 150
	if vt.Thorough() {
		rounds = 1500
	}
	vt.Enumerate(t, propClosureRace, false, func(yield func(ClosureRace) bool) {
		shard, shards := vt.Shard()
		k := 0
		for rep := 0; rep < 2; rep++ {
			for _, victim := range []string{"layer", "config", "child"} {
				for _, old := range []int{20, 400} {
					k++
					if k%shards != shard {
						continue
					}
					n := rounds
					if old > 100 {
						n = rounds / 5
					}
					if !yield(ClosureRace{Victim: victim, Rounds: n, Old: old}) {
						return
					}
				}
			}
		}
	})
}
