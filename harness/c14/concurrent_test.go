package c14

import (
	"fmt"
	"sync"
	"sync/atomic"
	"testing"

	"cuelabs.dev/go/oci/ociregistry/ocimem"
	"github.com/opencontainers/go-digest"
	"pgregory.net/rapid"

	"verif/harness/vt"
)

// ConcScript: in immutable-tags mode several goroutines race to bind the
// same fresh tag to different manifests while readers watch the tag.
type ConcScript struct {
	Rounds  int `json:"rounds"`
	Writers int `json:"writers"`
	Readers int `json:"readers"`
	Size    int `json:"size"` // manifest size in bytes (widens the check-then-store window)
}

func runConc(s ConcScript, v *vt.V) {
	mem := ocimem.NewWithConfig(&ocimem.Config{ImmutableTags: true})
	const mt = "application/vnd.verif.opaque"
	pad := make([]byte, s.Size)
	for i := range pad {
		pad[i] = 'p'
	}
	for round := 0; round < s.Rounds; round++ {
		tag := fmt.Sprintf("t%d", round)
		contents := make([][]byte, s.Writers)
		for w := range contents {
			contents[w] = append([]byte(fmt.Sprintf(`{"round":%d,"writer":%d,"pad":"`, round, w)), append(append([]byte{}, pad...), '"', '}')...)
		}
		var mu sync.Mutex
		observed := map[digest.Digest]string{}
		note := func(d digest.Digest, how string) {
			mu.Lock()
			if _, ok := observed[d]; !ok {
				observed[d] = how
			}
			mu.Unlock()
		}
		var start, done sync.WaitGroup
		var stop atomic.Bool
		start.Add(1)
		var readers sync.WaitGroup
		for r := 0; r < s.Readers; r++ {
			readers.Add(1)
			go func(r int) {
				defer readers.Done()
				start.Wait()
				for !stop.Load() {
					if d, err := mem.ResolveTag(ctx, "foo", tag); err == nil {
						note(d.Digest, fmt.Sprintf("reader %d", r))
					}
				}
			}(r)
		}
		oks := int32(0)
		for w := 0; w < s.Writers; w++ {
			done.Add(1)
			go func(w int) {
				defer done.Done()
				start.Wait()
				if d, err := mem.PushManifest(ctx, "foo", tag, contents[w], mt); err == nil {
					atomic.AddInt32(&oks, 1)
					note(d.Digest, fmt.Sprintf("successful push by writer %d", w))
				}
			}(w)
		}
		start.Done()
		done.Wait()
		stop.Store(true)
		readers.Wait()
		if d, err := mem.ResolveTag(ctx, "foo", tag); err == nil {
			note(d.Digest, "final read")
		}
		if oks == 0 {
			v.Failf("concurrent-no-winner", "round %d: %d writers raced for fresh tag %s and none succeeded", round, s.Writers, tag)
			return
		}
		if len(observed) > 1 {
			v.Failf("concurrent-tag-moved", "round %d: tag %s was observed with %d different digests in immutable-tags mode: %v", round, tag, len(observed), observed)
			return
		}
	}
	v.Class("concurrent-tag-race/writers=%d", s.Writers)
	v.NonTrivial(fmt.Sprintf("%d/%d/%d/%d", s.Rounds, s.Writers, s.Readers, s.Size))
}

var propConc = &vt.Prop[ConcScript]{
	ID:   "C14",
	Name: "ImmutableTagsConcurrent",
	Rule: "immutable-tags mode under concurrency: per round 2-6 goroutines push different manifests (1 byte .. 256 KiB) under the same fresh tag at the same instant while 1-3 readers resolve the tag in a loop; oracle = at least one push wins and all successful pushes and all reads of that tag agree on one digest; every case is non-trivial; distinct = (rounds, writers, readers, size); schedules are the Go scheduler's (not reproducible)",
	Gen: func(t *rapid.T) ConcScript {
		return ConcScript{
			Rounds:  rapid.IntRange(20, 60).Draw(t, "rounds"),
			Writers: rapid.IntRange(2, 6).Draw(t, "writers"),
			Readers: rapid.IntRange(1, 3).Draw(t, "readers"),
			Size:    rapid.SampledFrom([]int{1, 1000, 65536, 262144}).Draw(t, "size"),
		}
	},
	Run: runConc,
}

func TestPropConcurrentTags(t *testing.T) { propConc.Scale = 0.05; vt.Check(t, propConc) }
