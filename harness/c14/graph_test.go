package c14

// Directed shapes of tagged manifest graphs in immutable-tags mode that the history generator does
// not build: content that is stored both as a blob and as a manifest (a digest coincidence inside one
// tagged tree), and graphs whose nodes share children (a walk that does not remember what it has seen
// takes time exponential in the depth).

import (
	"bytes"
	"fmt"
	"testing"
	"time"

	"cuelabs.dev/go/oci/ociregistry"
	"cuelabs.dev/go/oci/ociregistry/ocimem"
	"github.com/opencontainers/go-digest"

	"verif/harness/vt"
)

type GraphScript struct {
	Shape string `json:"shape"` // coincidence | shared-children
	// coincidence: Order 0 = index [A, B], 1 = index [B, A]; Via: layer | config
	Order int    `json:"order,omitempty"`
	Via   string `json:"via,omitempty"`
	// shared-children: Depth of the chain of indexes that each name the index below Fanout times
	Depth  int `json:"depth,omitempty"`
	Fanout int `json:"fanout,omitempty"`
}

const (
	gLayerMT = "application/vnd.oci.image.layer.v1.tar"
	gCfgMT   = "application/vnd.oci.image.config.v1+json"
	gImgMT   = "application/vnd.oci.image.manifest.v1+json"
	gIdxMT   = "application/vnd.oci.image.index.v1+json"
)

func runGraph(s GraphScript, v *vt.V) {
	cfg := ocimem.Config{ImmutableTags: true}
	mem := ocimem.NewWithConfig(&cfg)
	const repo = "foo"
	pushBlob := func(b []byte) bool {
		_, err := mem.PushBlob(ctx, repo, ociregistry.Descriptor{MediaType: "application/octet-stream", Digest: digest.FromBytes(b), Size: int64(len(b))}, bytes.NewReader(b))
		if err != nil {
			v.Failf("harness", "push blob: %v", err)
		}
		return err == nil
	}
	pushManifest := func(tag string, b []byte, mt string) bool {
		_, err := mem.PushManifest(ctx, repo, tag, b, mt)
		if err != nil {
			v.Failf("harness", "push manifest %s: %v", b, err)
		}
		return err == nil
	}
	image := func(cfgBytes []byte, layers ...[]byte) []byte {
		var ls []string
		for _, l := range layers {
			ls = append(ls, descJSON(gLayerMT, l))
		}
		return []byte(fmt.Sprintf(`{"schemaVersion":2,"mediaType":%q,"config":%s,"layers":[%s]}`, gImgMT, descJSON(gCfgMT, cfgBytes), joinComma(ls)))
	}
	switch s.Shape {
	case "coincidence":
		// image B has layer L; image A carries the BYTES OF B as its layer (or config); the index of
		// A and B is tagged: L is referenced (through B) and stays
		l, c := []byte("layer of B"), []byte("{}")
		if !pushBlob(l) || !pushBlob(c) {
			return
		}
		b := image(c, l)
		if !pushManifest("", b, gImgMT) || !pushBlob(b) {
			return
		}
		a := image(c, b)
		if s.Via == "config" {
			a = image(b, []byte("layer of B"))
			a = []byte(fmt.Sprintf(`{"schemaVersion":2,"mediaType":%q,"config":%s,"layers":[]}`, gImgMT, descJSON(gCfgMT, b)))
		}
		if !pushManifest("", a, gImgMT) {
			return
		}
		children := []string{descJSON(gImgMT, a), descJSON(gImgMT, b)}
		if s.Order == 1 {
			children[0], children[1] = children[1], children[0]
		}
		idx := []byte(fmt.Sprintf(`{"schemaVersion":2,"mediaType":%q,"manifests":[%s]}`, gIdxMT, joinComma(children)))
		if !pushManifest("latest", idx, gIdxMT) {
			return
		}
		err := mem.DeleteBlob(ctx, repo, digest.FromBytes(l))
		r, rerr := mem.GetBlob(ctx, repo, digest.FromBytes(l))
		if rerr == nil {
			r.Close()
		}
		if rerr != nil {
			v.Failf("closure-broken", "immutable-tags mode, tag latest -> index %s, where image A carries the bytes of image B as its %s: the layer of B was deleted (delete error: %v) and is no longer retrievable: %v", idx, s.Via, err, rerr)
			return
		}
		if err := mem.DeleteManifest(ctx, repo, digest.FromBytes(b)); err == nil {
			v.Failf("closure-broken", "immutable-tags mode: image B, a child of the tagged index, was deleted")
			return
		}
	case "shared-children":
		// a chain of indexes, each naming the one below Fanout times (a client that lists one image for
		// several platforms does that); a delete of something unrelated must come back
		l, c := []byte("the layer"), []byte("{}")
		if !pushBlob(l) || !pushBlob(c) || !pushBlob([]byte("unrelated")) {
			return
		}
		cur := image(c, l)
		if !pushManifest("", cur, gImgMT) {
			return
		}
		curMT := gImgMT
		for d := 0; d < s.Depth; d++ {
			var cs []string
			for f := 0; f < s.Fanout; f++ {
				cs = append(cs, fmt.Sprintf(`{"mediaType":%q,"digest":%q,"size":%d,"platform":{"architecture":"a%d","os":"linux"}}`, curMT, digest.FromBytes(cur), len(cur), f))
			}
			cur = []byte(fmt.Sprintf(`{"schemaVersion":2,"mediaType":%q,"manifests":[%s]}`, gIdxMT, joinComma(cs)))
			curMT = gIdxMT
			tag := ""
			if d == s.Depth-1 {
				tag = "latest"
			}
			if !pushManifest(tag, cur, gIdxMT) {
				return
			}
		}
		done := make(chan error, 1)
		start := time.Now()
		go func() { done <- mem.DeleteBlob(ctx, repo, digest.FromBytes([]byte("unrelated"))) }()
		select {
		case err := <-done:
			if err != nil {
				v.Failf("unrelated-delete-refused", "deleting a blob nothing refers to failed: %v", err)
				return
			}
			v.Class("shared-children/depth=%d/delete-took<%ds", s.Depth, int(time.Since(start).Seconds())+1)
		case <-time.After(20 * time.Second):
			v.Failf("delete-never-returns", "immutable-tags mode, a tagged chain of %d indexes that each name the index below %d times (%d small manifests in all): DeleteBlob of an unrelated, unreferenced blob has not returned within 20 s (and keeps the registry locked): the reachability walk visits every path instead of every manifest", s.Depth, s.Fanout, s.Depth+1)
			return
		}
		if err := mem.DeleteBlob(ctx, repo, digest.FromBytes(l)); err == nil {
			v.Failf("closure-broken", "the layer at the bottom of the tagged chain was deleted")
			return
		}
	default:
		v.Failf("harness", "unknown shape")
		return
	}
	v.NonTrivial(fmt.Sprintf("%+v", s))
}

func joinComma(xs []string) string {
	out := ""
	for i, x := range xs {
		if i > 0 {
			out += ","
		}
		out += x
	}
	return out
}

var propGraph = &vt.Prop[GraphScript]{
	ID:   "C14",
	Name: "TaggedGraphShapes",
	Rule: "complete enumeration of directed graph shapes in immutable-tags mode: (a) a tagged index [A, B] / [B, A] where image A carries the bytes of image B as its layer / config (one digest met as a blob and as a manifest in one tree): B's layer cannot be deleted and stays retrievable, B cannot be deleted; (b) a tagged chain of 4 .. 40 indexes that each name the index below 2 or 3 times: the delete of an unrelated blob returns within 20 s, the layer at the bottom cannot be deleted; distinct = the shape",
	Run:  runGraph,
}

func TestPropGraph(t *testing.T) {
	vt.Enumerate(t, propGraph, true, func(yield func(GraphScript) bool) {
		shard, shards := vt.Shard()
		k := 0
		var all []GraphScript
		for _, via := range []string{"layer", "config"} {
			for order := 0; order < 2; order++ {
				all = append(all, GraphScript{Shape: "coincidence", Order: order, Via: via})
			}
		}
		for _, depth := range []int{4, 12, 40} {
			for _, fan := range []int{2, 3} {
				all = append(all, GraphScript{Shape: "shared-children", Depth: depth, Fanout: fan})
			}
		}
		for _, s := range all {
			k++
			if k%shards != shard {
				continue
			}
			if !yield(s) {
				return
			}
		}
	})
}
