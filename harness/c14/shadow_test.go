package c14

// Manifests whose JSON carries, next to a member the OCI schema names ("layers", "config",
// "manifests", "digest"), a member whose key differs from it in letter case only. Under the schema -
// JSON member names are case sensitive - the second one is an unknown extra member; what the
// manifest references is what the exactly spelled member says.

import (
	"bytes"
	"fmt"
	"testing"

	"cuelabs.dev/go/oci/ociregistry"
	"cuelabs.dev/go/oci/ociregistry/ocimem"
	"github.com/opencontainers/go-digest"

	"verif/harness/vt"
)

type ShadowScript struct {
	// Variant: which member is shadowed: layers | config | manifests | digest
	Variant string `json:"variant"`
	// Key: the spelling of the extra member
	Key string `json:"key"`
	// After: the extra member comes after (true) or before the real one
	After bool `json:"after"`
}

func descJSON(mt string, data []byte) string {
	return fmt.Sprintf(`{"mediaType":%q,"digest":%q,"size":%d}`, mt, digest.FromBytes(data), len(data))
}

func runShadow(s ShadowScript, v *vt.V) {
	if vt.Known("shadowed-json-key") {
		v.Excluded("shadowed-json-key")
		return
	}
	mem := ocimem.NewWithConfig(&ocimem.Config{ImmutableTags: true})
	const repo = "foo"
	const layerMT, cfgMT, imgMT, idxMT = "application/vnd.oci.image.layer.v1.tar", "application/vnd.oci.image.config.v1+json", "application/vnd.oci.image.manifest.v1+json", "application/vnd.oci.image.index.v1+json"
	real, decoy, cfg, cfg2 := []byte("the layer the manifest names"), []byte("another layer"), []byte("{}"), []byte(`{"architecture":"x"}`)
	for _, b := range [][]byte{real, decoy, cfg, cfg2} {
		if _, err := mem.PushBlob(ctx, repo, ociregistry.Descriptor{MediaType: "application/octet-stream", Digest: digest.FromBytes(b), Size: int64(len(b))}, bytes.NewReader(b)); err != nil {
			v.Failf("harness", "push blob: %v", err)
			return
		}
	}
	pair := func(key, realVal, decoyVal string) string {
		if s.After {
			return fmt.Sprintf(`%q:%s,%q:%s`, key, realVal, s.Key, decoyVal)
		}
		return fmt.Sprintf(`%q:%s,%q:%s`, s.Key, decoyVal, key, realVal)
	}
	var manifest string
	var mt = imgMT
	victim, victimKind := digest.FromBytes(real), "blob"
	switch s.Variant {
	case "layers":
		manifest = fmt.Sprintf(`{"schemaVersion":2,"mediaType":%q,"config":%s,%s}`, imgMT, descJSON(cfgMT, cfg), pair("layers", "["+descJSON(layerMT, real)+"]", "["+descJSON(layerMT, decoy)+"]"))
	case "config":
		victim = digest.FromBytes(cfg)
		manifest = fmt.Sprintf(`{"schemaVersion":2,"mediaType":%q,%s,"layers":[%s]}`, imgMT, pair("config", descJSON(cfgMT, cfg), descJSON(cfgMT, cfg2)), descJSON(layerMT, decoy))
	case "digest":
		d := fmt.Sprintf(`{"mediaType":%q,%s,"size":%d}`, layerMT, pair("digest", fmt.Sprintf("%q", digest.FromBytes(real)), fmt.Sprintf("%q", digest.FromBytes(decoy))), len(real))
		manifest = fmt.Sprintf(`{"schemaVersion":2,"mediaType":%q,"config":%s,"layers":[%s]}`, imgMT, descJSON(cfgMT, cfg), d)
	case "manifests":
		mt = idxMT
		var children [2][]byte
		for i, l := range [][]byte{real, decoy} {
			children[i] = []byte(fmt.Sprintf(`{"schemaVersion":2,"mediaType":%q,"config":%s,"layers":[%s]}`, imgMT, descJSON(cfgMT, cfg), descJSON(layerMT, l)))
			if _, err := mem.PushManifest(ctx, repo, "", children[i], imgMT); err != nil {
				v.Failf("harness", "push child manifest: %v", err)
				return
			}
		}
		victim, victimKind = digest.FromBytes(children[0]), "manifest"
		manifest = fmt.Sprintf(`{"schemaVersion":2,"mediaType":%q,%s}`, idxMT, pair("manifests", "["+descJSON(imgMT, children[0])+"]", "["+descJSON(imgMT, children[1])+"]"))
	default:
		v.Failf("harness", "unknown variant")
		return
	}
	desc := fmt.Sprintf("immutable-tags mode, manifest %s tagged foo:latest", manifest)
	if _, err := mem.PushManifest(ctx, repo, "latest", []byte(manifest), mt); err != nil {
		// refusing the ambiguous document is a sound answer
		v.Class("shadowed/%s/refused", s.Variant)
		v.NonTrivial(fmt.Sprintf("%+v", s))
		return
	}
	var err error
	if victimKind == "blob" {
		err = mem.DeleteBlob(ctx, repo, victim)
	} else {
		err = mem.DeleteManifest(ctx, repo, victim)
	}
	var rerr error
	if victimKind == "blob" {
		var r ociregistry.BlobReader
		if r, rerr = mem.GetBlob(ctx, repo, victim); rerr == nil {
			r.Close()
		}
	} else {
		var r ociregistry.BlobReader
		if r, rerr = mem.GetManifest(ctx, repo, victim); rerr == nil {
			r.Close()
		}
	}
	if rerr != nil {
		v.Failf("shadowed-json-key", "%s: the %s %s, which the manifest's %q member names, was deleted (delete error: %v) and is no longer retrievable: %v - the registry read the manifest's references from the member spelled %q instead", desc, victimKind, victim, map[string]string{"layers": "layers", "config": "config", "digest": "layers[0].digest", "manifests": "manifests"}[s.Variant], err, rerr, s.Key)
		return
	}
	v.Class("shadowed/%s/kept", s.Variant)
	v.NonTrivial(fmt.Sprintf("%+v", s))
}

var propShadow = &vt.Prop[ShadowScript]{
	ID:   "C14",
	Name: "ShadowedManifestMembers",
	Rule: "complete enumeration: image / index manifests that carry, next to layers, config, manifests or a descriptor's digest, a member whose key differs in letter case only (upper case, capitalised, one letter changed) and names other content, placed before or after the real member; tagged in immutable-tags mode (or refused), then what the exactly spelled member names is deleted: it must stay retrievable; distinct = (member, spelling, order)",
	Run:  runShadow,
}

func TestPropShadow(t *testing.T) {
	vt.Enumerate(t, propShadow, true, func(yield func(ShadowScript) bool) {
		shard, shards := vt.Shard()
		k := 0
		for _, variant := range []string{"layers", "config", "manifests", "digest"} {
			name := variant
			upper := map[string][]string{"layers": {"LAYERS", "Layers", "layerS"}, "config": {"CONFIG", "Config", "conFig"}, "manifests": {"MANIFESTS", "Manifests", "maniFests"}, "digest": {"DIGEST", "Digest", "digesT"}}[name]
			for _, key := range upper {
				for _, after := range []bool{true, false} {
					k++
					if k%shards != shard {
						continue
					}
					if !yield(ShadowScript{Variant: variant, Key: key, After: after}) {
						return
					}
				}
			}
		}
	})
}
