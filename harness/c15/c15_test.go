// Package c15 decides property C15: the unified registry is the union view
// of its members and replicates every write.
package c15

import (
	"bytes"
	"context"
	"errors"
	"fmt"
	"io"
	"sort"
	"strings"
	"testing"
	"time"

	"cuelabs.dev/go/oci/ociregistry"
	"cuelabs.dev/go/oci/ociregistry/ocimem"
	"cuelabs.dev/go/oci/ociregistry/ociunify"
	"pgregory.net/rapid"

	"verif/harness/internal/hist"
	"verif/harness/internal/ops"
	"verif/harness/vt"
)

func TestMain(m *testing.M) { vt.Main(m) }

// slow delays every digest-addressed read of a member, so that under the
// concurrent policy the other member answers first.
type slow struct {
	ociregistry.Interface
	d time.Duration
}

func (s slow) GetBlob(ctx context.Context, repo string, d ociregistry.Digest) (ociregistry.BlobReader, error) {
	time.Sleep(s.d)
	return s.Interface.GetBlob(ctx, repo, d)
}
func (s slow) GetBlobRange(ctx context.Context, repo string, d ociregistry.Digest, o0, o1 int64) (ociregistry.BlobReader, error) {
	time.Sleep(s.d)
	return s.Interface.GetBlobRange(ctx, repo, d, o0, o1)
}
func (s slow) GetManifest(ctx context.Context, repo string, d ociregistry.Digest) (ociregistry.BlobReader, error) {
	time.Sleep(s.d)
	return s.Interface.GetManifest(ctx, repo, d)
}
func (s slow) ResolveBlob(ctx context.Context, repo string, d ociregistry.Digest) (ociregistry.Descriptor, error) {
	time.Sleep(s.d)
	return s.Interface.ResolveBlob(ctx, repo, d)
}
func (s slow) ResolveManifest(ctx context.Context, repo string, d ociregistry.Digest) (ociregistry.Descriptor, error) {
	time.Sleep(s.d)
	return s.Interface.ResolveManifest(ctx, repo, d)
}

// strict makes a member's readers behave like a remote registry's: after Close they
// give no more data (an in-memory registry's reader does not mind being closed).
type strict struct{ ociregistry.Interface }

type strictReader struct {
	ociregistry.BlobReader
	ctx    context.Context
	closed bool
}

func (r *strictReader) Read(p []byte) (int, error) {
	if r.closed {
		return 0, errors.New("read from a reader that has been closed")
	}
	if err := r.ctx.Err(); err != nil {
		return 0, fmt.Errorf("read from a reader whose request was %w", err)
	}
	return r.BlobReader.Read(p)
}
func (r *strictReader) Close() error { r.closed = true; return r.BlobReader.Close() }

func strictR(ctx context.Context, r ociregistry.BlobReader, err error) (ociregistry.BlobReader, error) {
	if err != nil {
		return r, err
	}
	return &strictReader{BlobReader: r, ctx: ctx}, nil
}
func (s strict) GetBlob(ctx context.Context, repo string, d ociregistry.Digest) (ociregistry.BlobReader, error) {
	r, err := s.Interface.GetBlob(ctx, repo, d)
	return strictR(ctx, r, err)
}
func (s strict) GetBlobRange(ctx context.Context, repo string, d ociregistry.Digest, o0, o1 int64) (ociregistry.BlobReader, error) {
	r, err := s.Interface.GetBlobRange(ctx, repo, d, o0, o1)
	return strictR(ctx, r, err)
}
func (s strict) GetManifest(ctx context.Context, repo string, d ociregistry.Digest) (ociregistry.BlobReader, error) {
	r, err := s.Interface.GetManifest(ctx, repo, d)
	return strictR(ctx, r, err)
}
func (s strict) GetTag(ctx context.Context, repo string, tag string) (ociregistry.BlobReader, error) {
	r, err := s.Interface.GetTag(ctx, repo, tag)
	return strictR(ctx, r, err)
}

// ---- (a) reads over two independently populated members ----

type ReadScript struct {
	H0   hist.Script `json:"h0"` // populates member 0 (its universe is shared)
	Ops1 []ops.Op    `json:"ops1"`
	Read []ops.Op    `json:"reads"`
	Slow int         `json:"slow"` // 0 none, 1 member 0 slow, 2 member 1 slow
}

func isRead(k string) bool {
	switch k {
	case "getBlob", "resolveBlob", "getBlobRange", "getManifest", "resolveManifest", "getTag", "resolveTag", "repos", "tags", "referrers":
		return true
	}
	return false
}

func union(a, b []string) []string {
	set := map[string]bool{}
	for _, x := range a {
		set[x] = true
	}
	for _, x := range b {
		set[x] = true
	}
	out := []string{}
	for x := range set {
		out = append(out, x)
	}
	sort.Strings(out)
	return out
}

func runRead(s ReadScript, v *vt.V) {
	u := &s.H0.U
	m0, m1 := ocimem.New(), ocimem.New()
	e0, e1 := ops.NewEnv(u, m0), ops.NewEnv(u, m1)
	for _, op := range s.H0.Ops {
		if !strings.HasPrefix(op.K, "up") {
			e0.Exec(op)
		}
	}
	for _, op := range s.Ops1 {
		if !strings.HasPrefix(op.K, "up") {
			e1.Exec(op)
		}
	}
	var r0, r1 ociregistry.Interface = strict{m0}, strict{m1}
	switch s.Slow {
	case 1:
		r0 = slow{r0, 300 * time.Microsecond}
	case 2:
		r1 = slow{r1, 300 * time.Microsecond}
	}
	seq := ops.NewEnv(u, ociunify.New(r0, r1, &ociunify.Options{ReadPolicy: ociunify.ReadSequential}))
	con := ops.NewEnv(u, ociunify.New(r0, r1, &ociunify.Options{ReadPolicy: ociunify.ReadConcurrent}))
	seq.HoldListings, con.HoldListings = true, true // a listing sequence is run a second time after the next read
	differ, conflict, oneSided := 0, 0, 0
	for i, op := range s.Read {
		a, b := e0.Exec(op), e1.Exec(op)
		for pi, env := range []*ops.Env{seq, con} {
			policy := []string{"sequential", "concurrent"}[pi]
			g := env.Exec(op)
			desc := fmt.Sprintf("read %d %+v (%s policy, slow=%d): member0 err=%q member1 err=%q", i, op, policy, s.Slow, a.Err, b.Err)
			if g.Held != "" {
				v.Failf("listing-not-repeatable", "%s: nothing was written in between, and %s", desc, g.Held)
				return
			}
			switch op.K {
			case "getBlob", "resolveBlob", "getBlobRange", "getManifest", "resolveManifest":
				if op.K == "getBlobRange" && (op.O0 < 0 || (op.O1 >= 0 && op.O1 <= op.O0)) {
					continue // degenerate range
				}
				if (a.Err == "") != (b.Err == "") {
					oneSided++
				}
				switch {
				case a.Err != "" && b.Err != "":
					if g.Err == "" {
						v.Failf("phantom", "%s: neither member has it but the unified read succeeded", desc)
						return
					}
				default:
					if g.Err != "" {
						v.Failf("union-read-failed", "%s: a member has it but the unified read failed: %s", desc, g.ErrMsg)
						return
					}
					want := a
					if a.Err != "" {
						want = b
					}
					if g.Desc.Digest != want.Desc.Digest || g.Desc.Size != want.Desc.Size || !bytes.Equal(g.Data, want.Data) {
						v.Failf("union-read-wrong", "%s: unified read %v/%d bytes, member has %v/%d bytes", desc, g.Desc, len(g.Data), want.Desc, len(want.Data))
						return
					}
				}
			case "getTag", "resolveTag":
				switch {
				case a.Err == "" && b.Err == "":
					if a.Desc.Digest != b.Desc.Digest {
						conflict++
						if g.Err == "" {
							v.Failf("conflict-resolved-silently", "%s: members disagree (%s vs %s) but the unified read returned %s", desc, a.Desc.Digest, b.Desc.Digest, g.Desc.Digest)
							return
						}
						continue
					}
					if g.Err != "" || g.Desc.Digest != a.Desc.Digest || !bytes.Equal(g.Data, a.Data) {
						v.Failf("union-tag-wrong", "%s: members agree on %s but unified gives err=%q %s", desc, a.Desc.Digest, g.Err, g.Desc.Digest)
						return
					}
				case a.Err != "" && b.Err != "":
					if g.Err == "" {
						v.Failf("phantom", "%s: no member resolves the tag but the unified read succeeded", desc)
						return
					}
				default:
					oneSided++
					want := a
					if a.Err != "" {
						want = b
					}
					if g.Err != "" || g.Desc.Digest != want.Desc.Digest || !bytes.Equal(g.Data, want.Data) {
						v.Failf("union-tag-wrong", "%s: one member has the tag (%s) but unified gives err=%q (%s) %s", desc, want.Desc.Digest, g.Err, g.ErrMsg, g.Desc.Digest)
						return
					}
				}
			case "repos", "tags", "referrers":
				unknownA, unknownB := a.ListErr == "NAME_UNKNOWN", b.ListErr == "NAME_UNKNOWN"
				if unknownA != unknownB {
					oneSided++
				}
				if unknownA && unknownB {
					if g.ListErr != "NAME_UNKNOWN" || len(g.List)+len(g.Descs) > 0 {
						v.Failf("union-list-wrong", "%s: both members say NAME_UNKNOWN, unified gives %v %v err=%q", desc, g.List, g.Descs, g.ListErr)
						return
					}
					continue
				}
				if g.ListErr != "" {
					v.Failf("union-list-failed", "%s: unified listing ended with %s although a member lists fine", desc, g.ListErr)
					return
				}
				if op.K == "referrers" {
					var da, db, dg []string
					for _, d := range a.Descs {
						da = append(da, d.Digest)
					}
					for _, d := range b.Descs {
						db = append(db, d.Digest)
					}
					for _, d := range g.Descs {
						dg = append(dg, d.Digest)
					}
					if w := union(da, db); fmt.Sprint(w) != fmt.Sprint(append([]string{}, dg...)) {
						v.Failf("union-list-wrong", "%s: referrers %v, want sorted union %v", desc, dg, w)
						return
					}
				} else if w := union(a.List, b.List); fmt.Sprint(w) != fmt.Sprint(append([]string{}, g.List...)) {
					v.Failf("union-list-wrong", "%s: listing %v, want sorted duplicate-free union %v (of %v and %v)", desc, g.List, w, a.List, b.List)
					return
				}
				if fmt.Sprint(a.List, a.Descs) != fmt.Sprint(b.List, b.Descs) {
					differ++
				}
			}
		}
	}
	v.Class("reads/slow=%d/conflicts=%d/one-sided=%d", s.Slow, min(conflict, 1), min(oneSided, 1))
	if conflict+oneSided+differ > 0 {
		var k []string
		for _, op := range s.Read {
			k = append(k, op.K)
		}
		v.NonTrivial(fmt.Sprintf("%d|%d|%d|%s", s.Slow, min(conflict, 2), min(oneSided, 3), strings.Join(k, ",")))
	}
}

func genRead(t *rapid.T) ReadScript {
	cfg := hist.Config{MaxOps: 25, ValidRepos: 3, BadManifests: false, Retype: true, Deletes: true, Lists: true, MaxSmall: 20}
	h0 := hist.Gen(cfg)(t)
	h0.Immutable = false
	// member 1: another history over the same universe
	h1 := hist.Gen(cfg)(t)
	var ops1 []ops.Op
	nb, nm := len(h0.U.Blobs), len(h0.U.Manifests)
	for _, op := range h1.Ops {
		op.B, op.M = op.B%nb, op.M%nm
		if op.R >= len(h0.U.Repos) {
			op.R = 0
		}
		if rapid.IntRange(0, 3).Draw(t, "skipRepo") == 0 && op.R == len(h0.U.Repos)-1 {
			continue // the last repository tends to exist on one side only
		}
		ops1 = append(ops1, op)
	}
	// reads: what either history touched, plus random ones
	var reads []ops.Op
	all := append(append([]ops.Op{}, h0.Ops...), ops1...)
	n := rapid.IntRange(3, 25).Draw(t, "nreads")
	for i := 0; i < n; i++ {
		var op ops.Op
		if len(all) > 0 {
			op = rapid.SampledFrom(all).Draw(t, "from")
		}
		switch op.K {
		case "pushBlob", "deleteBlob", "mount":
			op.K = rapid.SampledFrom([]string{"getBlob", "resolveBlob", "getBlobRange"}).Draw(t, "rk")
			op.O0, op.O1, op.Mode = 0, -1, 0
			if op.K == "getBlobRange" {
				op.O0 = rapid.SampledFrom([]int64{0, 1, 2}).Draw(t, "o0")
				op.O1 = rapid.SampledFrom([]int64{-1, 3, 100}).Draw(t, "o1")
			}
		case "pushManifest", "deleteManifest":
			if op.T >= 0 && rapid.Bool().Draw(t, "byTag") {
				op.K = rapid.SampledFrom([]string{"getTag", "resolveTag", "tags"}).Draw(t, "rk")
			} else {
				op.K = rapid.SampledFrom([]string{"getManifest", "resolveManifest", "referrers"}).Draw(t, "rk")
			}
			op.Mode = 0
		case "deleteTag":
			op.K = rapid.SampledFrom([]string{"getTag", "resolveTag", "tags"}).Draw(t, "rk")
		default:
			if !isRead(op.K) {
				op = ops.Op{K: rapid.SampledFrom([]string{"repos", "tags", "getTag", "resolveTag"}).Draw(t, "rk"), R: rapid.IntRange(0, len(h0.U.Repos)-1).Draw(t, "r"), T: rapid.IntRange(0, len(h0.U.Tags)-1).Draw(t, "tg")}
			}
		}
		if op.T < 0 || op.T >= len(h0.U.Tags) {
			op.T = 0
		}
		if op.K == "repos" || op.K == "tags" {
			op.S = rapid.SampledFrom([]string{"", "", "a", "foo", "latest", "l"}).Draw(t, "start")
		}
		reads = append(reads, op)
	}
	if rapid.IntRange(0, 5).Draw(t, "sameReferrerTwoTypes") == 0 {
		// the same referrer (an image manifest with a subject) held by member 0 as an image manifest
		// and by member 1 as an index (the bytes parse as an index without members): the unified
		// referrers listing names it once
		for mi, m := range h0.U.Manifests {
			if m.Kind != "image" || m.SubjectKind != 1 || m.BadDesc != 0 {
				continue
			}
			if m.Config >= 0 {
				h0.Ops = append(h0.Ops, ops.Op{K: "pushBlob", R: 0, B: m.Config})
			}
			for _, l := range m.Layers {
				h0.Ops = append(h0.Ops, ops.Op{K: "pushBlob", R: 0, B: l})
			}
			h0.Ops = append(h0.Ops, ops.Op{K: "pushManifest", R: 0, M: mi, T: -1})
			ops1 = append(ops1, ops.Op{K: "pushManifest", R: 0, M: mi, T: -1, Mode: 2})
			reads = append(reads, ops.Op{K: "referrers", R: 0, M: m.SubjectRef})
			break
		}
	}
	return ReadScript{H0: h0, Ops1: ops1, Read: reads, Slow: rapid.IntRange(0, 2).Draw(t, "slow")}
}

var propRead = &vt.Prop[ReadScript]{
	ID:   "C15",
	Name: "UnionReads",
	Rule: "two ocimem members are populated by two independently generated histories over one universe (equal, disjoint, overlapping contents, the same manifest bytes stored under different media types, the same tag bound to different manifests, a repository known to one member only); the members' readers give no more data once closed or once the context of the call that opened them is cancelled, as a remote registry's do; 3-25 reads aimed at what either history touched (get/resolve blob, manifest, tag; ranges; repositories, tags, referrers with start points) are issued through ociunify under both policies, optionally with one member's digest-addressed reads delayed so that the member without the content answers first; oracle (from the members themselves) = digest reads succeed iff either member succeeds, with that member's bytes; tag reads: agreement or one side => that content, disagreement => error; listings = sorted duplicate-free union, NAME_UNKNOWN only when both say so; both policies identical; non-trivial = some read on which the members differ (conflict, one-sided, or different lists); distinct = (slow member, conflict/one-sided counts, read kinds)",
	Gen:  genRead,
	Run:  runRead,
}

// ---- (b) writes through the unifier over equal members ----

type WriteScript struct {
	Prefix     int         `json:"prefix"` // the first Prefix ops populate all registries directly
	Hist       hist.Script `json:"hist"`
	Sequential bool        `json:"sequential"`
}

func snapshot(m *ocimem.Registry, u *ops.Universe) string {
	var b strings.Builder
	e := ops.NewEnv(u, m)
	for r := range u.Repos {
		for i := range u.Blobs {
			o := e.Exec(ops.Op{K: "getBlob", R: r, B: i})
			fmt.Fprintf(&b, "blob r%d b%d %s %s\n", r, i, o.Err, o.DataSHA)
		}
		for i := range u.Manifests {
			o := e.Exec(ops.Op{K: "getManifest", R: r, M: i})
			fmt.Fprintf(&b, "man r%d m%d %s %s %s\n", r, i, o.Err, o.DataSHA, o.Desc.MediaType)
			o = e.Exec(ops.Op{K: "referrers", R: r, M: i})
			fmt.Fprintf(&b, "ref r%d m%d %v\n", r, i, o.Descs)
		}
		for i := range u.Tags {
			o := e.Exec(ops.Op{K: "resolveTag", R: r, T: i})
			fmt.Fprintf(&b, "tag r%d t%d %s %v\n", r, i, o.Err, o.Desc)
		}
		o := e.Exec(ops.Op{K: "tags", R: r})
		fmt.Fprintf(&b, "tags r%d %v %s\n", r, o.List, o.ListErr)
	}
	return b.String()
}

func runWrite(s WriteScript, v *vt.V) {
	u := &s.Hist.U
	cfg := &ocimem.Config{ImmutableTags: s.Hist.Immutable}
	m0, m1, lone := ocimem.NewWithConfig(cfg), ocimem.NewWithConfig(cfg), ocimem.NewWithConfig(cfg)
	prefix := min(s.Prefix, len(s.Hist.Ops))
	for _, m := range []*ocimem.Registry{m0, m1, lone} {
		e := ops.NewEnv(u, m)
		for _, op := range s.Hist.Ops[:prefix] {
			if !strings.HasPrefix(op.K, "up") {
				e.Exec(op)
			}
		}
	}
	pol := ociunify.ReadConcurrent
	if s.Sequential {
		pol = ociunify.ReadSequential
	}
	uni := ops.NewEnv(u, ociunify.New(m0, m1, &ociunify.Options{ReadPolicy: pol}))
	solo := ops.NewEnv(u, lone)
	defer uni.CloseAll()
	defer solo.CloseAll()
	resumes, cancels := 0, 0
	for i, op := range s.Hist.Ops[prefix:] {
		a := uni.Exec(op)
		b := solo.Exec(op)
		desc := fmt.Sprintf("op %d %+v through the unifier (policy sequential=%v)", i+prefix, op, s.Sequential)
		if a.Skipped != b.Skipped {
			v.Failf("harness", "%s: skipped on one side", desc)
			return
		}
		if (a.Err == "") != (b.Err == "") {
			v.Failf("success-differs", "%s: unifier err=%q (%s); a lone registry err=%q (%s)", desc, a.Err, a.ErrMsg, b.Err, b.ErrMsg)
			return
		}
		if a.Err == "" {
			if op.K != "upStart" && op.K != "upResume" && op.K != "upSize" && (a.Desc != b.Desc || !bytes.Equal(a.Data, b.Data) && a.HasData) {
				v.Failf("result-differs", "%s: unifier %+v / %d bytes; lone registry %+v / %d bytes", desc, a.Desc, len(a.Data), b.Desc, len(b.Data))
				return
			}
			if a.WSize != b.WSize || a.N != b.N && op.K == "upWrite" {
				v.Failf("result-differs", "%s: sizes %d/%d vs %d/%d", desc, a.WSize, a.N, b.WSize, b.N)
				return
			}
			if fmt.Sprint(a.List) != fmt.Sprint(b.List) && op.K != "repos" {
				v.Failf("result-differs", "%s: listing %v vs %v", desc, a.List, b.List)
				return
			}
		}
		switch op.K {
		case "upResume":
			resumes++
		case "upCancel":
			cancels++
		}
		s0, s1 := snapshot(m0, u), snapshot(m1, u)
		if s0 != s1 {
			v.Failf("members-diverge", "%s: the members are no longer observably equal:\n%s", desc, firstDiff(s0, s1))
			return
		}
		if sl := snapshot(lone, u); sl != s0 {
			v.Failf("differs-from-lone", "%s: the members differ from a lone registry given the same history:\n%s", desc, firstDiff(sl, s0))
			return
		}
	}
	v.Class("writes/resumes=%d/cancels=%d", min(resumes, 2), min(cancels, 1))
	var k []string
	for _, op := range s.Hist.Ops[prefix:] {
		k = append(k, fmt.Sprintf("%s%d", op.K, op.Mode))
	}
	if len(k) > 0 {
		v.NonTrivial(fmt.Sprintf("%v|%s", s.Sequential, strings.Join(k, ",")))
	}
}

func firstDiff(a, b string) string {
	la, lb := strings.Split(a, "\n"), strings.Split(b, "\n")
	for i := range la {
		if i >= len(lb) || la[i] != lb[i] {
			o := ""
			if i < len(lb) {
				o = lb[i]
			}
			return "- " + la[i] + "\n+ " + o
		}
	}
	return ""
}

var propWrite = &vt.Prop[WriteScript]{
	ID:   "C15",
	Name: "ReplicatedWrites",
	Rule: "two members and a lone reference registry start equal (a generated prefix history applied to all three); the rest of the history (<= 35 ops: pushes incl. mismatching ones, manifests with references, mounts, deletes, chunked uploads with resume in both modes, wrong offsets, cancel followed by resume and commit, both tag modes) goes through the unifier and, in parallel, to the lone registry; oracle after every step: the call succeeds through the unifier iff it succeeds on the lone registry, with the same descriptor / bytes / sizes, and member 0, member 1 and the lone registry are observably identical (every blob, manifest, media type, referrers, tag, tag listing over the universe); distinct = (policy, op sequence)",
	Gen: func(t *rapid.T) WriteScript {
		cfg := hist.Config{MaxOps: 35, ValidRepos: 2, InvalidRepos: true, Uploads: true, Mismatch: true, BadManifests: true, Retype: true, Deletes: true, Lists: true, MaxSmall: 20, NoRange: true}
		h := hist.Gen(cfg)(t)
		return WriteScript{Hist: h, Prefix: rapid.IntRange(0, len(h.Ops)/2).Draw(t, "prefix"), Sequential: rapid.Bool().Draw(t, "sequential")}
	},
	Run: runWrite,
}

func TestPropReads(t *testing.T)  { vt.Check(t, propRead) }
func TestPropWrites(t *testing.T) { vt.Check(t, propWrite) }

func TestReplay(t *testing.T) {
	vt.Register(propRead)
	vt.Register(propWrite)
	vt.Register(propFaults)
	vt.Register(propShared)
	vt.Replay(t)
}

var _ = io.EOF
