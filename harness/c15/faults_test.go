package c15

// "Every write is applied to both members and reports success only if both
// succeeded": members that start equal can only tell an implementation that
// skips a member apart from a correct one when a member fails. Here a member is
// wrapped in a layer that fails chosen write calls (at entry, after having
// consumed the content, or at commit time), the failed call is optionally
// retried, and after every call that reports success the effect is looked up in
// both members directly.

import (
	"bytes"
	"context"
	"errors"
	"fmt"
	"io"
	"strings"
	"testing"
	"time"

	"cuelabs.dev/go/oci/ociregistry"
	"cuelabs.dev/go/oci/ociregistry/ocimem"
	"cuelabs.dev/go/oci/ociregistry/ociunify"
	"github.com/opencontainers/go-digest"
	"pgregory.net/rapid"

	"verif/harness/internal/hist"
	"verif/harness/internal/ops"
	"verif/harness/vt"
)

var errInjected = errors.New("injected member fault")

// errReader fails every Read (appended to the content: "everything, then an error instead of EOF").
type errReader struct{}

func (errReader) Read([]byte) (int, error) { return 0, errors.New("injected source fault") }

// faulty fails the write calls of one member when armed.
type faulty struct {
	ociregistry.Interface
	arm   string // "", "entry", "after-read", "commit"
	fired int
}

func (f *faulty) fail() error { f.fired++; return errInjected }

func (f *faulty) PushBlob(ctx context.Context, repo string, desc ociregistry.Descriptor, r io.Reader) (ociregistry.Descriptor, error) {
	switch f.arm {
	case "entry", "commit":
		return ociregistry.Descriptor{}, f.fail()
	case "after-read":
		io.Copy(io.Discard, r)
		return ociregistry.Descriptor{}, f.fail()
	}
	return f.Interface.PushBlob(ctx, repo, desc, r)
}

func (f *faulty) PushManifest(ctx context.Context, repo, tag string, data []byte, mt string) (ociregistry.Descriptor, error) {
	if f.arm != "" {
		return ociregistry.Descriptor{}, f.fail()
	}
	return f.Interface.PushManifest(ctx, repo, tag, data, mt)
}

func (f *faulty) MountBlob(ctx context.Context, from, to string, dg ociregistry.Digest) (ociregistry.Descriptor, error) {
	if f.arm != "" {
		return ociregistry.Descriptor{}, f.fail()
	}
	return f.Interface.MountBlob(ctx, from, to, dg)
}

func (f *faulty) DeleteBlob(ctx context.Context, repo string, dg ociregistry.Digest) error {
	if f.arm != "" {
		return f.fail()
	}
	return f.Interface.DeleteBlob(ctx, repo, dg)
}

func (f *faulty) DeleteManifest(ctx context.Context, repo string, dg ociregistry.Digest) error {
	if f.arm != "" {
		return f.fail()
	}
	return f.Interface.DeleteManifest(ctx, repo, dg)
}

func (f *faulty) DeleteTag(ctx context.Context, repo string, tag string) error {
	if f.arm != "" {
		return f.fail()
	}
	return f.Interface.DeleteTag(ctx, repo, tag)
}

func (f *faulty) PushBlobChunked(ctx context.Context, repo string, chunkSize int) (ociregistry.BlobWriter, error) {
	if f.arm == "entry" {
		return nil, f.fail()
	}
	w, err := f.Interface.PushBlobChunked(ctx, repo, chunkSize)
	if err != nil {
		return nil, err
	}
	return &faultyWriter{BlobWriter: w, f: f}, nil
}

func (f *faulty) PushBlobChunkedResume(ctx context.Context, repo, id string, offset int64, chunkSize int) (ociregistry.BlobWriter, error) {
	if f.arm == "entry" {
		return nil, f.fail()
	}
	w, err := f.Interface.PushBlobChunkedResume(ctx, repo, id, offset, chunkSize)
	if err != nil {
		return nil, err
	}
	return &faultyWriter{BlobWriter: w, f: f}, nil
}

type faultyWriter struct {
	ociregistry.BlobWriter
	f *faulty
}

func (w *faultyWriter) Commit(dg ociregistry.Digest) (ociregistry.Descriptor, error) {
	if w.f.arm != "" {
		return ociregistry.Descriptor{}, w.f.fail()
	}
	return w.BlobWriter.Commit(dg)
}

type Fault struct {
	Op     int    `json:"op"`
	Member int    `json:"member"`
	Stage  string `json:"stage"`
}

type FaultScript struct {
	Prefix     int         `json:"prefix"`
	Hist       hist.Script `json:"hist"`
	Sequential bool        `json:"sequential"`
	Faults     []Fault     `json:"faults"`
}

func isWrite(k string) bool {
	switch k {
	case "pushBlob", "pushManifest", "mount", "deleteBlob", "deleteManifest", "deleteTag", "upStart", "upResume", "upCommit":
		return true
	}
	return false
}

func has(m *ocimem.Registry, kind, repo string, dg digest.Digest) bool {
	var r ociregistry.BlobReader
	var err error
	if kind == "blob" {
		r, err = m.GetBlob(context.Background(), repo, dg)
	} else {
		r, err = m.GetManifest(context.Background(), repo, dg)
	}
	if err != nil {
		return false
	}
	r.Close()
	return true
}

func runFaults(s FaultScript, v *vt.V) {
	ctx := context.Background()
	u := &s.Hist.U
	cfg := &ocimem.Config{ImmutableTags: s.Hist.Immutable}
	mems := []*ocimem.Registry{ocimem.NewWithConfig(cfg), ocimem.NewWithConfig(cfg)}
	prefix := min(s.Prefix, len(s.Hist.Ops))
	for _, m := range mems {
		e := ops.NewEnv(u, m)
		for _, op := range s.Hist.Ops[:prefix] {
			if !strings.HasPrefix(op.K, "up") {
				e.Exec(op)
			}
		}
	}
	fs := []*faulty{{Interface: mems[0]}, {Interface: mems[1]}}
	pol := ociunify.ReadConcurrent
	if s.Sequential {
		pol = ociunify.ReadSequential
	}
	uni := ops.NewEnv(u, ociunify.New(fs[0], fs[1], &ociunify.Options{ReadPolicy: pol}))
	defer uni.CloseAll()
	faultAt := map[int]Fault{}
	for _, f := range s.Faults {
		faultAt[f.Op] = f
	}
	fired, retriedOK := 0, 0
	var prevFired bool
	for i := prefix; i < len(s.Hist.Ops); i++ {
		op := s.Hist.Ops[i]
		fs[0].arm, fs[1].arm = "", ""
		fs[0].fired, fs[1].fired = 0, 0
		if f, ok := faultAt[i]; ok && f.Member >= 0 && f.Member < 2 {
			fs[f.Member].arm = f.Stage
		}
		if f, ok := faultAt[i]; ok && f.Stage == "source" && op.K == "pushBlob" && op.Mode == 0 && op.R < len(u.Repos) {
			// the caller's reader delivers the whole content and then fails: the push must fail as a
			// whole - in both members or in neither
			data := u.BlobBytes(op.B)
			dg := u.BlobDigest(op.B)
			had0, had1 := has(mems[0], "blob", u.Repos[op.R], dg), has(mems[1], "blob", u.Repos[op.R], dg)
			_, err := uni.Reg.PushBlob(ctx, u.Repos[op.R], ociregistry.Descriptor{MediaType: "application/octet-stream", Digest: dg, Size: int64(len(data))},
				io.MultiReader(bytes.NewReader(data), errReader{}))
			now0, now1 := has(mems[0], "blob", u.Repos[op.R], dg), has(mems[1], "blob", u.Repos[op.R], dg)
			if err == nil {
				v.Failf("success-despite-source-failure", "op %d %+v: the content reader failed after delivering %d bytes but PushBlob through the unifier reported success", i, op, len(data))
				return
			}
			if had0 == had1 && now0 != now1 {
				v.Failf("failed-write-applied-to-one-member", "op %d %+v: the content reader failed after delivering all %d bytes; the push failed (%v) but member 0 %s the blob and member 1 %s it", i, op, len(data), err, map[bool]string{true: "has", false: "lacks"}[now0], map[bool]string{true: "has", false: "lacks"}[now1])
				return
			}
			fired++
			prevFired = true
			v.Class("faults/source-reader")
			continue
		}
		commitRepo := 0 // the repository the writer's session belongs to
		if w := uni.Writers[op.W]; w != nil {
			commitRepo = w.Repo
		}
		// a write reports: whatever a member does with the call, the unified call returns
		var out ops.Out
		execDone := make(chan struct{})
		go func() { out = uni.Exec(op); close(execDone) }()
		select {
		case <-execDone:
		case <-time.After(20 * time.Second):
			v.Failf("write-never-reports", "op %d %+v through the unifier (sequential=%v, armed faults %q / %q): the call has not returned within 20 s", i, op, s.Sequential, fs[0].arm, fs[1].arm)
			uni.Writers = nil // (the deferred clean-up must not wait for the wedged call's handles)
			return
		}
		fs[0].arm, fs[1].arm = "", ""
		if out.Skipped || op.R >= len(u.Repos) {
			prevFired = false
			continue
		}
		desc := fmt.Sprintf("op %d %+v through the unifier (sequential=%v)", i, op, s.Sequential)
		nf := fs[0].fired + fs[1].fired
		if nf > 0 {
			fired++
			if out.Err == "" && isWrite(op.K) {
				v.Failf("success-despite-member-failure", "%s: reported success although a member failed the call (member 0 failed %d, member 1 failed %d calls)", desc, fs[0].fired, fs[1].fired)
				return
			}
		}
		if out.Err == "" && isWrite(op.K) {
			repo := u.Repos[op.R]
			if op.K == "upCommit" {
				repo = u.Repos[commitRepo]
			}
			for k, m := range mems {
				missing := ""
				switch op.K {
				case "pushBlob":
					if !has(m, "blob", repo, u.BlobDigest(op.B)) {
						missing = "the pushed blob is not there"
					}
				case "mount":
					if !has(m, "blob", repo, u.BlobDigest(op.B)) {
						missing = "the mounted blob is not there"
					}
				case "upCommit":
					if !has(m, "blob", repo, digest.Digest(out.Desc.Digest)) {
						missing = "the committed blob is not there"
					}
				case "pushManifest":
					if !has(m, "manifest", repo, u.ManDigest(op.M)) {
						missing = "the pushed manifest is not there"
					} else if op.T >= 0 && op.T < len(u.Tags) {
						d, err := m.ResolveTag(ctx, repo, u.Tags[op.T])
						if err != nil || d.Digest != u.ManDigest(op.M) {
							missing = fmt.Sprintf("the tag resolves to %v (err %v)", d.Digest, err)
						}
					}
				case "deleteBlob":
					if has(m, "blob", repo, u.BlobDigest(op.B)) {
						missing = "the deleted blob is still there"
					}
				case "deleteManifest":
					if has(m, "manifest", repo, u.ManDigest(op.M)) {
						missing = "the deleted manifest is still there"
					}
				case "deleteTag":
					if op.T >= 0 && op.T < len(u.Tags) {
						if _, err := m.ResolveTag(ctx, repo, u.Tags[op.T]); err == nil {
							missing = "the deleted tag still resolves"
						}
					}
				}
				if missing != "" {
					v.Failf("success-not-applied", "%s: reported success, but in member %d %s", desc, k, missing)
					return
				}
			}
			if prevFired {
				retriedOK++
			}
		}
		prevFired = nf > 0
	}
	v.Class("faults/fired=%d/retried-ok=%d", min(fired, 2), min(retriedOK, 1))
	if fired > 0 {
		var k []string
		for i, op := range s.Hist.Ops[prefix:] {
			x := op.K
			if f, ok := faultAt[i+prefix]; ok {
				x += "!" + f.Stage
			}
			k = append(k, x)
		}
		v.NonTrivial(fmt.Sprintf("%v|%s", s.Sequential, strings.Join(k, ",")))
	}
}

var propFaults = &vt.Prop[FaultScript]{
	ID:   "C15",
	Name: "WritesWithMemberFaults",
	Rule: "two ocimem members start equal (generated prefix); the rest of a generated history (<= 30 ops, valid names, pushes, manifests, mounts, deletes, chunked uploads) goes through the unifier (every call under a 20 s watchdog: a write reports, whatever a member does) while one member, behind a fault layer, fails chosen write calls at entry, after having consumed the pushed content, or at commit time, or the caller's content reader fails after delivering everything; a failed call is retried without the fault half of the time; oracle: a write call during which a member failed must not report success, and after every write call that reports success its effect is looked up in both members directly (pushed / mounted / committed blob and manifest present, tag bound to the pushed digest, deleted item absent); non-trivial = a fault fired; distinct = (policy, op kinds with fault positions)",
	Gen: func(t *rapid.T) FaultScript {
		cfg := hist.Config{MaxOps: 22, ValidRepos: 2, Uploads: true, Deletes: true, MaxSmall: 20, NoRange: true, NoWrongOffset: true}
		h := hist.Gen(cfg)(t)
		s := FaultScript{Sequential: rapid.Bool().Draw(t, "sequential")}
		s.Prefix = rapid.IntRange(0, len(h.Ops)/3).Draw(t, "prefix")
		var out []ops.Op
		for i, op := range h.Ops {
			out = append(out, op)
			if i < s.Prefix || !isWrite(op.K) || rapid.IntRange(0, 3).Draw(t, "fault") != 0 {
				continue
			}
			stage := rapid.SampledFrom([]string{"entry", "after-read", "commit", "source"}).Draw(t, "stage")
			s.Faults = append(s.Faults, Fault{Op: len(out) - 1, Member: rapid.IntRange(0, 1).Draw(t, "member"), Stage: stage})
			if !strings.HasPrefix(op.K, "up") && rapid.Bool().Draw(t, "retry") {
				out = append(out, op)
			}
		}
		h.Ops = out
		s.Hist = h
		return s
	},
	Run: runFaults,
}

func TestPropFaults(t *testing.T) { vt.Check(t, propFaults) }
