package c15

// One writer obtained from the unifier is shared by goroutines that write at once (both member writer
// types allow that): whatever order the chunks take, the two members hold the same content afterwards,
// and Size - the offset the documentation tells callers to resume at - counts every accepted byte.

import (
	"bytes"
	"context"
	"fmt"
	"sync"
	"testing"
	"time"

	"cuelabs.dev/go/oci/ociregistry"
	"cuelabs.dev/go/oci/ociregistry/ocimem"
	"cuelabs.dev/go/oci/ociregistry/ociunify"
	"github.com/opencontainers/go-digest"

	"verif/harness/vt"
)

type SharedScript struct {
	Writers int  `json:"writers"`
	Chunk   int  `json:"chunk"`
	Rounds  int  `json:"rounds"`
	Seq     bool `json:"sequential"`
	// CancelRace: instead of concurrent writes, one goroutine commits while another cancels; member i's
	// Commit takes CommitDelayUs[i] longer, the Cancel starts CancelAfterUs after the Commit
	CancelRace    bool   `json:"cancel_race,omitempty"`
	CommitDelayUs [2]int `json:"commit_delay_us,omitempty"`
	CancelAfterUs int    `json:"cancel_after_us,omitempty"`
}

// slowCommits is a member whose chunked writers take a little longer over Commit.
type slowCommits struct {
	ociregistry.Interface
	d time.Duration
}

func (m slowCommits) PushBlobChunked(ctx context.Context, repo string, chunkSize int) (ociregistry.BlobWriter, error) {
	w, err := m.Interface.PushBlobChunked(ctx, repo, chunkSize)
	if err != nil {
		return nil, err
	}
	return slowCommitWriter{w, m.d}, nil
}

type slowCommitWriter struct {
	ociregistry.BlobWriter
	d time.Duration
}

func (w slowCommitWriter) Commit(dg ociregistry.Digest) (ociregistry.Descriptor, error) {
	time.Sleep(w.d)
	return w.BlobWriter.Commit(dg)
}

func runCancelRace(s SharedScript, v *vt.V) {
	ctx := context.Background()
	pol := ociunify.ReadConcurrent
	if s.Seq {
		pol = ociunify.ReadSequential
	}
	content := bytes.Repeat([]byte{'Z'}, s.Chunk)
	dg := ociregistry.Digest(digest.FromBytes(content))
	outcomes := map[string]int{}
	for round := 0; round < s.Rounds; round++ {
		m0, m1 := ocimem.New(), ocimem.New()
		u := ociunify.New(
			slowCommits{m0, time.Duration(s.CommitDelayUs[0]) * time.Microsecond},
			slowCommits{m1, time.Duration(s.CommitDelayUs[1]) * time.Microsecond},
			&ociunify.Options{ReadPolicy: pol})
		w, err := u.PushBlobChunked(ctx, "foo", 0)
		if err != nil {
			v.Failf("harness", "%v", err)
			return
		}
		if _, err := w.Write(content); err != nil {
			v.Failf("harness", "%v", err)
			return
		}
		var wg sync.WaitGroup
		var cerr, xerr error
		wg.Add(2)
		go func() {
			defer wg.Done()
			_, cerr = w.Commit(dg)
		}()
		go func() {
			defer wg.Done()
			time.Sleep(time.Duration(s.CancelAfterUs) * time.Microsecond)
			xerr = w.Cancel()
		}()
		wg.Wait()
		w.Close()
		_, e0 := m0.ResolveBlob(ctx, "foo", dg)
		_, e1 := m1.ResolveBlob(ctx, "foo", dg)
		if (e0 == nil) != (e1 == nil) {
			v.Failf("members-diverged-cancel-commit", "round %d: one goroutine committed a unified upload (member commits taking %v us) while another cancelled it %d us later: Commit answered %v, Cancel answered %v, and member 0 %s the blob while member 1 %s it", round, s.CommitDelayUs, s.CancelAfterUs, cerr, xerr, has01(e0), has01(e1))
			return
		}
		if cerr == nil && e0 != nil {
			v.Failf("commit-success-without-blob", "round %d: Commit of a unified upload answered success while a Cancel ran beside it, and neither member holds the blob", round)
			return
		}
		outcomes[fmt.Sprintf("commit-ok=%v", cerr == nil)]++
	}
	v.NonTrivial(fmt.Sprintf("%+v %v", s, outcomes))
}

func runShared(s SharedScript, v *vt.V) {
	if s.CancelRace {
		runCancelRace(s, v)
		return
	}
	ctx := context.Background()
	pol := ociunify.ReadConcurrent
	if s.Seq {
		pol = ociunify.ReadSequential
	}
	for round := 0; round < s.Rounds; round++ {
		m0, m1 := ocimem.New(), ocimem.New()
		u := ociunify.New(m0, m1, &ociunify.Options{ReadPolicy: pol})
		w, err := u.PushBlobChunked(ctx, "foo", 0)
		if err != nil {
			v.Failf("harness", "%v", err)
			return
		}
		chunks := make([][]byte, s.Writers)
		for i := range chunks {
			chunks[i] = bytes.Repeat([]byte{byte('A' + i)}, s.Chunk)
		}
		var wg sync.WaitGroup
		errs := make([]error, s.Writers)
		start := make(chan struct{})
		for i := range chunks {
			wg.Add(1)
			go func() {
				defer wg.Done()
				<-start
				_, errs[i] = w.Write(chunks[i])
			}()
		}
		close(start)
		wg.Wait()
		for i, err := range errs {
			if err != nil {
				v.Failf("shared-writer-write-failed", "round %d: Write %d of %d concurrent writes through one unified writer failed: %v", round, i, s.Writers, err)
				return
			}
		}
		if got, want := w.Size(), int64(s.Writers*s.Chunk); got != want {
			v.Failf("shared-writer-size", "round %d: %d goroutines wrote %d bytes each through one unified writer, every Write succeeded, and Size() = %d (want %d)", round, s.Writers, s.Chunk, got, want)
			return
		}
		// what each member holds: commit through handles on the members' own sessions is not possible from
		// here, so the unified commit is tried with every order; whatever it answers, the members agree
		// on what they store
		var orders [][]byte
		permute(chunks, func(p [][]byte) { orders = append(orders, bytes.Join(p, nil)) })
		_, cerr := w.Commit(digest.FromBytes(orders[0]))
		w.Close()
		for _, content := range orders {
			dg := ociregistry.Digest(digest.FromBytes(content))
			_, e0 := m0.ResolveBlob(ctx, "foo", dg)
			_, e1 := m1.ResolveBlob(ctx, "foo", dg)
			if (e0 == nil) != (e1 == nil) {
				v.Failf("members-diverged", "round %d: %d goroutines wrote one chunk each through one unified writer (every Write succeeded), then Commit(order 0) answered %v: member 0 %s the blob %s and member 1 %s it - the members received the chunks in different orders", round, s.Writers, cerr, has01(e0), dg, has01(e1))
				return
			}
		}
	}
	v.NonTrivial(fmt.Sprintf("%+v", s))
}

func has01(err error) string {
	if err == nil {
		return "has"
	}
	return "lacks"
}

func permute(xs [][]byte, f func([][]byte)) {
	var rec func(int)
	rec = func(k int) {
		if k == len(xs) {
			f(xs)
			return
		}
		for i := k; i < len(xs); i++ {
			xs[k], xs[i] = xs[i], xs[k]
			rec(k + 1)
			xs[k], xs[i] = xs[i], xs[k]
		}
	}
	rec(0)
}

var propShared = &vt.Prop[SharedScript]{
	ID:   "C15",
	Name: "SharedUnifiedWriter",
	Rule: "2-3 goroutines write one distinct chunk (1 byte .. 64 KiB) each, at the same instant, through ONE writer obtained from the unifier over two empty ocimem members, 200-2000 rounds per case, both read policies; oracle = every Write succeeds, Size() equals the bytes accepted, and after a Commit attempt the two members agree, for every order of the chunks, on whether they hold that content; schedules are the Go scheduler's; plus Commit against Cancel on one writer, the members' commits taking 0-1000 us, the Cancel starting 0-500 us later, 20-200 rounds per case: the members agree on whether they hold the blob, and a successful Commit means they do",
	Run:  runShared,
}

func TestPropShared(t *testing.T) {
	vt.Enumerate(t, propShared, false, func(yield func(SharedScript) bool) {
		shard, shards := vt.Shard()
		k := 0
		rounds := 200
		if vt.Thorough() {
			rounds = 2000
		}
		for _, writers := range []int{2, 3} {
			for _, chunk := range []int{1, 100, 65536} {
				for _, seq := range []bool{false, true} {
					k++
					if k%shards != shard {
						continue
					}
					if !yield(SharedScript{Writers: writers, Chunk: chunk, Rounds: rounds, Seq: seq}) {
						return
					}
				}
			}
		}
		for _, delays := range [][2]int{{0, 0}, {300, 0}, {0, 300}, {1000, 100}} {
			for _, after := range []int{0, 50, 150, 500} {
				for _, seq := range []bool{false, true} {
					k++
					if k%shards != shard {
						continue
					}
					if !yield(SharedScript{Chunk: 100, Rounds: rounds / 10, Seq: seq, CancelRace: true, CommitDelayUs: delays, CancelAfterUs: after}) {
						return
					}
				}
			}
		}
	})
}
