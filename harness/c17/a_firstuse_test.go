package c17

// The very first use of the reference package in a process, made by many goroutines at once: the
// predicates and the parser are total from the first call on (lazily built tables must be complete
// before anybody can see them). This file sorts first, so the test runs before any other test of
// the package has touched the package under test.

import (
	"fmt"
	"sync"
	"testing"

	"cuelabs.dev/go/oci/ociregistry/ociref"

	"verif/harness/vt"
)

type FirstUseScript struct {
	Goroutines int `json:"goroutines"`
}

func runFirstUse(s FirstUseScript, v *vt.V) {
	var wg sync.WaitGroup
	start := make(chan struct{})
	var mu sync.Mutex
	first := ""
	calls := []func(){
		func() { ociref.IsValidHost("registry.example.com:5000") },
		func() { ociref.IsValidRepository("foo/bar") },
		func() { ociref.IsValidTag("latest") },
		func() { ociref.IsValidDigest("sha256:" + fmt.Sprintf("%064x", 1)) },
		func() { ociref.Parse("registry.example.com/foo/bar:latest") },
		func() { ociref.ParseRelative("foo/bar@sha256:" + fmt.Sprintf("%064x", 2)) },
	}
	for g := 0; g < s.Goroutines; g++ {
		wg.Add(1)
		go func() {
			defer wg.Done()
			defer func() {
				if r := recover(); r != nil {
					mu.Lock()
					if first == "" {
						first = fmt.Sprintf("goroutine %d of %d making the process's first calls into ociref: panic: %v", g, s.Goroutines, r)
					}
					mu.Unlock()
				}
			}()
			<-start
			for i := range calls {
				calls[(g+i)%len(calls)]()
			}
		}()
	}
	close(start)
	wg.Wait()
	if first != "" {
		v.Failf("first-use-panic", "%s", first)
		return
	}
	// and the answers are the right ones from the first call on
	if !ociref.IsValidHost("registry.example.com:5000") || !ociref.IsValidRepository("foo/bar") || ociref.IsValidRepository("Foo") {
		v.Failf("first-use-wrong", "predicates answer wrongly after concurrent first use")
	}
	v.NonTrivial(fmt.Sprint(s.Goroutines))
}

var propFirstUse = &vt.Prop[FirstUseScript]{
	ID:   "C17",
	Name: "ConcurrentFirstUse",
	Rule: "the first calls a process makes into ociref (IsValidHost, IsValidRepository, IsValidTag, IsValidDigest, Parse, ParseRelative) come from 32 goroutines released at the same instant, once per test process (16 processes per run); oracle = no call panics and the predicates answer correctly; schedules are the Go scheduler's",
	Run:  runFirstUse,
}

func TestPropAAAFirstUse(t *testing.T) {
	vt.Enumerate(t, propFirstUse, false, func(yield func(FirstUseScript) bool) {
		yield(FirstUseScript{Goroutines: 32})
	})
}
