// Package c17 decides property C17: reference parsing is a total, exact
// partition consistent with the validators and with the HTTP router.
package c17

import (
	"encoding/base64"
	"fmt"
	"net/http"
	"net/http/httptest"
	"net/url"
	"strings"
	"testing"

	"cuelabs.dev/go/oci/ociregistry"
	"cuelabs.dev/go/oci/ociregistry/ociref"
	"cuelabs.dev/go/oci/ociregistry/ociserver"
	"pgregory.net/rapid"

	"verif/harness/internal/gen"
	"verif/harness/internal/rec"
	"verif/harness/vt"
)

func TestMain(m *testing.M) { vt.Main(m) }

// ---- independent reference grammar (written from the documented grammar, no regexp shared with the code) ----

func isLowerAlnum(c byte) bool { return 'a' <= c && c <= 'z' || '0' <= c && c <= '9' }
func isAlnum(c byte) bool      { return isLowerAlnum(c) || 'A' <= c && c <= 'Z' }
func isWord(c byte) bool       { return isAlnum(c) || c == '_' }

func refValidTag(s string) bool {
	if len(s) < 1 || len(s) > 128 || !isWord(s[0]) {
		return false
	}
	for i := 1; i < len(s); i++ {
		if c := s[i]; !isWord(c) && c != '.' && c != '-' {
			return false
		}
	}
	return true
}

// component: alnum+ ( sep alnum+ )*, sep = "." | "_" | "__" | "-"+
func refValidComponent(s string) bool {
	i := 0
	run := func() bool {
		j := i
		for i < len(s) && isLowerAlnum(s[i]) {
			i++
		}
		return i > j
	}
	if !run() {
		return false
	}
	for i < len(s) {
		switch {
		case s[i] == '.':
			i++
		case s[i] == '_':
			i++
			if i < len(s) && s[i] == '_' {
				i++
			}
		case s[i] == '-':
			for i < len(s) && s[i] == '-' {
				i++
			}
		default:
			return false
		}
		if !run() {
			return false
		}
	}
	return true
}

// refValidRepoSyntax: the grammar only (no length limit; IsValidRepository has none either).
func refValidRepoSyntax(s string) bool {
	for _, c := range strings.Split(s, "/") {
		if !refValidComponent(c) {
			return false
		}
	}
	return true
}

func refValidDomainComponent(s string) bool {
	if s == "" || !isAlnum(s[0]) || !isAlnum(s[len(s)-1]) {
		return false
	}
	for i := 0; i < len(s); i++ {
		if !isAlnum(s[i]) && s[i] != '-' {
			return false
		}
	}
	return true
}

func allDigits(s string) bool {
	if s == "" {
		return false
	}
	for i := 0; i < len(s); i++ {
		if s[i] < '0' || s[i] > '9' {
			return false
		}
	}
	return true
}

func refValidHost(s string) bool {
	// ipv6 in brackets, optional port
	if strings.HasPrefix(s, "[") {
		end := strings.IndexByte(s, ']')
		if end < 2 {
			return false
		}
		for _, c := range []byte(s[1:end]) {
			if !(c == ':' || '0' <= c && c <= '9' || 'a' <= c && c <= 'f' || 'A' <= c && c <= 'F') {
				return false
			}
		}
		rest := s[end+1:]
		return rest == "" || (rest[0] == ':' && allDigits(rest[1:]))
	}
	name, port, hasPort := strings.Cut(s, ":")
	if hasPort && !allDigits(port) {
		return false
	}
	labels := strings.Split(name, ".")
	for _, l := range labels {
		if !refValidDomainComponent(l) {
			return false
		}
	}
	// a dot-less name needs a port to be a host
	return len(labels) >= 2 || hasPort
}

func refValidDigest(s string) bool {
	alg, hex, ok := strings.Cut(s, ":")
	if !ok {
		return false
	}
	n := map[string]int{"sha256": 64, "sha384": 96, "sha512": 128}[alg]
	if n == 0 || len(hex) != n {
		return false
	}
	for i := 0; i < len(hex); i++ {
		if c := hex[i]; !('0' <= c && c <= '9' || 'a' <= c && c <= 'f') {
			return false
		}
	}
	return true
}

type parts struct {
	Host, Repo, Tag, Digest string
}

// refDecompose returns every way of reading s as [host/]repo[:tag][@digest]
// with all parts valid, hosted decompositions first.
func refDecompose(s string) []parts {
	var out []parts
	x, dig, hasDig := strings.Cut(s, "@")
	if hasDig && !refValidDigest(dig) {
		return nil
	}
	type nt struct{ name, tag string }
	cands := []nt{{x, ""}}
	if i := strings.LastIndexByte(x, ':'); i >= 0 && refValidTag(x[i+1:]) {
		cands = append(cands, nt{x[:i], x[i+1:]})
	}
	for pass := 0; pass < 2; pass++ { // pass 0: with host, pass 1: without
		for _, c := range cands {
			if pass == 0 {
				h, r, ok := strings.Cut(c.name, "/")
				if ok && refValidHost(h) && refValidRepoSyntax(r) && len(r) <= 255 {
					out = append(out, parts{h, r, c.tag, dig})
				}
			} else if refValidRepoSyntax(c.name) && len(c.name) <= 255 {
				out = append(out, parts{"", c.name, c.tag, dig})
			}
		}
	}
	return out
}

// ---- check 1: arbitrary strings -------------------------------------------------

type StrScript struct {
	S string `json:"s"`
}

func runString(sc StrScript, v *vt.V) {
	s := sc.S
	// totality of every predicate (a panic is caught by vt and reported)
	vh, vr, vtg, vd := ociref.IsValidHost(s), ociref.IsValidRepository(s), ociref.IsValidTag(s), ociref.IsValidDigest(s)
	if ociregistry.IsValidTag(s) != vtg || ociregistry.IsValidDigest(s) != vd || ociregistry.IsValidRepoName(s) != vr {
		v.Failf("predicate-alias", "ociregistry.IsValid* disagree with ociref.IsValid* on %q", s)
		return
	}
	// predicates agree with the documented grammar
	if vtg != refValidTag(s) {
		v.Failf("tag-grammar", "IsValidTag(%q)=%v, documented grammar says %v", s, vtg, !vtg)
		return
	}
	if vr != refValidRepoSyntax(s) {
		v.Failf("repo-grammar", "IsValidRepository(%q)=%v, documented grammar says %v", s, vr, !vr)
		return
	}
	if vh != refValidHost(s) {
		v.Failf("host-grammar", "IsValidHost(%q)=%v, documented grammar says %v", s, vh, !vh)
		return
	}
	if vd != refValidDigest(s) {
		v.Failf("digest-grammar", "IsValidDigest(%q)=%v, registered-algorithm grammar says %v", s, vd, !vd)
		return
	}
	ref, err := ociref.ParseRelative(s)
	ref2, err2 := ociref.Parse(s)
	want := refDecompose(s)
	if err != nil {
		v.Class("rejected")
		if len(want) > 0 {
			v.NonTrivial(s)
			v.Failf("parse-rejects-valid", "ParseRelative(%q) failed (%v) but it reads as valid parts %+v", s, err, want[0])
		}
		if err2 == nil {
			v.Failf("parse-inconsistent", "Parse(%q) succeeds but ParseRelative fails", s)
		}
		// non-trivial rejection: fails only a post-grammar check
		if strings.ContainsAny(s, ":@") && refValidRepoSyntax(strings.FieldsFunc(s+"x", func(r rune) bool { return r == ':' || r == '@' })[0]) {
			v.NonTrivial(s)
			v.Class("rejected-after-grammar")
		}
		return
	}
	v.Class("parsed")
	v.NonTrivial(s)
	if ref.Host != "" {
		v.Class("parsed-with-host")
	}
	if ref.Tag != "" {
		v.Class("parsed-with-tag")
	}
	if ref.Digest != "" {
		v.Class("parsed-with-digest")
	}
	if got := ref.String(); got != s {
		v.Failf("print-not-inverse", "ParseRelative(%q).String() = %q", s, got)
		return
	}
	if ref.Host != "" && !ociref.IsValidHost(ref.Host) {
		v.Failf("part-invalid", "parsed host %q of %q fails IsValidHost", ref.Host, s)
	}
	if !ociref.IsValidRepository(ref.Repository) || len(ref.Repository) > 255 {
		v.Failf("part-invalid", "parsed repository %q (len %d) of %q is not a valid repository within the length limit", ref.Repository, len(ref.Repository), s)
	}
	if ref.Tag != "" && (!ociref.IsValidTag(ref.Tag) || len(ref.Tag) > 128) {
		v.Failf("part-invalid", "parsed tag %q of %q is not a valid tag within the length limit", ref.Tag, s)
	}
	if ref.Digest != "" && !ociref.IsValidDigest(string(ref.Digest)) {
		v.Failf("part-invalid", "parsed digest %q of %q fails IsValidDigest", ref.Digest, s)
	}
	got := parts{ref.Host, ref.Repository, ref.Tag, string(ref.Digest)}
	if len(want) == 0 {
		v.Failf("parse-accepts-invalid", "ParseRelative(%q) = %+v but no reading with valid parts exists", s, got)
		return
	}
	if got != want[0] {
		v.Failf("parse-wrong-parts", "ParseRelative(%q) = %+v, want %+v", s, got, want[0])
		return
	}
	if (err2 == nil) != (ref.Host != "") {
		v.Failf("parse-inconsistent", "Parse(%q) error=%v but ParseRelative found host %q", s, err2, ref.Host)
	} else if err2 == nil && ref2 != ref {
		v.Failf("parse-inconsistent", "Parse(%q)=%+v differs from ParseRelative %+v", s, ref2, ref)
	}
}

func genString(t *rapid.T) StrScript {
	pick := func(name string, gens ...*rapid.Generator[string]) string {
		return gens[rapid.IntRange(0, len(gens)-1).Draw(t, name+"Kind")].Draw(t, name)
	}
	var s string
	switch rapid.IntRange(0, 9).Draw(t, "strKind") {
	case 0:
		s = rapid.StringOfN(rapid.RuneFrom([]rune("ab01./:@_-[]A \x00é")), 0, 12, -1).Draw(t, "junk")
	case 1:
		s = rapid.String().Draw(t, "any")
	default:
		var b strings.Builder
		if rapid.IntRange(0, 3).Draw(t, "hasHost") > 0 {
			b.WriteString(pick("host", gen.Host(), gen.Host(), gen.Host(), rapid.SampledFrom([]string{"", "localhost", "a", "a.b:", "a.b:x", "[::1", "::1]", "a..b", "-a.b", "a-.b", "a.b:80:90", "[g::1]", "[::1]:", "exa_mple.com"})))
			b.WriteByte('/')
		}
		b.WriteString(pick("repo", gen.Repo(), gen.Repo(), gen.Repo(), gen.HostileRepo(),
			rapid.Custom(func(t *rapid.T) string { return gen.LongRepo(rapid.IntRange(253, 258).Draw(t, "longLen")) })))
		if rapid.IntRange(0, 2).Draw(t, "hasTag") > 0 {
			b.WriteByte(':')
			b.WriteString(pick("tag", gen.Tag(), gen.Tag(), gen.HostileTag(),
				rapid.Custom(func(t *rapid.T) string {
					return gen.TagOfLen(rapid.IntRange(126, 131).Draw(t, "tagLen"), rapid.IntRange(0, 40).Draw(t, "salt"))
				})))
		}
		if rapid.IntRange(0, 2).Draw(t, "hasDigest") > 0 {
			b.WriteByte('@')
			b.WriteString(pick("digest", gen.ValidDigest(), gen.ValidDigest(), gen.HostileDigest()))
		}
		s = b.String()
	}
	// 0-2 byte-level mutations, biased to component boundaries
	for n := rapid.SampledFrom([]int{0, 0, 0, 1, 1, 2}).Draw(t, "nmut"); n > 0 && len(s) > 0; n-- {
		var bounds []int
		for i := 0; i < len(s); i++ {
			if strings.IndexByte("/:@.", s[i]) >= 0 {
				bounds = append(bounds, i, i+1)
			}
		}
		i := rapid.IntRange(0, len(s)).Draw(t, "mutPos")
		if len(bounds) > 0 && rapid.Bool().Draw(t, "atBoundary") {
			i = rapid.SampledFrom(bounds).Draw(t, "boundary")
		}
		switch rapid.IntRange(0, 2).Draw(t, "mutKind") {
		case 0:
			if i < len(s) {
				s = s[:i] + s[i+1:]
			}
		case 1:
			s = s[:i] + rapid.SampledFrom([]string{"/", ":", "@", ".", "-", "_", "A", "a", "0", " ", "\n"}).Draw(t, "mutIns") + s[i:]
		default:
			if i < len(s) {
				s = s[:i] + s[i:i+1] + s[i:]
			}
		}
	}
	return StrScript{s}
}

var propString = &vt.Prop[StrScript]{
	ID:   "C17",
	Name: "RefAnyString",
	Rule: "strings assembled from valid/hostile host, repository (incl. lengths 253-258), tag (incl. lengths 126-131) and digest generators with every separator combination, then 0-2 byte mutations biased to component boundaries, plus unstructured strings; oracle = totality of all predicates, predicates == documented grammar (independent hand-written matchers), Parse(s) ok <=> an independent decomposition into valid parts exists, parsed parts == that decomposition, String() == s; non-trivial = the string parses, or is rejected although its repository part is grammatical; distinct = the string",
	Gen:  genString,
	Run:  runString,
}

// ---- check 2: valid parts -> print -> parse --------------------------------------------

type PartsScript struct {
	Host   string `json:"host"`
	Repo   string `json:"repo"`
	Tag    string `json:"tag"`
	Digest string `json:"digest"`
}

func runParts(p PartsScript, v *vt.V) {
	// parts are valid by construction; confirm with the reference grammar so a generator slip cannot raise an alarm
	if !refValidHost(p.Host) || !refValidRepoSyntax(p.Repo) || len(p.Repo) > 255 || (p.Tag != "" && !refValidTag(p.Tag)) || (p.Digest != "" && !refValidDigest(p.Digest)) {
		v.Failf("harness", "generator produced invalid parts %+v", p)
		return
	}
	if !ociref.IsValidHost(p.Host) || !ociref.IsValidRepository(p.Repo) || (p.Tag != "" && !ociref.IsValidTag(p.Tag)) || (p.Digest != "" && !ociref.IsValidDigest(p.Digest)) {
		v.Failf("predicate-rejects-valid", "a validity predicate rejects one of the grammatical parts %+v", p)
		return
	}
	ref := ociref.Reference{Host: p.Host, Repository: p.Repo, Tag: p.Tag, Digest: ociref.Digest(p.Digest)}
	s := ref.String()
	v.NonTrivial(s)
	v.Class("tag=%v,digest=%v", p.Tag != "", p.Digest != "")
	if len(p.Repo) >= 250 {
		v.Class("repo-near-limit")
	}
	if len(p.Tag) >= 127 {
		v.Class("tag-near-limit")
	}
	for _, parse := range []func(string) (ociref.Reference, error){ociref.Parse, ociref.ParseRelative} {
		got, err := parse(s)
		if err != nil {
			v.Failf("valid-parts-rejected", "valid parts %+v print to %q which does not parse: %v", p, s, err)
			return
		}
		if got != ref {
			v.Failf("roundtrip-differs", "valid parts %+v print to %q which parses to %+v", p, s, got)
			return
		}
	}
}

var propParts = &vt.Prop[PartsScript]{
	ID:   "C17",
	Name: "RefValidParts",
	Rule: "valid host (dotted, host:port, IPv4, bracketed IPv6, upper case) x valid repository (incl. exact lengths 250-255) x optional valid tag (incl. lengths 127,128) x optional valid digest (sha256/384/512), one case in eight with every part near its limit at once (hosts of 80-250 bytes); oracle = Parse(String(parts)) == parts for Parse and ParseRelative; every case is non-trivial; distinct = printed string",
	Gen: func(t *rapid.T) PartsScript {
		p := PartsScript{Host: gen.Host().Draw(t, "host")}
		if rapid.IntRange(0, 5).Draw(t, "longRepo") == 0 {
			p.Repo = gen.LongRepo(rapid.IntRange(250, 255).Draw(t, "len"))
		} else {
			p.Repo = gen.Repo().Draw(t, "repo")
		}
		if rapid.Bool().Draw(t, "hasTag") {
			p.Tag = gen.Tag().Draw(t, "tag")
		}
		if rapid.Bool().Draw(t, "hasDigest") {
			p.Digest = gen.ValidDigest().Draw(t, "digest")
		}
		if rapid.IntRange(0, 7).Draw(t, "everythingLong") == 0 {
			// every part long at once: no part is over its own limit, and there is no limit on the whole
			n := rapid.IntRange(8, 24).Draw(t, "hostLabels")
			p.Host = strings.TrimSuffix(strings.Repeat("registry9.", n), ".") + rapid.SampledFrom([]string{"", ":5000", ":65535"}).Draw(t, "port")
			p.Repo = gen.LongRepo(rapid.IntRange(250, 255).Draw(t, "len"))
			p.Tag = gen.TagOfLen(rapid.SampledFrom([]int{127, 128}).Draw(t, "tagLen"), 3)
			p.Digest = rapid.SampledFrom([]string{"sha256:", "sha384:", "sha512:"}).Draw(t, "alg")
			p.Digest += strings.Repeat("0123456789abcdef", map[string]int{"sha256:": 4, "sha384:": 6, "sha512:": 8}[p.Digest])
		}
		return p
	},
	Run: runParts,
}

// ---- check 3: the router accepts exactly what the predicates accept --------------------------

type RouteScript struct {
	Form   string `json:"form"` // manifests | blobs | tags | referrers | uploads | mount
	Method string `json:"method"`
	Repo   string `json:"repo"`
	Ref    string `json:"ref"`           // tag or digest (no '/')
	From   string `json:"from"`          // mount only
	Enc    []int  `json:"enc,omitempty"` // positions of path bytes sent percent-encoded although they need not be
}

// encodePath sets u.RawPath to an equivalent spelling of u.Path in which the bytes at the given
// positions (other than '/') are percent-encoded, as a client is free to send them; net/http hands a
// handler exactly this pair (decoded Path, RawPath as received).
func encodePath(u *url.URL, enc []int) {
	if len(enc) == 0 || len(u.Path) == 0 {
		return
	}
	at := map[int]bool{}
	for _, i := range enc {
		at[((i%len(u.Path))+len(u.Path))%len(u.Path)] = true
	}
	var b strings.Builder
	for i := 0; i < len(u.Path); i++ {
		c := u.Path[i]
		if at[i] && c != '/' {
			fmt.Fprintf(&b, "%%%02X", c)
		} else {
			b.WriteString((&url.URL{Path: string(c)}).EscapedPath())
		}
	}
	if dec, err := url.PathUnescape(b.String()); err == nil && dec == u.Path {
		u.RawPath = b.String()
	}
}

var (
	recorder = rec.New(nil)
	handler  = ociserver.New(recorder.Registry(), nil)
)

func runRoute(sc RouteScript, v *vt.V) {
	recorder.Reset()
	u := &url.URL{}
	var wantMethod string
	var want rec.Call
	reach := false
	vr := ociref.IsValidRepository(sc.Repo) // totality: may panic
	switch sc.Form {
	case "manifests":
		u.Path = "/v2/" + sc.Repo + "/manifests/" + sc.Ref
		isD, isT := ociref.IsValidDigest(sc.Ref), ociref.IsValidTag(sc.Ref)
		reach = vr && (isD || isT)
		m := map[string][2]string{"GET": {"GetManifest", "GetTag"}, "HEAD": {"ResolveManifest", "ResolveTag"}, "DELETE": {"DeleteManifest", "DeleteTag"}}[sc.Method]
		if isD {
			wantMethod, want = m[0], rec.Call{Repo: sc.Repo, Digest: sc.Ref}
		} else {
			wantMethod, want = m[1], rec.Call{Repo: sc.Repo, Tag: sc.Ref}
		}
	case "blobs":
		u.Path = "/v2/" + sc.Repo + "/blobs/" + sc.Ref
		reach = vr && ociref.IsValidDigest(sc.Ref)
		wantMethod = map[string]string{"GET": "GetBlob", "HEAD": "ResolveBlob", "DELETE": "DeleteBlob"}[sc.Method]
		want = rec.Call{Repo: sc.Repo, Digest: sc.Ref}
	case "tags":
		u.Path = "/v2/" + sc.Repo + "/tags/list"
		reach = vr
		wantMethod, want = "Tags", rec.Call{Repo: sc.Repo}
	case "referrers":
		u.Path = "/v2/" + sc.Repo + "/referrers/" + sc.Ref
		reach = vr && ociref.IsValidDigest(sc.Ref)
		wantMethod, want = "Referrers", rec.Call{Repo: sc.Repo, Digest: sc.Ref}
	case "uploads":
		u.Path = "/v2/" + sc.Repo + "/blobs/uploads/"
		reach = vr
		wantMethod, want = "PushBlobChunked", rec.Call{Repo: sc.Repo}
	case "uploadSession":
		// GET (status), PATCH (chunk) and PUT (completion, digest in the query) of an upload in progress
		u.Path = "/v2/" + sc.Repo + "/blobs/uploads/" + base64.RawURLEncoding.EncodeToString([]byte("upload-1"))
		reach = vr
		if sc.Method == "PUT" {
			u.RawQuery = url.Values{"digest": {sc.Ref}}.Encode()
			reach = vr && ociref.IsValidDigest(sc.Ref)
		}
		wantMethod, want = "PushBlobChunkedResume", rec.Call{Repo: sc.Repo, ID: "upload-1"}
	case "mount":
		u.Path = "/v2/" + sc.Repo + "/blobs/uploads/"
		u.RawQuery = url.Values{"mount": {sc.Ref}, "from": {sc.From}}.Encode()
		// an empty mount parameter means "plain upload" in the protocol: keep the oracle to the mount form
		if sc.Ref == "" {
			return
		}
		if sc.From == "" {
			// a mount digest without a source: the protocol falls back to a plain upload - of a
			// request whose digest is a digest (the URL carries it, the router judges it)
			u.RawQuery = url.Values{"mount": {sc.Ref}}.Encode()
			reach = vr && ociref.IsValidDigest(sc.Ref)
			wantMethod, want = "PushBlobChunked", rec.Call{Repo: sc.Repo}
			break
		}
		reach = vr && ociref.IsValidDigest(sc.Ref) && ociref.IsValidRepository(sc.From)
		wantMethod, want = "MountBlob", rec.Call{Repo: sc.Repo, FromRepo: sc.From, Digest: sc.Ref}
	default:
		v.Failf("harness", "bad form")
		return
	}
	want.Method = wantMethod
	if strings.Contains(sc.Ref, "/") {
		v.Failf("harness", "ref with slash is outside the domain")
		return
	}
	encodePath(u, sc.Enc)
	req := &http.Request{Method: sc.Method, URL: u, Header: http.Header{}, Body: http.NoBody, Host: "x", Proto: "HTTP/1.1", ProtoMajor: 1, ProtoMinor: 1}
	w := httptest.NewRecorder()
	handler.ServeHTTP(w, req) // a panic is caught by vt
	calls := recorder.Calls()
	for _, r := range recorder.Readers() {
		r.Close()
	}
	v.Class("%s/reach=%v", sc.Form, reach)
	if reach || vr {
		v.NonTrivial(fmt.Sprintf("%s %s %q %q %q", sc.Form, sc.Method, sc.Repo, sc.Ref, sc.From))
	}
	if !reach {
		if len(calls) != 0 {
			v.Failf("router-laxer", "%s %s: predicates reject (repo %q, ref %q, from %q) but the backend was called: %v", sc.Method, u, sc.Repo, sc.Ref, sc.From, calls)
		}
		if w.Code < 400 {
			v.Failf("router-laxer", "%s %s: predicates reject the names but status is %d", sc.Method, u, w.Code)
		}
		return
	}
	if len(calls) != 1 {
		v.Failf("router-stricter", "%s %s: predicates accept (repo %q, ref %q, from %q) but the backend saw %d calls %v (status %d)", sc.Method, u, sc.Repo, sc.Ref, sc.From, len(calls), calls, w.Code)
		return
	}
	got := calls[0]
	got.Ctx = nil
	got.ChunkSize, got.Offset0, got.Offset1 = 0, 0, 0
	if got.String() != want.String() {
		v.Failf("router-wrong-args", "%s %s: backend saw %v, want %v", sc.Method, u, got, want)
	}
}

func genRoute(t *rapid.T) RouteScript {
	sc := RouteScript{Form: rapid.SampledFrom([]string{"manifests", "manifests", "manifests", "blobs", "tags", "referrers", "uploads", "uploadSession", "mount"}).Draw(t, "form")}
	repo := func(name string) string {
		switch rapid.IntRange(0, 5).Draw(t, name+"Kind") {
		case 0, 1:
			return gen.HostileRepo().Draw(t, name)
		case 2:
			return gen.LongRepo(rapid.IntRange(254, 257).Draw(t, name+"Len"))
		}
		return gen.Repo().Draw(t, name)
	}
	noSlash := func(s string) string { return strings.ReplaceAll(s, "/", "") }
	sc.Repo = repo("repo")
	switch sc.Form {
	case "manifests":
		sc.Method = rapid.SampledFrom([]string{"GET", "HEAD", "DELETE"}).Draw(t, "method")
		switch rapid.IntRange(0, 5).Draw(t, "refKind") {
		case 0:
			sc.Ref = gen.ValidDigest().Draw(t, "ref")
		case 1:
			sc.Ref = noSlash(gen.HostileDigest().Draw(t, "ref"))
		case 2:
			sc.Ref = noSlash(gen.HostileTag().Draw(t, "ref"))
		case 3:
			sc.Ref = gen.TagOfLen(rapid.IntRange(126, 130).Draw(t, "tagLen"), 5)
		default:
			sc.Ref = gen.Tag().Draw(t, "ref")
		}
	case "blobs":
		sc.Method = rapid.SampledFrom([]string{"GET", "HEAD", "DELETE"}).Draw(t, "method")
		if rapid.Bool().Draw(t, "goodDigest") {
			sc.Ref = gen.ValidDigest().Draw(t, "ref")
		} else {
			sc.Ref = noSlash(gen.HostileDigest().Draw(t, "ref"))
		}
	case "referrers":
		sc.Method = "GET"
		if rapid.Bool().Draw(t, "goodDigest") {
			sc.Ref = gen.ValidDigest().Draw(t, "ref")
		} else {
			sc.Ref = noSlash(gen.HostileDigest().Draw(t, "ref"))
		}
	case "tags":
		sc.Method = "GET"
	case "uploadSession":
		sc.Method = rapid.SampledFrom([]string{"GET", "PATCH", "PUT"}).Draw(t, "method")
		if sc.Method == "PUT" {
			if rapid.IntRange(0, 3).Draw(t, "goodDigest") > 0 {
				sc.Ref = gen.ValidDigest().Draw(t, "ref")
			} else {
				sc.Ref = noSlash(gen.HostileDigest().Draw(t, "ref"))
			}
		}
	case "uploads":
		sc.Method = "POST"
	case "mount":
		sc.Method = "POST"
		if rapid.IntRange(0, 3).Draw(t, "goodDigest") > 0 {
			sc.Ref = gen.ValidDigest().Draw(t, "ref")
		} else {
			sc.Ref = noSlash(gen.HostileDigest().Draw(t, "ref"))
		}
		sc.From = repo("from")
		if rapid.IntRange(0, 3).Draw(t, "noFrom") == 0 {
			sc.From = ""
		}
	}
	if rapid.IntRange(0, 2).Draw(t, "encoded") == 0 {
		sc.Enc = rapid.SliceOfN(rapid.IntRange(0, 400), 1, 4).Draw(t, "enc")
	}
	return sc
}

var propRoute = &vt.Prop[RouteScript]{
	ID:   "C17",
	Name: "RouterAgreesWithPredicates",
	Rule: "requests GET/HEAD/DELETE /v2/<r>/manifests/<ref>, /blobs/<ref>, GET /tags/list, /referrers/<ref>, POST /blobs/uploads/ (plain form, mount form, mount digest without a source), GET/PATCH/PUT /blobs/uploads/<id> with r, from drawn from valid (routing words, lengths 254-257) and hostile repository generators (empty, dot segments, slashes, upper case, NUL, UTF-8) and ref from valid/hostile tags and digests incl. the empty string, driven through ociserver.ServeHTTP with hand-built URLs, a third of them with 1-4 path bytes percent-encoded although they need not be (the decoded path is what names the repository); oracle = backend (recorder) reached iff IsValidRepository(r) and IsValidTag/IsValidDigest(ref), and then with exactly (r, ref); non-trivial = repository valid or request reached the backend; distinct = request",
	Gen:  genRoute,
	Run:  runRoute,
}

func TestPropString(t *testing.T) { propString.Scale = 4; vt.Check(t, propString) }
func TestPropParts(t *testing.T)  { vt.Check(t, propParts) }
func TestPropRoute(t *testing.T)  { propRoute.Scale = 2; vt.Check(t, propRoute) }

func TestReplay(t *testing.T) {
	vt.Register(propString)
	vt.Register(propParts)
	vt.Register(propRoute)
	vt.Register(propFirstUse)
	vt.Replay(t)
}

// FuzzParse is the native coverage-guided target (thorough tier, and replayed
// from testdata/fuzz in every run).
func FuzzParse(f *testing.F) {
	for _, s := range seedCorpus {
		f.Add(s)
	}
	f.Fuzz(func(t *testing.T, s string) {
		if v := vt.RunOne(propString, StrScript{s}); v.Failed() {
			t.Fatalf("%s", v.Failure())
		}
	})
}
