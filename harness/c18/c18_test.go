// Package c18 decides property C18: the HTTP client survives any server
// response: no panic, and every call returns within a bounded number of
// requests.
package c18

import (
	"bytes"
	"context"
	"errors"
	"fmt"
	"io"
	"net/http"
	"strings"
	"sync"
	"testing"
	"time"

	"cuelabs.dev/go/oci/ociregistry"
	"cuelabs.dev/go/oci/ociregistry/ociauth"
	"cuelabs.dev/go/oci/ociregistry/ociclient"
	"github.com/opencontainers/go-digest"
	"pgregory.net/rapid"

	"verif/harness/vt"
)

func TestMain(m *testing.M) { vt.Main(m) }

type Resp struct {
	Status  int               `json:"status"`
	Headers map[string]string `json:"headers,omitempty"`
	Body    string            `json:"body"`  // kind, see bodyFor
	CL      string            `json:"cl"`    // exact | unknown | longer | shorter
	Fault   string            `json:"fault"` // informational: which part is abnormal
}

type Script struct {
	PageSize int    `json:"page_size"`
	Op       string `json:"op"`
	Resps    []Resp `json:"resps"`
	Hint     int    `json:"hint,omitempty"`
	// Auth: the client is configured with ociauth's standard transport on top of the scripted one;
	// the server first answers 401 with a Bearer challenge (realm on the registry's own host) and
	// an error body, then the token request, then the script.
	Auth bool `json:"auth,omitempty"`
	// TokenBody: what the token request is answered with (Auth only): "" = a proper token document
	TokenBody string `json:"token_body,omitempty"`
	// Challenge: which of the challenges the first 401 carries (Auth only)
	Challenge int `json:"challenge,omitempty"`
}

// challenges: what the registry's first 401 says (Auth only); the first is the ordinary one, the others
// are lists with empty elements, stray separators and unfinished parts - whatever the client makes of
// them, it answers or gives up
var challenges = []string{
	`Bearer realm="http://registry.test/token",service="registry.test"`,
	`Bearer realm="http://registry.test/token",,service="registry.test"`,
	`Bearer realm="http://registry.test/token", ,`,
	`Bearer ,realm="http://registry.test/token"`,
	`Basic ,realm="x"`,
	`Bearer realm="http://registry.test/token",service=`,
	`Bearer realm="http://registry.test/token" service="registry.test"`,
	`Bearer realm="http://registry.test/token",=,`,
	`,,Bearer realm="http://registry.test/token"`,
	`Bearer realm="http://registry.test/token\`,
	`Bearer realm=http://registry.test/token,service=registry.test,`,
}

var sample = []byte("0123456789")
var sampleDg = digest.FromBytes(sample)

func bodyFor(kind string) []byte {
	switch kind {
	case "empty":
		return nil
	case "token":
		return []byte(`{"token":"scripted-token","expires_in":300}`)
	case "jsonnull":
		return []byte(" null ")
	case "jsonobj":
		return []byte(`{}`)
	case "jsonarr":
		return []byte(`[]`)
	case "tokennum":
		return []byte(`{"token":5,"expires_in":"x","issued_at":7}`)
	case "tokenhuge":
		return []byte(`{"token":"t","expires_in":99999999999999999999,"issued_at":"never"}`)
	case "blob":
		return sample
	case "tags":
		return []byte(`{"name":"foo","tags":["a","b"]}`)
	case "tags1":
		return []byte(`{"name":"foo","tags":["a"]}`)
	case "tags0":
		return []byte(`{"name":"foo","tags":[]}`)
	case "tagsnull":
		return []byte(`{"name":"foo","tags":null}`)
	case "catalog":
		return []byte(`{"repositories":["r1","r2"]}`)
	case "index":
		return []byte(`{"schemaVersion":2,"manifests":[{"mediaType":"m","digest":"` + string(sampleDg) + `","size":10}]}`)
	case "index5":
		// referrers of several artifact types (the registry did not filter)
		var ms []string
		for i, at := range []string{"other/type", "want/type", "other/type", "", "third/type", "want/type", "other/type"} {
			ms = append(ms, fmt.Sprintf(`{"mediaType":"m","digest":"%s","size":%d,"artifactType":%q}`, digest.FromString(fmt.Sprint(i)), 10+i, at))
		}
		return []byte(`{"schemaVersion":2,"manifests":[` + strings.Join(ms, ",") + `]}`)
	case "error":
		return []byte(`{"errors":[{"code":"BLOB_UNKNOWN","message":"nope"}]}`)
	case "errors0":
		return []byte(`{"errors":[]}`)
	case "truncated":
		return []byte(`{"name":"foo","tags":["a",`)
	case "wrongshape":
		return []byte(`{"name":7,"tags":{"a":1},"repositories":"x","manifests":5,"errors":{"code":1}}`)
	case "garbage":
		return []byte("\x00\xff<html>not json</html>")
	case "null":
		return []byte("null")
	case "big200k":
		return bytes.Repeat([]byte("0123456789abcdef"), 200*1024/16)
	case "huge":
		return bytes.Repeat([]byte(`{"errors":[{"code":"X","message":"`+strings.Repeat("m", 1000)+`"}]} `), 2100)
	case "hugetags":
		var b strings.Builder
		b.WriteString(`{"name":"foo","tags":[`)
		for i := 0; i < 3000; i++ {
			if i > 0 {
				b.WriteByte(',')
			}
			fmt.Fprintf(&b, `"t%05d"`, i)
		}
		b.WriteString("]}")
		return []byte(b.String())
	}
	return []byte(kind)
}

type scripted struct {
	mu       sync.Mutex
	resps    []Resp
	next     int
	requests int
	aborted  bool
	// open counts the response bodies handed out and not yet closed or read to the end;
	// overlap records a request made while such a body was open: with a transport limited to one
	// connection per host that request can never be sent (the operation would hang on itself)
	open    int
	overlap string
	paths   []string // method and path of every request
}

// trackedBody counts as open until it is closed or has reported EOF.
type trackedBody struct {
	io.Reader
	s    *scripted
	done bool
}

func (b *trackedBody) release() {
	b.s.mu.Lock()
	if !b.done {
		b.done = true
		b.s.open--
	}
	b.s.mu.Unlock()
}

func (b *trackedBody) Read(p []byte) (int, error) {
	n, err := b.Reader.Read(p)
	if err != nil {
		b.release()
	}
	return n, err
}

func (b *trackedBody) Close() error { b.release(); return nil }

// hijackedBody is the body of a 101 response: a connection on which the peer sends nothing.
type hijackedBody struct {
	s      *scripted
	closed chan struct{}
	once   sync.Once
}

func (b *hijackedBody) Read(p []byte) (int, error) {
	<-b.closed
	return 0, errors.New("read on a closed connection")
}
func (b *hijackedBody) Write(p []byte) (int, error) { return len(p), nil }
func (b *hijackedBody) Close() error {
	b.once.Do(func() {
		close(b.closed)
		b.s.mu.Lock()
		b.s.open--
		b.s.mu.Unlock()
	})
	return nil
}

var errExhausted = errors.New("scripted transport: the server's answers are exhausted")

func (s *scripted) RoundTrip(req *http.Request) (*http.Response, error) {
	if req.Body != nil {
		io.Copy(io.Discard, req.Body)
		req.Body.Close()
	}
	s.mu.Lock()
	defer s.mu.Unlock()
	s.requests++
	s.paths = append(s.paths, req.Method+" "+req.URL.Path)
	if s.open > 0 && s.overlap == "" {
		s.overlap = req.Method + " " + req.URL.Path
	}
	if s.requests > 200 {
		s.aborted = true
		return nil, errors.New("scripted transport: watchdog: more than 200 requests in one call")
	}
	if s.next >= len(s.resps) {
		return nil, errExhausted
	}
	r := s.resps[s.next]
	s.next++
	body := bodyFor(r.Body)
	h := http.Header{}
	for k, v := range r.Headers {
		h.Set(k, v)
	}
	resp := &http.Response{StatusCode: r.Status, Status: fmt.Sprintf("%d %s", r.Status, http.StatusText(r.Status)), Header: h,
		Proto: "HTTP/1.1", ProtoMajor: 1, ProtoMinor: 1, Request: req, ContentLength: int64(len(body))}
	switch r.CL {
	case "unknown":
		resp.ContentLength = -1
	case "longer":
		resp.ContentLength = int64(len(body)) + 7
	case "shorter":
		if len(body) > 0 {
			resp.ContentLength = int64(len(body)) - 1
		}
	}
	if r.Status == 101 && h.Get("Upgrade") != "" {
		// as net/http delivers a protocol switch: the body is the connection, on which nothing more
		// arrives; a Read returns only when the body is closed
		s.open++
		resp.ContentLength = 0
		resp.Body = &hijackedBody{s: s, closed: make(chan struct{})}
		return resp, nil
	}
	if req.Method == "HEAD" || r.Status == 204 || r.Status == 304 || r.Status < 200 {
		body = nil // as net/http delivers them: such responses have no body
	}
	if len(body) == 0 {
		resp.Body = http.NoBody // (a connection is free again as soon as an empty body has been delivered)
		return resp, nil
	}
	s.open++
	resp.Body = &trackedBody{Reader: bytes.NewReader(body), s: s}
	return resp, nil
}

func (s *scripted) left() int {
	s.mu.Lock()
	defer s.mu.Unlock()
	return len(s.resps) - s.next
}
func (s *scripted) count() int {
	s.mu.Lock()
	defer s.mu.Unlock()
	return s.requests
}

// inspect does what any caller does with a returned error: print it and look for the
// documented error interfaces in its chain. An error value that cannot be inspected without a
// panic is not "a result or an error".
func inspect(err error) {
	for e := err; e != nil; e = errors.Unwrap(e) {
		_ = e.Error()
	}
	var oe ociregistry.Error
	if errors.As(err, &oe) {
		oe.Code()
		oe.Detail()
		_ = oe.Error()
	}
	var he ociregistry.HTTPError
	if errors.As(err, &he) {
		he.StatusCode()
		he.Response()
		he.ResponseBody()
	}
	errors.Is(err, ociregistry.ErrBlobUnknown)
}

var hung bool // a previous case left a goroutine spinning: results are no longer trustworthy for timing

func run(s Script, v *vt.V) {
	tr := &scripted{resps: s.Resps}
	var transport http.RoundTripper = tr
	tokenBody := s.TokenBody
	if tokenBody == "" {
		tokenBody = "token"
	}
	if s.Auth {
		tr.resps = append([]Resp{
			{Status: 401, Headers: map[string]string{"Www-Authenticate": challenges[s.Challenge%len(challenges)], "Content-Type": "application/json"}, Body: "error", CL: "exact", Fault: "none"},
			{Status: 200, Headers: map[string]string{"Content-Type": "application/json"}, Body: tokenBody, CL: "exact", Fault: "none"},
		}, s.Resps...)
		transport = ociauth.NewStdTransport(ociauth.StdTransportParams{Transport: tr})
	}
	c, err := ociclient.New("registry.test", &ociclient.Options{Transport: transport, ListPageSize: s.PageSize, Insecure: true})
	if err != nil {
		v.Failf("harness", "%v", err)
		return
	}
	ctx := context.Background()
	desc := fmt.Sprintf("op %s, ListPageSize %d, responses %+v", s.Op, s.PageSize, s.Resps)
	// step runs one API call under the oracle: it must return, without panicking,
	// after at most (responses left) + 1 requests.
	step := func(name string, f func() error) bool {
		budget := tr.left() + 1
		before := tr.count()
		done := make(chan any, 1)
		go func() {
			defer func() {
				if r := recover(); r != nil {
					done <- fmt.Sprintf("panic: %v", r)
					return
				}
			}()
			if err := f(); err != nil {
				inspect(err)
			}
			done <- nil
		}()
		select {
		case r := <-done:
			if r != nil {
				v.Failf("panic", "%s: %s: %v", desc, name, r)
				return false
			}
		case <-time.After(10 * time.Second):
			hung = true
			v.Failf("no-return", "%s: %s did not return within 10 s after %d requests (it is looping without asking the server anything)", desc, name, tr.count()-before)
			return false
		}
		tr.mu.Lock()
		overlap := tr.overlap
		tr.mu.Unlock()
		if overlap != "" {
			v.Failf("request-while-holding-body", "%s: %s sent %s while it was still holding the unread body of an earlier response of the same call: with a transport that allows one connection per host (http.Transport{MaxConnsPerHost: 1}) this request waits for a connection that only the call itself can free - it never returns", desc, name, overlap)
			return false
		}
		tr.mu.Lock()
		stillOpen := tr.open
		tr.mu.Unlock()
		if stillOpen > 0 {
			v.Failf("response-body-never-closed", "%s: %s has returned (every reader it handed out was read and closed) and %d response bodies are neither closed nor read to their end: their connections are never given back (a transport with MaxConnsPerHost: 1 makes the next operation wait forever)", desc, name, stillOpen)
			return false
		}
		if used := tr.count() - before; used > budget || tr.aborted {
			v.Failf("unbounded-requests", "%s: %s issued %d requests with only %d answers left", desc, name, used, budget-1)
			return false
		}
		return true
	}
	drainR := func(get func() (ociregistry.BlobReader, error)) func() error {
		return func() error {
			r, err := get()
			if err != nil {
				return err
			}
			defer r.Close()
			r.Descriptor()
			_, err = io.Copy(io.Discard, io.LimitReader(r, 8<<20))
			return err
		}
	}
	ok := true
	switch s.Op {
	case "GetBlob":
		ok = step("GetBlob+read", drainR(func() (ociregistry.BlobReader, error) { return c.GetBlob(ctx, "foo", sampleDg) }))
	case "GetBlobRange":
		ok = step("GetBlobRange+read", drainR(func() (ociregistry.BlobReader, error) { return c.GetBlobRange(ctx, "foo", sampleDg, 2, 5) }))
	case "GetBlobRangeOpen":
		ok = step("GetBlobRange(3,-1)+read", drainR(func() (ociregistry.BlobReader, error) { return c.GetBlobRange(ctx, "foo", sampleDg, 3, -1) }))
	case "GetManifest":
		ok = step("GetManifest+read", drainR(func() (ociregistry.BlobReader, error) { return c.GetManifest(ctx, "foo", sampleDg) }))
	case "GetTag", "GetTagLarge":
		ok = step("GetTag+read", drainR(func() (ociregistry.BlobReader, error) { return c.GetTag(ctx, "foo", "latest") }))
	case "ResolveBlob":
		ok = step("ResolveBlob", func() error { _, err := c.ResolveBlob(ctx, "foo", sampleDg); return err })
	case "ResolveManifest":
		ok = step("ResolveManifest", func() error { _, err := c.ResolveManifest(ctx, "foo", sampleDg); return err })
	case "ResolveTag":
		ok = step("ResolveTag", func() error { _, err := c.ResolveTag(ctx, "foo", "latest"); return err })
	case "PushBlob":
		ok = step("PushBlob", func() error {
			_, err := c.PushBlob(ctx, "foo", ociregistry.Descriptor{Digest: sampleDg, Size: 10, MediaType: "application/octet-stream"}, bytes.NewReader(sample))
			return err
		})
	case "PushManifest":
		ok = step("PushManifest", func() error { _, err := c.PushManifest(ctx, "foo", "latest", []byte("{}"), "m/t"); return err })
	case "MountBlob":
		ok = step("MountBlob", func() error { _, err := c.MountBlob(ctx, "bar", "foo", sampleDg); return err })
	case "DeleteBlob":
		ok = step("DeleteBlob", func() error { return c.DeleteBlob(ctx, "foo", sampleDg) })
	case "DeleteManifest":
		ok = step("DeleteManifest", func() error { return c.DeleteManifest(ctx, "foo", sampleDg) })
	case "DeleteTag":
		ok = step("DeleteTag", func() error { return c.DeleteTag(ctx, "foo", "latest") })
	case "Tags":
		seq := c.Tags(ctx, "foo", "")
		ok = step("Tags drain", func() error { _, err := ociregistry.All(seq); return err })
		ok = ok && step("Tags drain, the same sequence run again", func() error { _, err := ociregistry.All(seq); return err })
	case "Repositories":
		seq := c.Repositories(ctx, "a")
		ok = step("Repositories drain", func() error { _, err := ociregistry.All(seq); return err })
		ok = ok && step("Repositories drain, the same sequence run again", func() error { _, err := ociregistry.All(seq); return err })
	case "Referrers":
		seq := c.Referrers(ctx, "foo", sampleDg, []string{"", "want/type", "absent/type"}[max(s.Hint, 0)%3])
		ok = step("Referrers drain", func() error { _, err := ociregistry.All(seq); return err })
		ok = ok && step("Referrers drain, the same sequence run again", func() error { _, err := ociregistry.All(seq); return err })
	case "Chunked", "ResumeExplicit", "ResumeQuery":
		var w ociregistry.BlobWriter
		ok = step("open writer", func() error {
			var err error
			switch s.Op {
			case "Chunked":
				w, err = c.PushBlobChunked(ctx, "foo", s.Hint)
			case "ResumeExplicit":
				w, err = c.PushBlobChunkedResume(ctx, "foo", "/v2/foo/blobs/uploads/aWQ", 5, s.Hint)
			default:
				w, err = c.PushBlobChunkedResume(ctx, "foo", "/v2/foo/blobs/uploads/aWQ", -1, s.Hint)
			}
			return err
		})
		if ok && w != nil {
			ok = step("Write small", func() error { _, err := w.Write(sample); return err }) &&
				step("Write 100 KiB", func() error { _, err := w.Write(make([]byte, 100<<10)); return err }) &&
				step("Size/ID/ChunkSize", func() error { w.Size(); w.ID(); w.ChunkSize(); return nil }) &&
				step("Close", func() error { return w.Close() }) &&
				step("Commit", func() error { _, err := w.Commit(sampleDg); return err }) &&
				step("Size/ID/ChunkSize after Commit", func() error { w.Size(); w.ID(); w.ChunkSize(); return nil }) &&
				step("Commit again", func() error { _, err := w.Commit(sampleDg); return err }) &&
				step("Write after Commit", func() error { _, err := w.Write(sample); return err }) &&
				step("Cancel", func() error { return w.Cancel() }) &&
				step("Close again", func() error { return w.Close() })
		}
	default:
		v.Failf("harness", "unknown op %q", s.Op)
		return
	}
	if !ok {
		return
	}
	faults := 0
	consumed := min(max(len(s.Resps)-tr.left(), 0), len(s.Resps)) // (a client that gives up on the challenge leaves more than the script's own answers)
	for _, r := range s.Resps[:consumed] {
		if r.Fault != "" && r.Fault != "none" {
			faults++
		}
	}
	v.Class("op:%s", s.Op)
	v.Class("pagesize=%d", s.PageSize)
	if faults > 0 {
		var fv []string
		for _, r := range s.Resps[:consumed] {
			fv = append(fv, fmt.Sprintf("%d/%s/%s/%s", r.Status, r.Fault, r.Body, r.CL))
		}
		v.NonTrivial(s.Op + "|" + fmt.Sprint(s.PageSize) + "|" + strings.Join(fv, ";"))
	}
}

var ops = []string{"GetBlob", "GetBlobRange", "GetBlobRangeOpen", "GetManifest", "GetTag", "GetTagLarge", "ResolveBlob", "ResolveManifest", "ResolveTag",
	"PushBlob", "PushManifest", "MountBlob", "DeleteBlob", "DeleteManifest", "DeleteTag", "Tags", "Repositories", "Referrers",
	"Chunked", "ResumeExplicit", "ResumeQuery"}

// expected (well-behaved) response per op step, which faults then distort
func goodFor(op string, i int) Resp {
	h := map[string]string{}
	r := Resp{Status: 200, Headers: h, Body: "empty", CL: "exact", Fault: "none"}
	loc := "/v2/foo/blobs/uploads/aWQ"
	switch op {
	case "GetBlob", "GetManifest":
		r.Body = "blob"
		h["Docker-Content-Digest"], h["Content-Type"] = string(sampleDg), "application/octet-stream"
	case "GetTag":
		r.Body = "blob"
		h["Content-Type"] = "application/vnd.x"
		if i == 0 {
			h["Docker-Content-Digest"] = string(sampleDg)
		}
	case "GetTagLarge":
		// a tag GET without digest header whose body is above the client's in-memory
		// threshold: the client follows up with a HEAD request to learn the digest
		h["Content-Type"] = "application/vnd.x"
		if i == 0 {
			r.Body = "big200k"
		} else {
			r.Body = "blob"
			h["Docker-Content-Digest"] = string(digest.FromBytes(bodyFor("big200k")))
		}
	case "GetBlobRange", "GetBlobRangeOpen":
		r.Status, r.Body = 206, "345"
		h["Content-Range"], h["Docker-Content-Digest"] = "bytes 2-4/10", string(sampleDg)
	case "ResolveBlob", "ResolveManifest", "ResolveTag":
		r.Body = "blob"
		h["Docker-Content-Digest"] = string(sampleDg)
	case "PushBlob":
		if i == 0 {
			r.Status = 202
			h["Location"] = loc
		} else {
			r.Status = 201
		}
	case "PushManifest", "MountBlob":
		r.Status = 201
		h["Docker-Content-Digest"], h["Location"] = string(sampleDg), "/v2/foo/blobs/"+string(sampleDg)
	case "DeleteBlob", "DeleteManifest", "DeleteTag":
		r.Status = 202
	case "Tags":
		r.Body = []string{"tags", "tags", "tags1", "tags0"}[i%4]
		if i%2 == 0 {
			h["Link"] = `</v2/foo/tags/list?n=2&last=b>; rel="next"`
		}
	case "Repositories":
		r.Body = "catalog"
	case "Referrers":
		r.Body = []string{"index5", "index", "index5"}[i%3]
		if i%4 == 3 {
			h["OCI-Filters-Applied"] = "artifactType"
		}
	case "Chunked", "ResumeExplicit", "ResumeQuery":
		r.Status = 202
		h["Location"], h["Range"], h["OCI-Chunk-Min-Length"] = loc, "0-4", "8192"
		if op == "ResumeQuery" && i == 0 {
			r.Status = 204
		}
		if i >= 3 {
			r.Status = 201
		}
	}
	return r
}

func genScript(t *rapid.T) Script {
	var s Script
	s.PageSize = rapid.SampledFrom([]int{-5, -1, 0, 1, 2, 2, 1000}).Draw(t, "pageSize")
	s.Op = rapid.SampledFrom(ops).Draw(t, "op")
	s.Hint = rapid.SampledFrom([]int{0, 0, -1, 1, 2, 1 << 40}).Draw(t, "hint")
	s.Auth = rapid.IntRange(0, 5).Draw(t, "auth") == 0
	if s.Auth && rapid.Bool().Draw(t, "oddChallenge") {
		s.Challenge = rapid.IntRange(1, len(challenges)-1).Draw(t, "challenge")
	}
	if s.Auth && rapid.Bool().Draw(t, "oddToken") {
		s.TokenBody = rapid.SampledFrom([]string{"jsonnull", "jsonobj", "jsonarr", "tokennum", "tokenhuge", "empty", "truncated", "garbage", "huge"}).Draw(t, "tokenBody")
	}
	n := rapid.IntRange(0, 8).Draw(t, "nresps")
	for i := 0; i < n; i++ {
		r := goodFor(s.Op, i)
		switch rapid.IntRange(0, 9).Draw(t, "faultKind") {
		case 0, 1: // well-behaved
		case 2, 3: // status
			r.Status = rapid.SampledFrom([]int{200, 201, 202, 204, 206, 299, 301, 302, 304, 400, 401, 403, 404, 405, 416, 429, 500, 503, 599, 101, 101}).Draw(t, "status")
			r.Fault = "status"
			if r.Body == "empty" && rapid.Bool().Draw(t, "statusWithBody") {
				// an answer the operation expects no body from, with one all the same
				r.Body = rapid.SampledFrom([]string{"error", "garbage", "blob", "big200k"}).Draw(t, "unexpectedBody")
			}
			if r.Status == 202 && (s.Op == "MountBlob" || s.Op == "PushBlob") {
				// "accepted, an upload session has begun" - with a Location of every quality
				if r.Headers == nil {
					r.Headers = map[string]string{}
				}
				switch loc := rapid.SampledFrom([]string{"<absent>", "", "::bad", "http://[::1", "relative/path", "/v2/foo/blobs/uploads/aWQ", "\x7f"}).Draw(t, "acceptedLocation"); loc {
				case "<absent>":
					delete(r.Headers, "Location")
				default:
					r.Headers["Location"] = loc
				}
			}
			if r.Status == 101 {
				// an unsolicited protocol switch: net/http then hands over the connection itself as the body
				r.Headers = map[string]string{"Connection": "Upgrade", "Upgrade": "websocket"}
			}
		case 4, 5, 6: // one header
			name := rapid.SampledFrom([]string{"Location", "Range", "Content-Range", "Docker-Content-Digest", "Link", "Content-Type", "OCI-Chunk-Min-Length"}).Draw(t, "header")
			vals := map[string][]string{
				"Location":              {"", "::bad", "http://[::1", "relative/path", "//other.host/x", "/v2/foo/blobs/uploads/aWQ?x=1", "?", "/v2/foo/blobs/uploads/aWQ?", "\x7f"},
				"Range":                 {"", "0-0", "5-4", "x-y", "0-99999999999999999999", "-", "1-5", "0", "0-9223372036854775807", "9-"},
				"Content-Range":         {"", "bytes", "bytes 2-4", "bytes 2-4/x", "bytes 2-4/-1", "bytes 2-4/99999999999999999999", "/", "bytes 4-2/10", "bytes */10", "bytes 2-4/*", "2-4/*", "bytes/*", "/*", "*/*", "bytes  /*", "bytes 2-/*"},
				"Docker-Content-Digest": {"", "sha256:zz", "md5:abc", "sha256:" + strings.Repeat("0", 64), "sha512:" + strings.Repeat("a", 128), ":", "sha256"},
				"Link":                  {"", "<", "no brackets", "</v2/foo/tags/list?n=2&last=b", "<>; rel=\"next\"", "<::bad>", "</v2/foo/tags/list?n=2>; rel=\"next\"", "<http://registry.test/v2/foo/tags/list?last=zz>"},
				"Content-Type":          {"", "application/json", "text/html", "application/problem+json", "application/vnd.acme.error+xml", "application/+", "application/x+y+z", "a/b; charset", ";;;", "application/json+"},
				"OCI-Chunk-Min-Length":  {"", "-1", "0", "9223372036854775807", "abc", "99999999999999999999", "1"},
			}
			val := rapid.SampledFrom(vals[name]).Draw(t, "headerValue")
			if name == "Link" && rapid.Bool().Draw(t, "linkParams") {
				// a well-formed target followed by parameters of every shape
				val = `</v2/foo/tags/list?n=2&last=b>` + rapid.SampledFrom([]string{`; rel="`, `; rel=`, `;rel="next`, `; rel="prev"`, `; ;;`, `; rel="next"; x`, `; rel`, `;`, `; rel="next", <`, `; rel=""`, `; rel=next`, `; REL="NEXT"`, `;="`, `; rel="\`}).Draw(t, "linkTail")
				if rapid.IntRange(0, 3).Draw(t, "linkRandomTail") == 0 {
					val = `</v2/foo/tags/list?n=2&last=b>` + rapid.StringOfN(rapid.SampledFrom([]rune(`;= "relnxt,<>\`)), 0, 10, -1).Draw(t, "linkTailRandom")
				}
			}
			if val == "" {
				delete(r.Headers, name)
			} else {
				r.Headers[name] = val
			}
			r.Fault = "header:" + name
		case 7, 8: // body
			r.Body = rapid.SampledFrom([]string{"empty", "truncated", "wrongshape", "garbage", "null", "huge", "hugetags", "error", "errors0", "tagsnull", "tags0", "blob"}).Draw(t, "bodyKind")
			r.Fault = "body"
		default: // content length
			r.CL = rapid.SampledFrom([]string{"unknown", "longer", "shorter"}).Draw(t, "cl")
			r.Fault = "content-length"
		}
		if r.Status >= 400 && rapid.Bool().Draw(t, "errorBody") {
			r.Body = rapid.SampledFrom([]string{"error", "errors0", "garbage", "huge", "empty", "truncated"}).Draw(t, "errBody")
			if r.Headers["Content-Type"] == "" || rapid.Bool().Draw(t, "jsonType") {
				r.Headers["Content-Type"] = rapid.SampledFrom([]string{"application/json", "application/problem+json", "application/vnd.x+json+y", "application/xml+whatever", "text/plain"}).Draw(t, "errType")
			}
		}
		s.Resps = append(s.Resps, r)
	}
	return s
}

var prop = &vt.Prop[Script]{
	ID:   "C18",
	Name: "ClientAnyResponse",
	Rule: "client operation = each client method (reads drained to EOF, listings drained and the same sequence drained a second time, chunked writer: open / Write small / Write 100 KiB / Size / Close / Commit / Size+ID / Commit again / Write / Cancel / Close, resume with explicit offset and with -1) x ListPageSize in {-5,-1,0,1,2,1000} x chunk hint x {plain transport, ociauth's standard transport whose first exchange is a 401 Bearer challenge with an error body and a token request to the registry's own host, answered with a proper token document or with null, {}, [], wrongly typed, overflowing, empty, truncated or huge bodies} x a script of 0-8 responses, each the expected answer distorted in one dimension: status from every class (an unsolicited 101 protocol switch, whose body is the silent connection itself; 2xx the operation does not expect, 3xx without Location, 4xx, 5xx), one of Location / Range / Content-Range / Docker-Content-Digest / Link (incl. well-formed targets followed by parameters of every shape) / Content-Type / OCI-Chunk-Min-Length absent / empty / malformed / contradictory / huge, body empty / truncated / wrong-shape / garbage / null / 2 MiB, Content-Length unknown / too long / too short; served by a scripted RoundTripper that sets Response.Request and fails every request after the script is exhausted; oracle = no panic (also none when a returned error is printed, unwrapped and asked for its code, detail, status and response body), every individual API call returns within 10 s, issues at most (answers still unconsumed) + 1 requests, and never sends a request while it holds the unread body of an earlier response of the same call (that hangs under a one-connection-per-host transport), and when it has returned and its readers are closed no response body is left unclosed and unread; non-trivial = a distorted response was actually consumed; distinct = (operation, page size, consumed fault vector)",
	Gen:  genScript,
	Run:  run,
}

func TestPropClient(t *testing.T) { vt.Check(t, prop) }

func TestReplay(t *testing.T) {
	vt.Register(prop)
	vt.Replay(t)
}

// FuzzGenerated drives the property's generator from coverage-guided fuzz input (thorough tier).
func FuzzGenerated(f *testing.F) { vt.Fuzz(f, prop) }
