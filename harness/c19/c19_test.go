// Package c19 decides property C19: credential lookup from a Docker-style
// config file is a deterministic function with a fixed precedence.
package c19

import (
	"encoding/base64"
	"encoding/json"
	"errors"
	"fmt"
	"os"
	"path/filepath"
	"sort"
	"strings"
	"testing"
	"time"

	"cuelabs.dev/go/oci/ociregistry/ociauth"
	"pgregory.net/rapid"

	"verif/harness/vt"
)

func TestMain(m *testing.M) {
	if err := setupHelpers(); err != nil {
		fmt.Fprintln(os.Stderr, "cannot set up helper programs:", err)
		os.Exit(2)
	}
	code := m.Run()
	vt.WriteStats()
	os.RemoveAll(helperDir)
	if tmpDir != "" {
		os.RemoveAll(tmpDir)
	}
	os.Exit(code)
}

type Auth struct {
	Username      string `json:"username,omitempty"`
	Password      string `json:"password,omitempty"`
	AuthUser      string `json:"auth_user,omitempty"` // auth = base64(AuthUser:AuthPass) when AuthUser != ""
	AuthPass      string `json:"auth_pass,omitempty"`
	IdentityToken string `json:"identitytoken,omitempty"`
	RegistryToken string `json:"registrytoken,omitempty"`
	RawAuth       string `json:"raw_auth,omitempty"` // an auth field that cannot be decoded (the file must not load)
}

// Helper behaviour for (helper, host): 0 credentials, 1 token, 2 not found
// (zero entry, no error), 3 helper binary missing, 4 other error.
type Script struct {
	Auths       map[string]Auth   `json:"auths"`
	CredsStore  string            `json:"creds_store,omitempty"`
	CredHelpers map[string]string `json:"cred_helpers,omitempty"`
	Behaviour   map[string]int    `json:"behaviour"` // "helper|host" -> behaviour; default by hash
	Lookups     []string          `json:"lookups"`
}

var errOther = errors.New("helper failed for another reason")

func (s Script) behave(helper, host string) int {
	if b, ok := s.Behaviour[helper+"|"+host]; ok {
		return b
	}
	return (len(helper)*7 + len(host)*3) % 5
}

func (s Script) runner(helper, host string) (ociauth.ConfigEntry, error) {
	switch s.behave(helper, host) {
	case 0:
		return ociauth.ConfigEntry{Username: "u-" + helper, Password: "p-" + helper + "-" + host}, nil
	case 1:
		return ociauth.ConfigEntry{RefreshToken: "tok-" + helper + "-" + host}, nil
	case 2:
		return ociauth.ConfigEntry{}, nil
	case 3:
		return ociauth.ConfigEntry{}, fmt.Errorf("%w: docker-credential-%s", ociauth.ErrHelperNotFound, helper)
	}
	return ociauth.ConfigEntry{}, errOther
}

// refURLHost: the documented derivation of a host from a URL-form key.
func refURLHost(k string) string {
	s := k
	switch {
	case strings.HasPrefix(k, "http://"):
		s = k[len("http://"):]
	case strings.HasPrefix(k, "https://"):
		s = k[len("https://"):]
	}
	if i := strings.IndexByte(s, '/'); i >= 0 {
		s = s[:i]
	}
	return s
}

type expect struct {
	entry ociauth.ConfigEntry
	err   string // "" none; "helper-missing"; "other"; "ambiguous"; "multiple:<sorted keys>"
}

// reference is the stated precedence, independent of any map order.
func reference(s Script, host string) expect {
	tryHelper := func(h string, explicit bool) (expect, bool) {
		e, err := s.runner(h, host)
		switch {
		case err == nil:
			return expect{entry: e}, true
		case errors.Is(err, ociauth.ErrHelperNotFound):
			if explicit {
				return expect{err: "helper-missing"}, true
			}
			return expect{}, false // a missing default helper falls back to the table
		}
		return expect{err: "other"}, true
	}
	if h, ok := s.CredHelpers[host]; ok {
		if h != "" {
			r, _ := tryHelper(h, true)
			return r
		}
	} else if s.CredsStore != "" {
		if r, done := tryHelper(s.CredsStore, false); done {
			return r
		}
	}
	a, ok := s.Auths[host]
	if !ok {
		var from []string
		for k := range s.Auths {
			if strings.Contains(k, "//") && refURLHost(k) != k && refURLHost(k) == host {
				from = append(from, k)
			}
		}
		sort.Strings(from)
		switch len(from) {
		case 0:
			return expect{}
		case 1:
			a = s.Auths[from[0]]
		default:
			return expect{err: "multiple:" + strings.Join(from, ", ")}
		}
	}
	user, pass := a.Username, a.Password
	if a.AuthUser != "" {
		user, pass = a.AuthUser, a.AuthPass
	}
	if a.IdentityToken != "" && user != "" {
		return expect{err: "ambiguous"}
	}
	return expect{entry: ociauth.ConfigEntry{RefreshToken: a.IdentityToken, AccessToken: a.RegistryToken, Username: user, Password: pass}}
}

func (s Script) document() []byte {
	type authJSON struct {
		Username      string `json:"username,omitempty"`
		Password      string `json:"password,omitempty"`
		Auth          string `json:"auth,omitempty"`
		IdentityToken string `json:"identitytoken,omitempty"`
		RegistryToken string `json:"registrytoken,omitempty"`
	}
	doc := struct {
		Auths       map[string]authJSON `json:"auths,omitempty"`
		CredsStore  string              `json:"credsStore,omitempty"`
		CredHelpers map[string]string   `json:"credHelpers,omitempty"`
	}{Auths: map[string]authJSON{}, CredsStore: s.CredsStore, CredHelpers: s.CredHelpers}
	for k, a := range s.Auths {
		j := authJSON{Username: a.Username, Password: a.Password, IdentityToken: a.IdentityToken, RegistryToken: a.RegistryToken}
		if a.AuthUser != "" {
			j.Auth = base64.StdEncoding.EncodeToString([]byte(a.AuthUser + ":" + a.AuthPass))
		}
		if a.RawAuth != "" {
			j.Auth = a.RawAuth
		}
		doc.Auths[k] = j
	}
	b, _ := json.Marshal(doc)
	return b
}

// lookup runs one EntryForRegistry under a watchdog: a lookup is a function of the file and the
// helpers' answers - it returns.
func lookup(cf ociauth.Config, host string) (ociauth.ConfigEntry, error, bool) {
	type res struct {
		e   ociauth.ConfigEntry
		err error
	}
	c := make(chan res, 1)
	go func() {
		e, err := cf.EntryForRegistry(host)
		c <- res{e, err}
	}()
	select {
	case r := <-c:
		return r.e, r.err, false
	case <-time.After(5 * time.Second):
		return ociauth.ConfigEntry{}, nil, true
	}
}

var tmpDir string

func run(s Script, v *vt.V) {
	if tmpDir == "" {
		d, err := os.MkdirTemp("", "c19-")
		if err != nil {
			v.Failf("harness", "%v", err)
			return
		}
		tmpDir = d
	}
	if err := os.WriteFile(filepath.Join(tmpDir, "config.json"), s.document(), 0o600); err != nil {
		v.Failf("harness", "%v", err)
		return
	}
	sources := 0
	undecodable := 0
	for _, a := range s.Auths {
		if a.RawAuth != "" {
			undecodable++
		}
	}
	firstOutcome := map[string]string{} // what the first decoding answered, per looked-up name
	for dec := 0; dec < 16; dec++ {
		cf, err := ociauth.LoadWithEnv(s.runner, []string{"DOCKER_CONFIG=" + tmpDir})
		if undecodable > 0 {
			// the file must be refused, and for the same reason every time
			if err == nil {
				v.Failf("bad-auth-accepted", "config %s has an undecodable auth field but loads", s.document())
				return
			}
			if prev, ok := firstOutcome["<load>"]; ok && prev != err.Error() {
				v.Failf("depends-on-map-order", "config %s: loading fails with %q in one decoding and with %q in another", s.document(), prev, err.Error())
				return
			}
			firstOutcome["<load>"] = err.Error()
			v.Class("undecodable-auth=%d", min(undecodable, 2))
			continue
		}
		if err != nil {
			v.Failf("load-failed", "config %s does not load: %v", s.document(), err)
			return
		}
		lookups := append([]string{}, s.Lookups...)
		// vary the lookup order between decodings
		for i := range lookups {
			j := (i*7 + dec*3) % len(lookups)
			lookups[i], lookups[j] = lookups[j], lookups[i]
		}
		for _, host := range lookups {
			want := reference(s, host)
			got, err, hung := lookup(cf, host)
			if hung {
				v.Failf("lookup-hangs", "decoding %d, lookup of %q in %s did not return within 5 s (an earlier lookup on the same config left something locked?)", dec, host, s.document())
				return
			}
			desc := fmt.Sprintf("decoding %d, lookup of %q in %s (credsStore helper behaviour %d)", dec, host, s.document(), s.behave(s.CredsStore, host))
			// a deterministic function of the file and the helpers: the same answer (the same
			// error text, too) from every decoding and in every lookup order
			outcome := fmt.Sprintf("%+v / %v", got, err)
			if prev, ok := firstOutcome[host]; ok && prev != outcome {
				v.Failf("depends-on-map-order", "%s: answered %s, an earlier decoding of the same file answered %s", desc, outcome, prev)
				return
			}
			firstOutcome[host] = outcome
			switch want.err {
			case "":
				if err != nil {
					v.Failf("unexpected-error", "%s: error %v, want entry %+v", desc, err, want.entry)
					return
				}
				if got != want.entry {
					v.Failf("wrong-entry", "%s: entry %+v, want %+v", desc, got, want.entry)
					return
				}
			case "helper-missing":
				if !errors.Is(err, ociauth.ErrHelperNotFound) {
					v.Failf("wrong-precedence", "%s: got (%+v, %v), want the per-host helper's ErrHelperNotFound", desc, got, err)
					return
				}
			case "other":
				if !errors.Is(err, errOther) {
					v.Failf("wrong-precedence", "%s: got (%+v, %v), want the helper's own error", desc, got, err)
					return
				}
			case "ambiguous":
				if err == nil {
					v.Failf("ambiguous-accepted", "%s: identitytoken together with a username was accepted: %+v", desc, got)
					return
				}
			default: // multiple
				if err == nil {
					v.Failf("collision-resolved-silently", "%s: several URL-form keys map to this host (%s) but the lookup picked %+v", desc, want.err, got)
					return
				}
				// (which of the colliding entries' problems is reported first may depend on the
				// decoding order when one of them is itself ambiguous; the lookup fails either way)
				if strings.Contains(err.Error(), strings.TrimPrefix(want.err, "multiple:")) {
					v.Class("collision-message-lists-sorted-keys")
				} else if strings.Contains(err.Error(), "more than one") {
					v.Failf("collision-message-unstable", "%s: error %q lists the colliding keys in another order than sorted (%s): it would differ between decodings", desc, err, want.err)
					return
				}
			}
		}
	}
	for _, host := range s.Lookups {
		n := 0
		if _, ok := s.CredHelpers[host]; ok {
			n++
		}
		if s.CredsStore != "" {
			n++
		}
		if _, ok := s.Auths[host]; ok {
			n++
		}
		for k := range s.Auths {
			if strings.Contains(k, "//") && refURLHost(k) == host && refURLHost(k) != k {
				n++
			}
		}
		if n > sources {
			sources = n
		}
	}
	v.Class("max-sources=%d", min(sources, 4))
	if sources >= 2 {
		v.NonTrivial(string(s.document()) + fmt.Sprint(s.Behaviour, s.Lookups))
	}
}

var hosts = []string{"h1.example", "h2.example:5000", "localhost", "reg.io", "Registry.Example.COM", "registry.example.com"}
var helpers = []string{"osxkeychain", "pass", "store"}

func genScript(t *rapid.T) Script {
	s := Script{Auths: map[string]Auth{}, CredHelpers: map[string]string{}, Behaviour: map[string]int{}}
	secret := func(label string) string {
		if rapid.IntRange(0, 2).Draw(t, label+"Random") == 0 {
			// arbitrary text: every base64 digit (incl. '+' and '/') and every padding length occurs
			// (leading and trailing NUL bytes of a password are trimmed on purpose, as the docker CLI
			// does - documented in decodeAuth; such passwords are outside the domain of "exactly")
			return strings.Trim(rapid.StringN(0, 12, -1).Draw(t, label), "\x00")
		}
		return rapid.SampledFrom([]string{"s3cret", "pa:ss:word", ":lead", "trail:", "with space", "é€", "a\x00b", "x", "p=q&r", "~~~>>>???", "\u07ff\uffff", "trailing space ", "tab\t", "newline\n", "\r\n", " ", " lead", "\u00a0nbsp\u00a0", "\vvt\f"}).Draw(t, label)
	}
	entry := func() Auth {
		var a Auth
		switch rapid.IntRange(0, 7).Draw(t, "entryKind") {
		case 7:
			return a // an entry without any credentials ({}), as docker leaves behind after a logout
		case 0:
			a.Username, a.Password = "user", secret("password")
		case 1:
			a.AuthUser, a.AuthPass = rapid.SampledFrom([]string{"user", "u.name", "a@b", " user", "\tuser", "\nu"}).Draw(t, "authUser"), secret("authPass")
		case 2:
			a.Username, a.Password = "ignored", "ignored"
			a.AuthUser, a.AuthPass = "user", secret("authPass")
		case 3:
			a.IdentityToken = "idtok-" + secret("idtok")
		case 4:
			a.RegistryToken = "regtok"
		case 5:
			a.IdentityToken, a.Username = "idtok", "user" // ambiguous
		default:
			a.Username, a.Password, a.RegistryToken = "user", secret("password"), "regtok"
		}
		if rapid.IntRange(0, 24).Draw(t, "undecodable") == 0 {
			a.RawAuth = rapid.SampledFrom([]string{"!!!not base64", "bm8tY29sb24taGVyZQ==", "OnBhc3M=", "dXNlcjpwYXNz=", "===="}).Draw(t, "rawAuth")
		}
		return a
	}
	n := rapid.IntRange(0, 5).Draw(t, "nauths")
	for i := 0; i < n; i++ {
		h := rapid.SampledFrom(hosts).Draw(t, "host")
		var key string
		switch rapid.IntRange(0, 6).Draw(t, "keyKind") {
		case 0, 1:
			key = h
		case 2:
			key = "https://" + h + rapid.SampledFrom([]string{"/v1/", "/v2/", "/", "/v2/auth", "/a/b/c/", ""}).Draw(t, "path")
		case 3:
			key = "http://" + h + rapid.SampledFrom([]string{"/v1/", "/v1", "/x/y"}).Draw(t, "path")
		case 4:
			key = h + "//" + rapid.SampledFrom([]string{"x", "x/y", ""}).Draw(t, "tail") // '//' without a scheme
		default:
			key = "https://" + h + "/v1/"
		}
		a := entry()
		if a == (Auth{}) {
			s.Auths[key] = a
			continue
		}
		a.Password += fmt.Sprintf("#%d", i)
		if a.AuthUser != "" {
			a.AuthPass += fmt.Sprintf("#%d", i)
			a.Password = strings.TrimSuffix(a.Password, fmt.Sprintf("#%d", i))
		}
		if a.Username == "" && a.AuthUser == "" {
			a.Password = ""
		}
		s.Auths[key] = a
	}
	if rapid.IntRange(0, 2).Draw(t, "hasStore") == 0 {
		s.CredsStore = rapid.SampledFrom(helpers).Draw(t, "store")
	}
	for i := rapid.IntRange(0, 2).Draw(t, "nhelpers"); i > 0; i-- {
		s.CredHelpers[rapid.SampledFrom(hosts).Draw(t, "helperHost")] = rapid.SampledFrom(append([]string{""}, helpers...)).Draw(t, "helper")
	}
	for _, h := range hosts {
		for _, hp := range helpers {
			if rapid.IntRange(0, 1).Draw(t, "setBehaviour") == 0 {
				s.Behaviour[hp+"|"+h] = rapid.IntRange(0, 4).Draw(t, "behaviour")
			}
		}
	}
	s.Lookups = append([]string{}, hosts...)
	for k := range s.Auths {
		if rapid.IntRange(0, 3).Draw(t, "lookupKey") == 0 {
			s.Lookups = append(s.Lookups, k)
		}
	}
	sort.Strings(s.Lookups)
	s.Lookups = append(s.Lookups, "unknown.example")
	return s
}

var prop = &vt.Prop[Script]{
	ID:   "C19",
	Name: "CredentialLookup",
	Rule: "config documents generated from the schema: auths with plain host keys (one host name also in upper case: host names are compared as spelled), https:// and http:// URL keys with 0-3 path segments and trailing slashes, keys containing '//' without a scheme, several URL keys for one host, explicit + URL key for one host; entries with username/password, auth = base64(user:password) (passwords with ':' inside/leading/trailing, spaces, leading and trailing white space of every kind, user names that begin with white space, NUL inside, non-ASCII, arbitrary generated text so that every base64 digit and padding length occurs), auth overriding username/password, identitytoken, registrytoken, identitytoken+username, no credentials at all ({}); credsStore; credHelpers incl. the empty string and a per-host helper equal to credsStore; helper behaviour per (helper, host) in {credentials, token, not found, binary missing, other error}; the file is loaded through LoadWithEnv from DOCKER_CONFIG 16 times (fresh map orders) and all hosts (and some keys) are looked up in a different order each time; oracle = an independent reference of the stated precedence: every decoding and every order gives exactly the reference's entry or error class (colliding URL keys: error listing the keys sorted), every decoding answers each lookup identically (same entry, same error text), and a file with undecodable auth fields is refused with the same error every time; non-trivial = some looked-up host has >= 2 sources; distinct = (document, behaviours, lookups)",
	Gen:  genScript,
	Run:  run,
}

func TestPropLookup(t *testing.T) {
	vt.Check(t, prop)
	if tmpDir != "" {
		os.RemoveAll(tmpDir)
		tmpDir = ""
	}
}

func TestReplay(t *testing.T) {
	vt.Register(prop)
	vt.Register(propExec)
	vt.Replay(t)
}
