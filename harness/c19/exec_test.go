package c19

// Lookups that go through the real helper runner (ExecHelperWithEnv): credential helper programs are
// run as processes. The helpers are small shell scripts written at start-up whose answer is a
// function of their own name and of the host they are asked about.

import (
	"errors"
	"fmt"
	"os"
	"path/filepath"
	"sort"
	"strings"
	"sync"
	"testing"

	"cuelabs.dev/go/oci/ociregistry/ociauth"
	"pgregory.net/rapid"

	"verif/harness/vt"
)

var helperDir string

const helperScript = `#!/bin/sh
name=%s
read -r host
case "$host" in
cred*) printf '{"Username":"u-%%s","Secret":"s-%%s-%%s"}' "$name" "$name" "$host";;
tok*) printf '{"Username":"<token>","Secret":"t-%%s-%%s"}\n' "$name" "$host";;
none*) echo "credentials not found in native keychain"; exit 1;;
*) echo "boom $name $host"; exit 1;;
esac
`

func setupHelpers() error {
	d, err := os.MkdirTemp("", "c19-helpers-")
	if err != nil {
		return err
	}
	helperDir = d
	for _, n := range []string{"vfa", "vfb"} {
		if err := os.WriteFile(filepath.Join(d, "docker-credential-"+n), []byte(fmt.Sprintf(helperScript, n)), 0o755); err != nil {
			return err
		}
	}
	// a helper that is there but cannot be started (its interpreter does not exist): not a missing helper
	if err := os.WriteFile(filepath.Join(d, "docker-credential-vfbroken"), []byte("#!/nonexistent/interpreter\n"), 0o755); err != nil {
		return err
	}
	return os.Setenv("PATH", d+string(os.PathListSeparator)+os.Getenv("PATH"))
}

type ExecScript struct {
	Store   string            `json:"store,omitempty"`
	Helpers map[string]string `json:"helpers,omitempty"`
	Lookups []string          `json:"lookups"`
	Workers int               `json:"workers"` // the lookups are repeated by this many goroutines at once
}

func (s ExecScript) want(host string) (ociauth.ConfigEntry, string) {
	h, explicit := s.Helpers[host]
	if !explicit {
		h = s.Store
	}
	switch {
	case h == "":
		return ociauth.ConfigEntry{}, ""
	case h == "vfmissing":
		if explicit {
			return ociauth.ConfigEntry{}, "helper-missing"
		}
		return ociauth.ConfigEntry{}, "" // a missing default store falls back to the (empty) table
	case h == "vfbroken":
		return ociauth.ConfigEntry{}, "cannot-start" // present but unstartable: an error, per-host or default
	case strings.HasPrefix(host, "cred"):
		return ociauth.ConfigEntry{Username: "u-" + h, Password: "s-" + h + "-" + host}, ""
	case strings.HasPrefix(host, "tok"):
		return ociauth.ConfigEntry{RefreshToken: "t-" + h + "-" + host}, ""
	case strings.HasPrefix(host, "none"):
		return ociauth.ConfigEntry{}, ""
	}
	return ociauth.ConfigEntry{}, "boom " + h + " " + host
}

func runExec(s ExecScript, v *vt.V) {
	if helperDir == "" {
		v.Failf("harness", "helper programs are not set up")
		return
	}
	dir, err := os.MkdirTemp(helperDir, "cfg-")
	if err != nil {
		v.Failf("harness", "%v", err)
		return
	}
	defer os.RemoveAll(dir)
	var b strings.Builder
	b.WriteString("{")
	if s.Store != "" {
		fmt.Fprintf(&b, `"credsStore":%q,`, s.Store)
	}
	b.WriteString(`"credHelpers":{`)
	keys := make([]string, 0, len(s.Helpers))
	for k := range s.Helpers {
		keys = append(keys, k)
	}
	sort.Strings(keys)
	for i, k := range keys {
		if i > 0 {
			b.WriteString(",")
		}
		fmt.Fprintf(&b, "%q:%q", k, s.Helpers[k])
	}
	b.WriteString("}}")
	if err := os.WriteFile(filepath.Join(dir, "config.json"), []byte(b.String()), 0o600); err != nil {
		v.Failf("harness", "%v", err)
		return
	}
	cf, err := ociauth.LoadWithEnv(nil, []string{"DOCKER_CONFIG=" + dir})
	if err != nil {
		v.Failf("load-failed", "config %s does not load: %v", b.String(), err)
		return
	}
	check := func(how, host string, got ociauth.ConfigEntry, err error) string {
		want, wantErr := s.want(host)
		switch {
		case wantErr == "" && err != nil:
			return fmt.Sprintf("%s lookup of %q in %s: error %v, want entry %+v", how, host, b.String(), err, want)
		case wantErr == "" && got != want:
			return fmt.Sprintf("%s lookup of %q in %s: entry %+v, want %+v", how, host, b.String(), got, want)
		case wantErr == "helper-missing" && !errors.Is(err, ociauth.ErrHelperNotFound):
			return fmt.Sprintf("%s lookup of %q in %s: %+v, %v; want ErrHelperNotFound", how, host, b.String(), got, err)
		case wantErr == "cannot-start" && (err == nil || errors.Is(err, ociauth.ErrHelperNotFound) || got != (ociauth.ConfigEntry{})):
			return fmt.Sprintf("%s lookup of %q in %s: %+v, %v; the helper program exists but cannot be started: want an error other than ErrHelperNotFound", how, host, b.String(), got, err)
		case strings.HasPrefix(wantErr, "boom") && (err == nil || !strings.Contains(err.Error(), wantErr) || got != (ociauth.ConfigEntry{})):
			return fmt.Sprintf("%s lookup of %q in %s: %+v, %v; want the helper's own failure %q", how, host, b.String(), got, err, wantErr)
		}
		return ""
	}
	helped := 0
	for _, host := range s.Lookups {
		got, err := cf.EntryForRegistry(host)
		if msg := check("sequential", host, got, err); msg != "" {
			v.Failf("exec-helper-wrong", "%s", msg)
			return
		}
		if h, ok := s.Helpers[host]; ok && h != "" || !ok && s.Store != "" {
			helped++
		}
	}
	if s.Workers > 1 {
		var wg sync.WaitGroup
		var mu sync.Mutex
		first := ""
		for g := 0; g < s.Workers; g++ {
			wg.Add(1)
			go func() {
				defer wg.Done()
				defer func() {
					if r := recover(); r != nil {
						mu.Lock()
						if first == "" {
							first = fmt.Sprintf("concurrent lookups in %s: panic: %v", b.String(), r)
						}
						mu.Unlock()
					}
				}()
				for i := range s.Lookups {
					host := s.Lookups[(i+g)%len(s.Lookups)]
					got, err := cf.EntryForRegistry(host)
					if msg := check(fmt.Sprintf("concurrent (%d at once)", s.Workers), host, got, err); msg != "" {
						mu.Lock()
						if first == "" {
							first = msg
						}
						mu.Unlock()
						return
					}
				}
			}()
		}
		wg.Wait()
		if first != "" {
			v.Failf("exec-helper-wrong-concurrent", "%s", first)
			return
		}
	}
	v.Class("exec/workers=%d/helped=%d", min(s.Workers, 2), min(helped, 3))
	if helped > 0 {
		v.NonTrivial(fmt.Sprintf("%s|%v|%v|%d", s.Store, s.Helpers, s.Lookups, s.Workers))
	}
}

var propExec = &vt.Prop[ExecScript]{
	ID:   "C19",
	Name: "ExecHelperLookups",
	Rule: "the config file names credential helpers (credsStore in {none, vfa, vfb, a missing program, a program whose interpreter is missing}, credHelpers for 0-3 of 7 hosts incl. the empty helper and a missing program) and is loaded with the default runner, which executes docker-credential-<name> programs: two shell scripts on PATH that answer as a function of their name and the host (credentials, a token, 'not found', a failure with its own text); 1-6 lookups, first one after the other and then by 1-6 goroutines at once on the same loaded file (documented as safe); oracle = each lookup, alone or among others, gives exactly what the helper that the precedence selects prints for that host (missing default store falls back, missing explicit helper is ErrHelperNotFound); non-trivial = a helper program ran; distinct = the script",
	Gen: func(t *rapid.T) ExecScript {
		hosts := []string{"cred1.test", "cred2.test", "cred3.test:5000", "tok1.test", "none1.test", "err1.test", "tok2.test"}
		s := ExecScript{Store: rapid.SampledFrom([]string{"", "vfa", "vfa", "vfb", "vfmissing", "vfbroken"}).Draw(t, "store"), Helpers: map[string]string{}}
		for n := rapid.IntRange(0, 3).Draw(t, "nhelpers"); n > 0; n-- {
			s.Helpers[rapid.SampledFrom(hosts).Draw(t, "helperHost")] = rapid.SampledFrom([]string{"vfa", "vfb", "vfb", "", "vfmissing", "vfbroken"}).Draw(t, "helper")
		}
		s.Lookups = rapid.SliceOfN(rapid.SampledFrom(hosts), 1, 6).Draw(t, "lookups")
		s.Workers = rapid.SampledFrom([]int{1, 2, 4, 6}).Draw(t, "workers")
		return s
	},
	Run: runExec,
}

func TestPropExec(t *testing.T) { propExec.Scale = 0.02; vt.Check(t, propExec) }
