// Package c20 decides property C20: the function-table registry
// (ociregistry.Funcs) is total.
package c20

import (
	"bytes"
	"context"
	"errors"
	"fmt"
	"io"
	"math"
	"reflect"
	"strings"
	"sync"
	"sync/atomic"
	"testing"
	"time"

	"cuelabs.dev/go/oci/ociregistry"
	"pgregory.net/rapid"

	"verif/harness/vt"
)

func TestMain(m *testing.M) { vt.Main(m) }

// Script is one cell: a table (nil, or a set/unset assignment to every
// function field), with or without an error constructor, and the method called.
type Script struct {
	Nil      bool   `json:"nil"`
	Set      uint64 `json:"set"` // bit i = function field i is set
	NewError bool   `json:"new_error"`
	Method   int    `json:"method"`
	// Args selects the shape of the arguments: bits 0-1 the context (0 live, 1 cancelled,
	// 2 past its deadline), bits 2-3 the integers (0 unique sentinels, 1 all zero, 2 all -1,
	// 3 zero then -1: the "whole blob" range), bit 4 empty strings instead of sentinels,
	// bits 5-6 further integers when bits 2-3 are 0 (1 all -2, 2 math.MinInt64, 3 math.MaxInt64),
	// bit 7 the recorders' error results wrap ErrUnsupported, bit 8 strings that contain format verbs,
	// bit 9 the set listing functions return a nil sequence.
	Args int `json:"args,omitempty"`
}

// field describes one function field of Funcs, discovered by reflection so
// that a field added later cannot be forgotten.
type field struct {
	name   string // e.g. GetBlob_
	method string // e.g. GetBlob
	index  int    // struct field index
	typ    reflect.Type
}

var fields = func() []field {
	var fs []field
	t := reflect.TypeOf(ociregistry.Funcs{})
	for i := 0; i < t.NumField(); i++ {
		f := t.Field(i)
		if f.Type.Kind() != reflect.Func || !strings.HasSuffix(f.Name, "_") {
			continue
		}
		fs = append(fs, field{name: f.Name, method: strings.TrimSuffix(f.Name, "_"), index: i, typ: f.Type})
	}
	return fs
}()

type ctxKey struct{}

var (
	errType    = reflect.TypeOf((*error)(nil)).Elem()
	ctxType    = reflect.TypeOf((*context.Context)(nil)).Elem()
	readerType = reflect.TypeOf((*io.Reader)(nil)).Elem()
	brType     = reflect.TypeOf((*ociregistry.BlobReader)(nil)).Elem()
	bwType     = reflect.TypeOf((*ociregistry.BlobWriter)(nil)).Elem()
	descType   = reflect.TypeOf(ociregistry.Descriptor{})
	seqStrType = reflect.TypeOf(ociregistry.Seq[string](nil))
	seqDscType = reflect.TypeOf(ociregistry.Seq[ociregistry.Descriptor](nil))
)

type sentinelReader struct {
	ociregistry.BlobReader
	id int
}
type sentinelWriter struct {
	ociregistry.BlobWriter
	id int
}
type sentinelErr struct {
	id    int
	unsup bool // the error wraps ErrUnsupported (what a set function reports when it cannot do the thing)
}

func (e *sentinelErr) Unwrap() error {
	if e.unsup {
		return ociregistry.ErrUnsupported
	}
	return nil
}

func (e *sentinelErr) Error() string { return fmt.Sprintf("sentinel error %d", e.id) }

// argsFor builds unique sentinel arguments for a function type.
func argsFor(t reflect.Type, salt int, shape int) []reflect.Value {
	args := make([]reflect.Value, t.NumIn())
	nint := 0
	for i := range args {
		at := t.In(i)
		tag := fmt.Sprintf("m%d-a%d", salt, i)
		switch {
		case at == ctxType:
			ctx := context.WithValue(context.Background(), ctxKey{}, tag)
			switch shape & 3 {
			case 1:
				c, cancel := context.WithCancel(ctx)
				cancel()
				ctx = c
			case 2:
				c, cancel := context.WithDeadline(ctx, time.Unix(1, 0))
				cancel()
				ctx = c
			}
			args[i] = reflect.ValueOf(ctx).Convert(ctxType)
		case at == readerType:
			args[i] = reflect.ValueOf(io.Reader(bytes.NewReader([]byte(tag)))).Convert(readerType)
		case at == descType:
			args[i] = reflect.ValueOf(ociregistry.Descriptor{MediaType: tag, Size: int64(salt*100 + i)})
		case at.Kind() == reflect.String:
			if shape&16 != 0 {
				tag = ""
			}
			if shape&256 != 0 {
				tag = "100%s%d%w%/" + tag // format verbs in a name are just characters
			}
			args[i] = reflect.ValueOf(tag).Convert(at)
		case at.Kind() == reflect.Int64 || at.Kind() == reflect.Int:
			n := int64(salt*1000 + i)
			switch (shape >> 2) & 3 {
			case 1:
				n = 0
			case 2:
				n = -1
			case 3:
				n = -int64(min(nint, 1))
			case 0:
				switch (shape >> 5) & 3 {
				case 1:
					n = -2
				case 2:
					n = math.MinInt64
				case 3:
					n = math.MaxInt64
				}
			}
			if at.Kind() == reflect.Int && (n > math.MaxInt32 || n < math.MinInt32) {
				n = n >> 32 // (an int argument: keep it portable)
			}
			nint++
			args[i] = reflect.ValueOf(n).Convert(at)
		case at.Kind() == reflect.Slice && at.Elem().Kind() == reflect.Uint8:
			args[i] = reflect.ValueOf([]byte(tag))
		default:
			panic(fmt.Sprintf("harness: no sentinel for argument type %v", at))
		}
	}
	return args
}

// resultsFor builds the unique sentinel results the recorder for field fi returns.
func resultsFor(t reflect.Type, fi int, unsup bool, nilSeq ...bool) []reflect.Value {
	outs := make([]reflect.Value, t.NumOut())
	for i := range outs {
		ot := t.Out(i)
		switch {
		case (ot == seqStrType || ot == seqDscType) && len(nilSeq) > 0 && nilSeq[0]:
			outs[i] = reflect.Zero(ot) // a set function may return a nil sequence: that is its result
		case ot == errType:
			outs[i] = reflect.ValueOf(error(&sentinelErr{id: fi, unsup: unsup})).Convert(errType)
		case ot == brType:
			outs[i] = reflect.ValueOf(ociregistry.BlobReader(&sentinelReader{id: fi})).Convert(brType)
		case ot == bwType:
			outs[i] = reflect.ValueOf(ociregistry.BlobWriter(&sentinelWriter{id: fi})).Convert(bwType)
		case ot == descType:
			outs[i] = reflect.ValueOf(ociregistry.Descriptor{MediaType: fmt.Sprintf("result-%d", fi), Size: int64(fi)})
		case ot == seqStrType:
			outs[i] = reflect.ValueOf(ociregistry.SliceSeq([]string{fmt.Sprintf("item-%d-a", fi), fmt.Sprintf("item-%d-b", fi)}))
		case ot == seqDscType:
			outs[i] = reflect.ValueOf(ociregistry.SliceSeq([]ociregistry.Descriptor{{Size: int64(fi)}, {Size: int64(fi) + 1000}}))
		default:
			panic(fmt.Sprintf("harness: no sentinel for result type %v", ot))
		}
	}
	return outs
}

type call struct {
	field int
	args  []reflect.Value
}

type newErrCall struct {
	ctx    context.Context
	method string
	repo   string
}

// world is the recorder shared by the prebuilt recorder functions.
type world struct {
	calls    []call
	newErrs  []newErrCall
	recorder []reflect.Value // one per field
	results  [][]reflect.Value
}

func newWorld(unsup bool, nilSeq ...bool) *world {
	w := &world{}
	for i, f := range fields {
		i := i
		res := resultsFor(f.typ, i, unsup, nilSeq...)
		w.results = append(w.results, res)
		w.recorder = append(w.recorder, reflect.MakeFunc(f.typ, func(args []reflect.Value) []reflect.Value {
			w.calls = append(w.calls, call{i, args})
			return res
		}))
	}
	return w
}

var constructorErr = errors.New("error from the table's constructor")

func (w *world) table(s Script) *ociregistry.Funcs {
	if s.Nil {
		return nil
	}
	f := &ociregistry.Funcs{}
	fv := reflect.ValueOf(f).Elem()
	for i, fd := range fields {
		if s.Set&(1<<uint(i)) != 0 {
			fv.Field(fd.index).Set(w.recorder[i])
		}
	}
	if s.NewError {
		f.NewError = func(ctx context.Context, methodName, repo string) error {
			w.newErrs = append(w.newErrs, newErrCall{ctx, methodName, repo})
			return constructorErr
		}
	}
	return f
}

func sameValue(a, b reflect.Value) bool {
	ai, bi := a.Interface(), b.Interface()
	if ai == nil || bi == nil {
		return ai == nil && bi == nil
	}
	if reflect.TypeOf(ai) != reflect.TypeOf(bi) {
		return false
	}
	if reflect.TypeOf(ai).Comparable() {
		return ai == bi
	}
	return reflect.DeepEqual(ai, bi)
}

func drainSeq(v reflect.Value) (items []any, errs []error, calls int) {
	switch seq := v.Interface().(type) {
	case ociregistry.Seq[string]:
		seq(func(x string, err error) bool {
			calls++
			items = append(items, x)
			errs = append(errs, err)
			return calls < 10
		})
	case ociregistry.Seq[ociregistry.Descriptor]:
		seq(func(x ociregistry.Descriptor, err error) bool {
			calls++
			items = append(items, x)
			errs = append(errs, err)
			return calls < 10
		})
	}
	return
}

var w0, w1, w2 = newWorld(false), newWorld(true), newWorld(false, true)

func run(s Script, v *vt.V) {
	w := w0
	if s.Args&128 != 0 {
		w = w1 // the set functions' errors wrap ErrUnsupported: they are results like any other
	}
	if s.Args&512 != 0 {
		w = w2 // the set listing functions return a nil sequence
	}
	w.calls, w.newErrs = w.calls[:0], w.newErrs[:0]
	if s.Method < 0 || s.Method >= len(fields) {
		v.Failf("harness", "bad method index")
		return
	}
	fd := fields[s.Method]
	tbl := w.table(s)
	mv := reflect.ValueOf(tbl).MethodByName(fd.method)
	if !mv.IsValid() {
		v.Failf("", "Funcs has field %s but no method %s", fd.name, fd.method)
		return
	}
	args := argsFor(fd.typ, s.Method, s.Args)
	set := !s.Nil && s.Set&(1<<uint(s.Method)) != 0

	// classification
	others := s.Set &^ (1 << uint(s.Method))
	all := uint64(1)<<uint(len(fields)) - 1
	allOthers := all &^ (1 << uint(s.Method))
	switch {
	case s.Nil:
		v.Class("nil-receiver")
	case set && others == 0:
		v.Class("only-this-set")
	case !set && others == allOthers:
		v.Class("all-but-this-set")
	case set && others == allOthers:
		v.Class("all-set")
	case !set && others == 0:
		v.Class("none-set")
	default:
		v.Class("mixed")
	}
	if set {
		v.Class("called-set")
	} else {
		v.Class("called-unset")
	}
	// Non-trivial: some *other* field's state differs from the called one's
	// (this is where a guard on a neighbour's field shows), or nil receiver.
	if s.Nil || (set && others != allOthers) || (!set && others != 0) {
		v.NonTrivial(fmt.Sprintf("%v/%x/%v/%d/%d", s.Nil, s.Set, s.NewError, s.Method, s.Args))
	}

	outs := mv.Call(args) // a panic here is caught by vt and reported

	if set {
		if len(w.calls) != 1 || w.calls[0].field != s.Method {
			v.Failf("wrong-delegation", "%s with %s set: recorder saw %d calls %v", fd.method, fd.name, len(w.calls), callFields(w.calls))
			return
		}
		for i := range args {
			if !sameValue(args[i], w.calls[0].args[i]) {
				v.Failf("wrong-args", "%s: argument %d not passed through unchanged", fd.method, i)
				return
			}
		}
		for i := range outs {
			if outs[i].Kind() == reflect.Func && w.results[s.Method][i].IsNil() {
				if !outs[i].IsNil() {
					v.Failf("wrong-results", "%s is set and returned a nil sequence; the table returned another one", fd.method)
					return
				}
				continue
			}
			if outs[i].Kind() == reflect.Func {
				// closures cannot be compared: drain both and compare what they yield
				gi, ge, gn := drainSeq(outs[i])
				wi, we, wn := drainSeq(w.results[s.Method][i])
				if gn != wn || !reflect.DeepEqual(gi, wi) || !reflect.DeepEqual(ge, we) {
					v.Failf("wrong-results", "%s: returned iterator yields %v, the function's own yields %v", fd.method, gi, wi)
					return
				}
				continue
			}
			if !sameValue(outs[i], w.results[s.Method][i]) {
				// iterators are funcs created per call by SliceSeq: compare pointer
				v.Failf("wrong-results", "%s: result %d is not the function's own result", fd.method, i)
				return
			}
		}
		if len(w.newErrs) != 0 {
			v.Failf("wrong-delegation", "%s set but error constructor called", fd.method)
		}
		return
	}
	// unset (or nil receiver)
	if len(w.calls) != 0 {
		v.Failf("wrong-delegation", "%s unset but recorder saw calls to %v", fd.method, callFields(w.calls))
		return
	}
	var gotErr error
	sawErrResult := false
	for i, o := range outs {
		ot := fd.typ.Out(i)
		switch {
		case ot == errType:
			sawErrResult = true
			if o.IsNil() {
				v.Failf("unset-no-error", "%s unset: nil error", fd.method)
				return
			}
			gotErr = o.Interface().(error)
		case ot == seqStrType || ot == seqDscType:
			sawErrResult = true
			if o.IsNil() {
				v.Failf("unset-nil-seq", "%s unset: nil iterator", fd.method)
				return
			}
			items, errs, n := drainSeq(o)
			if n != 1 {
				v.Failf("unset-seq-shape", "%s unset: iterator called its consumer %d times, want exactly once", fd.method, n)
				return
			}
			if errs[0] == nil {
				v.Failf("unset-no-error", "%s unset: iterator delivered no error", fd.method)
				return
			}
			if !reflect.ValueOf(items[0]).IsZero() {
				v.Failf("unset-seq-shape", "%s unset: iterator delivered a non-zero item %v with the error", fd.method, items[0])
				return
			}
			gotErr = errs[0]
			// the same sequence run again says the same thing (an unset method does not turn into
			// an empty successful listing the second time round)
			_, errs2, n2 := drainSeq(o)
			if n2 != 1 || errs2[0] == nil || errs2[0].Error() != errs[0].Error() {
				v.Failf("unset-seq-shape", "%s unset: the returned iterator, run a second time, called its consumer %d times with errors %v (first run: once, with %v)", fd.method, n2, errs2, errs[0])
				return
			}
		default:
			if !o.IsZero() {
				v.Failf("unset-nonzero", "%s unset: non-zero result %d: %v", fd.method, i, o)
				return
			}
		}
	}
	if !sawErrResult {
		v.Failf("harness", "method %s has no error-carrying result", fd.method)
		return
	}
	if !s.Nil && s.NewError {
		if gotErr != constructorErr {
			v.Failf("unset-wrong-error", "%s unset with constructor: got %v, want the constructor's error value", fd.method, gotErr)
			return
		}
		if len(w.newErrs) != 1 {
			v.Failf("unset-wrong-error", "%s: constructor called %d times", fd.method, len(w.newErrs))
			return
		}
		if w.newErrs[0].ctx != args[0].Interface() {
			v.Failf("unset-wrong-error", "%s: constructor did not receive the caller's context", fd.method)
			return
		}
		// the constructor is told which method was called, and on which repository
		if w.newErrs[0].method != fd.method {
			v.Failf("unset-wrong-error", "%s unset: the constructor was called for method %q", fd.method, w.newErrs[0].method)
			return
		}
		okRepo := fd.method == "Repositories" && w.newErrs[0].repo == ""
		for _, a := range args {
			if a.Kind() == reflect.String && a.String() == w.newErrs[0].repo && fd.method != "Repositories" {
				okRepo = true
			}
		}
		if fd.method == "MountBlob" {
			// the repository a mount writes to (its second name argument)
			okRepo = args[2].String() == w.newErrs[0].repo
		}
		if !okRepo {
			v.Failf("unset-wrong-error", "%s unset: the constructor was given repository %q, which is none of the call's arguments", fd.method, w.newErrs[0].repo)
		}
		return
	}
	if !errors.Is(gotErr, ociregistry.ErrUnsupported) {
		v.Failf("unset-wrong-error", "%s unset: error %v is not ErrUnsupported", fd.method, gotErr)
	}
}

func callFields(cs []call) []string {
	var out []string
	for _, c := range cs {
		out = append(out, fields[c.field].name)
	}
	return out
}

var propRandom = &vt.Prop[Script]{
	ID:   "C20",
	Name: "FuncsRandomTable",
	Rule: "rapid: uniformly random set/unset assignment to all function fields (found by reflection) x nil/non-nil table x with/without NewError x method called x argument shape (live / cancelled / expired context; unique, zero, -1, -2, minimal, maximal and whole-blob-range integers; empty strings); non-trivial = nil table, or some other field's set-state differs from the called method's; distinct = (nil, assignment bits, NewError, method)",
	Gen: func(t *rapid.T) Script {
		return Script{
			Nil:      rapid.IntRange(0, 15).Draw(t, "nil") == 0,
			Set:      rapid.Uint64Range(0, uint64(1)<<uint(len(fields))-1).Draw(t, "set"),
			NewError: rapid.Bool().Draw(t, "newError"),
			Method:   rapid.IntRange(0, len(fields)-1).Draw(t, "method"),
			Args:     rapid.SampledFrom([]int{0, 0, 1, 2, 4, 8, 12, 16, 13, 30, 32, 64, 96, 33, 80, 128, 128, 140, 256, 256, 257, 512, 512, 640}).Draw(t, "args"),
		}
	},
	Run: run,
}

var propStructured = &vt.Prop[Script]{
	ID:   "C20",
	Name: "FuncsStructured",
	Rule: "enumeration of the assignments the property names: each method alone, all-but-one, all, none, every pair (called method's field, one neighbour) in all four set-states, nil table; x with/without NewError x all methods x twelve argument / result shapes (incl. set functions whose error result wraps ErrUnsupported or whose sequence result is nil, and names that contain format verbs) (live, cancelled and expired contexts, zero / -1 / -2 / minimal / maximal integers, the (0,-1) range, empty strings)",
	Run:  run,
}

var propExhaustive = &vt.Prop[Script]{
	ID:   "C20",
	Name: "FuncsExhaustive",
	Rule: "complete enumeration: all 2^fields set/unset assignments x with/without NewError x all methods, plus the nil table (sharded across processes)",
	Run:  run,
}

// (runs first: a process-wide lazily filled cache is only raced on while it is still empty)
func TestPropConcurrent(t *testing.T) {
	shard, shards := vt.Shard()
	vt.Enumerate(t, propConcurrent, false, func(yield func(ConcScript) bool) {
		k := 0
		for rep := 0; rep < 20; rep++ {
			for _, nilT := range []bool{true, false} {
				for _, ne := range []bool{false, true} {
					for _, g := range []int{2, 4, 16} {
						k++
						if k%shards != shard {
							continue
						}
						if !yield(ConcScript{Nil: nilT, NewError: ne, Goroutines: g}) {
							return
						}
					}
				}
			}
		}
	})
}

func TestPropRandom(t *testing.T) {
	propRandom.Scale = 50
	vt.Check(t, propRandom)
}

// ---- concurrent use of a table with unset functions (built with -race) ----

type ConcScript struct {
	Nil        bool `json:"nil"`
	NewError   bool `json:"new_error"`
	Goroutines int  `json:"goroutines"`
}

var propConcurrent = &vt.Prop[ConcScript]{
	ID:   "C20",
	Name: "FuncsConcurrentUnset",
	Rule: "every method of a nil / empty table (with and without NewError) is called from 2-16 goroutines at once, each goroutine going through all methods starting at a different one; built with -race: a race report, a crash or a panic fails the run, and every call must return the constructor's error or an unsupported-operation error; every case is non-trivial",
	Run: func(s ConcScript, v *vt.V) {
		var f *ociregistry.Funcs
		if !s.Nil {
			f = &ociregistry.Funcs{}
			if s.NewError {
				f.NewError = func(ctx context.Context, methodName, repo string) error { return constructorErr }
			}
		}
		var wg sync.WaitGroup
		var bad atomic.Value
		start := make(chan struct{})
		for g := 0; g < s.Goroutines; g++ {
			wg.Add(1)
			go func(g int) {
				defer wg.Done()
				defer func() {
					if r := recover(); r != nil {
						bad.Store(fmt.Sprintf("panic: %v", r))
					}
				}()
				<-start
				rv := reflect.ValueOf(f)
				for k := range fields {
					fd := fields[(k+g)%len(fields)]
					m := rv.MethodByName(fd.method)
					outs := m.Call(argsFor(fd.typ, k, 0))
					var err error
					for _, o := range outs {
						switch {
						case o.Type() == errType && !o.IsNil():
							err = o.Interface().(error)
						case o.Type() == seqStrType:
							_, err = ociregistry.All(o.Interface().(ociregistry.Seq[string]))
						case o.Type() == seqDscType:
							_, err = ociregistry.All(o.Interface().(ociregistry.Seq[ociregistry.Descriptor]))
						}
					}
					if s.NewError && !s.Nil {
						if err != constructorErr {
							bad.Store(fmt.Sprintf("%s: got %v, want the constructor's error", fd.method, err))
						}
					} else if !errors.Is(err, ociregistry.ErrUnsupported) {
						bad.Store(fmt.Sprintf("%s: got %v, want an unsupported-operation error", fd.method, err))
					}
				}
			}(g)
		}
		close(start)
		wg.Wait()
		if x := bad.Load(); x != nil {
			v.Failf("concurrent-unset", "%d goroutines on a table (nil=%v, NewError=%v): %v", s.Goroutines, s.Nil, s.NewError, x)
			return
		}
		v.NonTrivial(fmt.Sprintf("%v/%v/%d", s.Nil, s.NewError, s.Goroutines))
	},
}

func TestPropStructured(t *testing.T) {
	shard, shards := vt.Shard()
	n := len(fields)
	all := uint64(1)<<uint(n) - 1
	vt.Enumerate(t, propStructured, true, func(yield func(Script) bool) {
		k := 0
		emit := func(s Script) bool {
			k++
			if k%shards != shard {
				return true
			}
			return yield(s)
		}
		for m := 0; m < n; m++ {
			for _, ne := range []bool{false, true} {
				for _, shape := range []int{0, 1, 2, 12, 16, 29, 32, 64, 96, 128, 256, 512} {
					if !emit(Script{Nil: true, NewError: ne, Method: m, Args: shape}) {
						return
					}
					sets := []uint64{0, all}
					for i := 0; i < n; i++ {
						sets = append(sets, 1<<uint(i), all&^(1<<uint(i)))
						// pairs: field i and the called method in every combination, rest unset / rest set
						if i != m {
							sets = append(sets, 1<<uint(i)|1<<uint(m), all&^(1<<uint(i)|1<<uint(m)))
						}
					}
					for _, set := range sets {
						if !emit(Script{Set: set, NewError: ne, Method: m, Args: shape}) {
							return
						}
					}
				}
			}
		}
	})
}

func TestPropExhaustive(t *testing.T) {
	if !vt.Thorough() {
		vt.Register(propExhaustive)
		t.Skip("thorough tier only")
	}
	shard, shards := vt.Shard()
	n := len(fields)
	vt.Enumerate(t, propExhaustive, true, func(yield func(Script) bool) {
		for set := uint64(shard); set < uint64(1)<<uint(n); set += uint64(shards) {
			for m := 0; m < n; m++ {
				for _, ne := range []bool{false, true} {
					if !yield(Script{Set: set, NewError: ne, Method: m}) {
						return
					}
				}
			}
		}
	})
}

func TestReplay(t *testing.T) {
	vt.Register(propRandom)
	vt.Register(propStructured)
	vt.Register(propExhaustive)
	vt.Register(propConcurrent)
	vt.Replay(t)
}
