module verif/harness

go 1.23

toolchain go1.23.5

require (
	cuelabs.dev/go/oci/ociregistry v0.0.0
	github.com/anishathalye/porcupine v1.3.0
	github.com/opencontainers/go-digest v1.0.0
	github.com/opencontainers/image-spec v1.1.0
	pgregory.net/rapid v1.3.0
)

replace cuelabs.dev/go/oci/ociregistry => /repo/ociregistry
