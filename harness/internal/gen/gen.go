// Package gen holds the shared rapid generators: repository names, tags,
// digests, contents. Construction, not rejection.
package gen

import (
	"crypto/sha256"
	"crypto/sha512"
	"fmt"
	"strings"

	"github.com/opencontainers/go-digest"
	"pgregory.net/rapid"
)

// RoutingWords are the path words the HTTP router gives meaning to.
var RoutingWords = []string{"blobs", "manifests", "uploads", "tags", "referrers", "list", "v2", "catalog"}

var separators = []string{".", "_", "__", "-", "--", "---"}

func alnum(min, max int) *rapid.Generator[string] {
	return rapid.StringOfN(rapid.RuneFrom([]rune("abcdefghijklmnopqrstuvwxyz0123456789")), min, max, -1)
}

// Component draws one valid repository path component.
func Component() *rapid.Generator[string] {
	return rapid.Custom(func(t *rapid.T) string {
		switch rapid.IntRange(0, 9).Draw(t, "compKind") {
		case 0, 1, 2:
			return rapid.SampledFrom(RoutingWords).Draw(t, "word")
		case 3, 4, 5, 6:
			return rapid.SampledFrom([]string{"a", "b", "foo", "fooey", "bar", "x1", "0"}).Draw(t, "short")
		}
		var b strings.Builder
		b.WriteString(alnum(1, 5).Draw(t, "run"))
		n := rapid.IntRange(0, 2).Draw(t, "nsep")
		for i := 0; i < n; i++ {
			b.WriteString(rapid.SampledFrom(separators).Draw(t, "sep"))
			b.WriteString(alnum(1, 4).Draw(t, "run"))
		}
		return b.String()
	})
}

// Repo draws a valid repository name (1-4 components, at most 255 bytes),
// weighted towards routing words and textual-prefix siblings.
func Repo() *rapid.Generator[string] {
	return rapid.Custom(func(t *rapid.T) string {
		n := rapid.SampledFrom([]int{1, 1, 1, 2, 2, 2, 3, 4}).Draw(t, "ncomp")
		parts := make([]string, n)
		for i := range parts {
			parts[i] = Component().Draw(t, "comp")
		}
		return strings.Join(parts, "/")
	})
}

// LongRepo draws a syntactically valid repository name whose length is
// exactly n bytes (n >= 1).
func LongRepo(n int) string {
	var b strings.Builder
	for b.Len() < n {
		rem := n - b.Len()
		switch {
		case rem >= 12:
			b.WriteString("abcdefghij/")
		default:
			b.WriteString(strings.Repeat("z", rem))
		}
	}
	s := b.String()
	if strings.HasSuffix(s, "/") {
		s = s[:len(s)-1] + "y"
	}
	return s
}

// HostileRepo draws strings that are mostly not valid repository names.
func HostileRepo() *rapid.Generator[string] {
	fixed := []string{"", ".", "..", "../bar", "a/../b", "a/./b", "/a", "a/", "a//b", "//", "A", "Foo/bar", "a/B",
		"a%2fb", "a\x00b", "a b", "é", "a/é", "-a", "a-", "a.", ".a", "a..b", "a___b", "_catalog", "a/_catalog",
		"a:b", "a@b", "a?b", "a#b", "a\nb", "../../etc", "..a", "a/..", "a/../../b", "foo/../fooey"}
	return rapid.Custom(func(t *rapid.T) string {
		switch rapid.IntRange(0, 3).Draw(t, "hostileKind") {
		case 0, 1:
			return rapid.SampledFrom(fixed).Draw(t, "fixed")
		case 2:
			// a valid name damaged at one position
			s := Repo().Draw(t, "base")
			i := rapid.IntRange(0, len(s)).Draw(t, "pos")
			ins := rapid.SampledFrom([]string{"/", "//", "..", "/../", ".", "A", "%2f", "\x00", " ", "_", "-", "é", ":", "@"}).Draw(t, "ins")
			return s[:i] + ins + s[i:]
		default:
			return rapid.StringOfN(rapid.RuneFrom([]rune("ab/._-A:@%\x00é ")), 0, 8, -1).Draw(t, "junk")
		}
	})
}

const tagFirst = "abcxyzABCXYZ0159_"
const tagRest = "abcxyzABCXYZ0159_.-"

// Tag draws a valid tag (1..128 bytes).
func Tag() *rapid.Generator[string] {
	return rapid.Custom(func(t *rapid.T) string {
		switch rapid.IntRange(0, 9).Draw(t, "tagKind") {
		case 0, 1, 2:
			return rapid.SampledFrom([]string{"latest", "list", "uploads", "blobs", "manifests", "tags", "v1", "0", "_", "a"}).Draw(t, "word")
		case 3:
			n := rapid.SampledFrom([]int{127, 128}).Draw(t, "len")
			return TagOfLen(n, rapid.IntRange(0, 1000).Draw(t, "salt"))
		}
		first := rapid.SampledFrom([]rune(tagFirst)).Draw(t, "first")
		rest := rapid.StringOfN(rapid.RuneFrom([]rune(tagRest)), 0, 10, -1).Draw(t, "rest")
		return string(first) + rest
	})
}

// TagOfLen returns a syntactically valid tag-shaped string of n bytes (n>=1);
// it is a valid tag iff n <= 128.
func TagOfLen(n, salt int) string {
	var b strings.Builder
	b.WriteByte(tagFirst[salt%len(tagFirst)])
	for i := 1; i < n; i++ {
		b.WriteByte(tagRest[(salt+i*7)%len(tagRest)])
	}
	return b.String()
}

// HostileTag draws strings that are mostly not valid tags.
func HostileTag() *rapid.Generator[string] {
	return rapid.Custom(func(t *rapid.T) string {
		switch rapid.IntRange(0, 3).Draw(t, "hostileTagKind") {
		case 0:
			return rapid.SampledFrom([]string{"", ".", "-", ".a", "-a", "a b", "a/b", "a:b", "a@b", "é", "a\x00", "a%", "a?", "sha256:abc"}).Draw(t, "fixed")
		case 1:
			return TagOfLen(rapid.SampledFrom([]int{129, 130, 200, 256}).Draw(t, "len"), 3)
		case 2:
			s := Tag().Draw(t, "base")
			i := rapid.IntRange(0, len(s)).Draw(t, "pos")
			return s[:i] + rapid.SampledFrom([]string{"/", ":", "@", " ", "é", "\x00", "+", "%", "!"}).Draw(t, "ins") + s[i:]
		default:
			return rapid.StringOfN(rapid.RuneFrom([]rune("ab._-A:@/ é")), 0, 6, -1).Draw(t, "junk")
		}
	})
}

// Content is a compact, serialisable description of a byte string.
type Content struct {
	Len  int `json:"len"`
	Seed int `json:"seed"`
	Kind int `json:"kind"` // 0 pseudo-random, 1 repeating text, 2 NUL/0xFF/UTF-8 fragments
}

// Bytes expands the description deterministically.
func (c Content) Bytes() []byte {
	b := make([]byte, c.Len)
	x := uint64(c.Seed)*0x9E3779B97F4A7C15 + 0x1234567
	next := func() uint64 {
		x ^= x << 13
		x ^= x >> 7
		x ^= x << 17
		return x
	}
	switch c.Kind {
	case 1:
		pat := fmt.Sprintf("<%d>abcdefgh", c.Seed)
		for i := range b {
			b[i] = pat[i%len(pat)]
		}
	case 2:
		frag := []byte{0, 0xff, 0xc3, 0xa9, 0xe2, 0x82, 0, '\n', '\r', 0x80, '"', '{'}
		for i := range b {
			b[i] = frag[int(next()%uint64(len(frag)))]
		}
		if c.Len > 0 {
			b[0] = byte(c.Seed)
		}
	default:
		for i := range b {
			b[i] = byte(next())
		}
	}
	return b
}

// Digest returns the sha256 digest of the content.
func (c Content) Digest() digest.Digest { return digest.FromBytes(c.Bytes()) }

// ContentGen draws a content whose length is drawn from lens (boundary
// values) or uniformly from [0,maxSmall].
func ContentGen(lens []int, maxSmall int) *rapid.Generator[Content] {
	return rapid.Custom(func(t *rapid.T) Content {
		var n int
		if len(lens) > 0 && rapid.IntRange(0, 2).Draw(t, "lenKind") > 0 {
			n = rapid.SampledFrom(lens).Draw(t, "len")
		} else {
			n = rapid.IntRange(0, maxSmall).Draw(t, "smallLen")
		}
		return Content{Len: n, Seed: rapid.IntRange(0, 5).Draw(t, "seed"), Kind: rapid.IntRange(0, 2).Draw(t, "kind")}
	})
}

// DigestOf computes the digest of b under the named algorithm
// (sha256, sha384, sha512).
func DigestOf(alg string, b []byte) digest.Digest {
	switch alg {
	case "sha384":
		return digest.NewDigestFromEncoded(digest.SHA384, fmt.Sprintf("%x", sha512.Sum384(b)))
	case "sha512":
		return digest.NewDigestFromEncoded(digest.SHA512, fmt.Sprintf("%x", sha512.Sum512(b)))
	}
	return digest.NewDigestFromEncoded(digest.SHA256, fmt.Sprintf("%x", sha256.Sum256(b)))
}

// ValidDigest draws a well-formed digest string of any registered algorithm.
func ValidDigest() *rapid.Generator[string] {
	return rapid.Custom(func(t *rapid.T) string {
		alg := rapid.SampledFrom([]string{"sha256", "sha256", "sha384", "sha512"}).Draw(t, "alg")
		seed := rapid.IntRange(0, 20).Draw(t, "dseed")
		return string(DigestOf(alg, []byte(fmt.Sprint("digest-seed-", seed))))
	})
}

// HostileDigest draws mostly malformed digest strings.
func HostileDigest() *rapid.Generator[string] {
	good := string(DigestOf("sha256", []byte("x")))
	hex := good[len("sha256:"):]
	fixed := []string{"", "sha256", "sha256:", ":" + hex, hex, "sha256:" + hex[:63], "sha256:" + hex + "0",
		"sha256:" + strings.ToUpper(hex), "SHA256:" + hex, "md5:d41d8cd98f00b204e9800998ecf8427e", "sha1:" + hex[:40],
		"sha256:" + strings.Repeat("g", 64), "sha256+b64:" + hex, "sha-256:" + hex, "sha256:" + hex + "\n", " sha256:" + hex,
		"sha384:" + hex, "sha512:" + hex, "sha256::" + hex, "sha256:" + hex[:32] + "/" + hex[33:], "blake3:" + hex}
	return rapid.Custom(func(t *rapid.T) string {
		if rapid.Bool().Draw(t, "fixedDigest") {
			return rapid.SampledFrom(fixed).Draw(t, "fixed")
		}
		s := ValidDigest().Draw(t, "base")
		i := rapid.IntRange(0, len(s)).Draw(t, "pos")
		switch rapid.IntRange(0, 2).Draw(t, "mut") {
		case 0:
			return s[:i] + rapid.SampledFrom([]string{"g", "A", ":", "/", " ", "-", "0"}).Draw(t, "ins") + s[i:]
		case 1:
			if i < len(s) {
				return s[:i] + s[i+1:]
			}
			return s[:len(s)-1]
		default:
			return strings.ToUpper(s[:i]) + s[i:]
		}
	})
}

// Host draws a valid registry host (or host:port).
func Host() *rapid.Generator[string] {
	return rapid.Custom(func(t *rapid.T) string {
		port := ""
		k := rapid.IntRange(0, 5).Draw(t, "hostKind")
		if rapid.Bool().Draw(t, "port") || k == 5 {
			port = ":" + rapid.SampledFrom([]string{"0", "80", "443", "5000", "65535", "99999"}).Draw(t, "portv")
		}
		switch k {
		case 0:
			return rapid.SampledFrom([]string{"example.com", "a.b", "registry.example.com", "A.B", "x-y.z", "1.2", "0.0.0.0", "a.b.c.d.e"}).Draw(t, "h") + port
		case 1:
			return rapid.SampledFrom([]string{"127.0.0.1", "10.0.0.1", "255.255.255.255"}).Draw(t, "ip4") + port
		case 2:
			return rapid.SampledFrom([]string{"[::1]", "[2001:db8::1]", "[::]", "[fe80::1:2:3]", "[ABCD:EF01::]"}).Draw(t, "ip6") + port
		case 3:
			n := rapid.IntRange(2, 4).Draw(t, "labels")
			ls := make([]string, n)
			for i := range ls {
				ls[i] = rapid.StringMatching(`[a-zA-Z0-9]([a-zA-Z0-9-]{0,4}[a-zA-Z0-9])?`).Draw(t, "label")
			}
			return strings.Join(ls, ".") + port
		case 4:
			return rapid.SampledFrom([]string{"example.com", "localhost.localdomain"}).Draw(t, "h") + port
		default:
			// single label: needs a port to be a host
			return rapid.SampledFrom([]string{"localhost", "registry", "a", "A-1"}).Draw(t, "single") + port
		}
	})
}
