// Package hist generates operation histories (ops.Script values) with a
// state-aware generator: arguments are drawn against a generator-side shadow
// of what has probably been pushed, so that reads of existing / deleted /
// never-seen keys, re-pushes, tag moves and resumes are all frequent. The
// result is plain data; replay and shrinking never depend on the shadow.
package hist

import (
	"fmt"

	"pgregory.net/rapid"

	"verif/harness/internal/gen"
	"verif/harness/internal/ops"
)

// Script is a universe plus an operation list.
type Script struct {
	Immutable bool         `json:"immutable,omitempty"`
	U         ops.Universe `json:"universe"`
	Ops       []ops.Op     `json:"ops"`
}

// Config parameterises the generator.
type Config struct {
	MaxOps          int
	ValidRepos      int      // how many well-formed repository names
	ManyRepos       bool     // a quarter of the universes have six well-formed repository names
	InvalidRepos    bool     // include malformed repository names in the universe
	RepoPool        []string // if set, repository names are drawn from this pool
	Uploads         bool     // chunked upload sessions
	Mismatch        bool     // pushes whose descriptor disagrees with the content
	BadManifests    bool     // malformed / wrong-shape / bad-descriptor manifests
	Retype          bool     // same manifest bytes pushed under another opaque media type
	Attach          bool     // several live writer handles on one upload session
	DeepChain       bool     // a quarter of the universes are one chain of nested indexes, seven manifests deep
	NoEmptyBlobType bool     // never push a blob without a media type
	BigLens         []int    // extra blob lengths (e.g. around chunk sizes)
	MaxSmall        int      // uniform small blob lengths 0..MaxSmall
	BigManifest     int      // if > 0, some manifests are padded to about this size
	Deletes         bool
	Lists           bool
	NoRange         bool
	UnknownResumeID bool
	NoCancel        bool // no BlobWriter.Cancel (it has no wire representation)
	NoWrongOffset   bool // no deliberately wrong resume offsets
	NoHint          bool // chunk-size hint always 0
	BlobTypes       bool // truthful pushes under a second blob media type (in-process registries only)
	KeepCommitted   bool // keep using a writer after its successful commit
}

var validRepoPool = []string{"foo", "foo/bar", "fooey", "a/blobs/uploads", "manifests/x/tags", "b", "x1/referrers", "v2/list", "team/my__repo.x-y"}
var invalidRepoPool = []string{"Bad", "a//b", "", "../x", "a/"}
var tagPool = []string{"latest", "v1", "list", "t_3", "uploads"}
var invalidTagPool = []string{"-bad", "a/b"}

type shadow struct {
	blobs    map[[2]int]int // (repo, blob) -> 1 present, 2 deleted
	mans     map[[2]int]int
	tags     map[[2]int]int
	tagMan   map[[2]int]int // (repo, tag) -> manifest index last pushed under it
	subjects map[int][]int  // repo -> manifest indexes named as subject by something pushed there
	writers  map[int]bool
	pending  map[int]bool // slot has a deliberately wrong resume offset outstanding
	closed   map[int]bool // the slot's writer was closed: it must be resumed before further use
	nvalid   int
}

func pickState(t *rapid.T, m map[[2]int]int, r, n int, label string) int {
	// existing with p~.7, deleted ~.15, anything ~.15
	var present, deleted []int
	for i := 0; i < n; i++ {
		switch m[[2]int{r, i}] {
		case 1:
			present = append(present, i)
		case 2:
			deleted = append(deleted, i)
		}
	}
	k := rapid.IntRange(0, 19).Draw(t, label+"Class")
	switch {
	case k < 14 && len(present) > 0:
		return rapid.SampledFrom(present).Draw(t, label)
	case k < 17 && len(deleted) > 0:
		return rapid.SampledFrom(deleted).Draw(t, label)
	}
	return rapid.IntRange(0, n-1).Draw(t, label)
}

// Gen returns a generator of scripts.
func Gen(cfg Config) func(t *rapid.T) Script {
	return func(t *rapid.T) Script {
		var s Script
		s.Immutable = rapid.Bool().Draw(t, "immutable")
		// ---- universe
		pool := validRepoPool
		if len(cfg.RepoPool) > 0 {
			pool = cfg.RepoPool
		}
		nv := cfg.ValidRepos
		if nv <= 0 {
			nv = 3
		}
		if cfg.ManyRepos && rapid.IntRange(0, 3).Draw(t, "manyRepos") == 0 {
			nv = 6
		}
		if nv > len(pool) {
			nv = len(pool)
		}
		start := rapid.IntRange(0, len(pool)-1).Draw(t, "repoPoolStart")
		for i := 0; i < nv; i++ {
			s.U.Repos = append(s.U.Repos, pool[(start+i)%len(pool)])
		}
		if cfg.InvalidRepos {
			s.U.Repos = append(s.U.Repos, invalidRepoPool[rapid.IntRange(0, len(invalidRepoPool)-1).Draw(t, "badRepo")], invalidRepoPool[rapid.IntRange(0, len(invalidRepoPool)-1).Draw(t, "badRepo2")])
		}
		s.U.Tags = append(s.U.Tags, tagPool[:3]...)
		if cfg.InvalidRepos {
			s.U.Tags = append(s.U.Tags, invalidTagPool[rapid.IntRange(0, len(invalidTagPool)-1).Draw(t, "badTag")])
		}
		nb := 5
		maxSmall := cfg.MaxSmall
		if maxSmall == 0 {
			maxSmall = 40
		}
		lens := append([]int{0, 1, 2, 3}, cfg.BigLens...)
		seenLen := map[string]bool{}
		for i := 0; i < nb; i++ {
			c := gen.ContentGen(lens, maxSmall).Draw(t, "blob")
			c.Seed = i // distinct contents => distinct digests (except equal empty blobs)
			key := fmt.Sprint(c.Len, c.Seed, c.Kind)
			if seenLen[key] {
				c.Seed += 10
			}
			seenLen[key] = true
			s.U.Blobs = append(s.U.Blobs, c)
		}
		nm := 6
		chain := cfg.DeepChain && rapid.IntRange(0, 3).Draw(t, "deepChain") == 0
		if chain {
			nm = 7
		}
		for i := 0; i < nm; i++ {
			var m ops.ManSpec
			m.Salt = i
			if chain {
				// one deep reference chain: an image and six indexes, each naming the one before
				m.Config = -1
				if i == 0 {
					m.Kind, m.Config = "image", rapid.IntRange(0, nb-1).Draw(t, "config")
					m.Layers = []int{rapid.IntRange(0, nb-1).Draw(t, "layer")}
				} else {
					m.Kind, m.Children = "index", []int{i - 1}
				}
				s.U.Manifests = append(s.U.Manifests, m)
				continue
			}
			kinds := []string{"image", "image", "index", "index", "opaque"}
			if cfg.BadManifests {
				kinds = append(kinds, "badjson", "wrongshape", "opaquebin", "trailing")
			}
			if i == 0 {
				kinds = []string{"image", "opaque"}
			}
			m.Kind = rapid.SampledFrom(kinds).Draw(t, "manKind")
			m.Config = -1
			switch m.Kind {
			case "image":
				m.Config = rapid.IntRange(0, nb-1).Draw(t, "config")
				nl := rapid.IntRange(0, 2).Draw(t, "nlayers")
				for j := 0; j < nl; j++ {
					m.Layers = append(m.Layers, rapid.IntRange(0, nb-1).Draw(t, "layer"))
				}
			case "index":
				nc := rapid.IntRange(0, 2).Draw(t, "nchildren")
				for j := 0; j < nc && i > 0; j++ {
					m.Children = append(m.Children, rapid.IntRange(0, i-1).Draw(t, "child"))
				}
			case "opaque":
				if cfg.Retype && rapid.Bool().Draw(t, "retype") {
					m.MediaType = "application/vnd.verif.other+json"
				}
			}
			if m.Kind == "image" || m.Kind == "index" {
				switch rapid.IntRange(0, 9).Draw(t, "subjectKind") {
				case 0, 1, 2:
					if i > 0 {
						m.SubjectKind, m.SubjectRef = 1, rapid.IntRange(0, i-1).Draw(t, "subjectRef")
					}
				case 3:
					m.SubjectKind = 3
				case 4:
					m.SubjectKind, m.SubjectRef = 2, rapid.IntRange(0, nb-1).Draw(t, "subjectBlob")
				}
				if cfg.BadManifests && rapid.IntRange(0, 11).Draw(t, "badDesc") == 0 {
					m.BadDesc = rapid.IntRange(1, 3).Draw(t, "badDescKind")
					if m.SubjectKind != 0 && rapid.Bool().Draw(t, "badSubject") {
						m.BadDesc += 4
					}
				}
				if cfg.BadManifests && m.Kind == "index" && len(m.Children) > 0 && m.BadDesc == 0 && rapid.IntRange(0, 3).Draw(t, "lyingChildType") == 0 {
					m.BadDesc = 4
				}
			}
			if cfg.BigManifest > 0 && rapid.IntRange(0, 5).Draw(t, "big") == 0 {
				m.Pad = cfg.BigManifest + rapid.IntRange(-300, 300).Draw(t, "padDelta")
				if m.Pad < 0 {
					m.Pad = 0
				}
			}
			s.U.Manifests = append(s.U.Manifests, m)
		}

		// ---- operations
		sh := &shadow{blobs: map[[2]int]int{}, mans: map[[2]int]int{}, tags: map[[2]int]int{}, tagMan: map[[2]int]int{}, subjects: map[int][]int{}, writers: map[int]bool{}, pending: map[int]bool{}, closed: map[int]bool{}, nvalid: nv}
		nrepo, ntag := len(s.U.Repos), len(s.U.Tags)
		type kindW struct {
			k string
			w int
		}
		kinds := []kindW{{"pushBlob", 10}, {"getBlob", 5}, {"resolveBlob", 3}, {"pushManifest", 12}, {"getManifest", 4},
			{"resolveManifest", 3}, {"getTag", 5}, {"resolveTag", 4}, {"mount", 4}}
		if !cfg.NoRange {
			kinds = append(kinds, kindW{"getBlobRange", 4})
		}
		if cfg.Deletes {
			kinds = append(kinds, kindW{"deleteBlob", 4}, kindW{"deleteManifest", 4}, kindW{"deleteTag", 3})
		}
		if cfg.Lists {
			kinds = append(kinds, kindW{"repos", 2}, kindW{"tags", 3}, kindW{"referrers", 4})
		}
		if cfg.Uploads {
			kinds = append(kinds, kindW{"upload", 16})
		}
		var table []string
		for _, kw := range kinds {
			for i := 0; i < kw.w; i++ {
				table = append(table, kw.k)
			}
		}
		maxOps := cfg.MaxOps
		if maxOps == 0 {
			maxOps = 30
		}
		n := rapid.IntRange(1, maxOps).Draw(t, "nops")
		// prereq emits the pushes a manifest needs to be acceptable in repository r
		var prereq func(r, mi, depth int)
		prereq = func(r, mi, depth int) {
			m := s.U.Manifests[mi]
			need := append([]int{}, m.Layers...)
			if m.Kind == "image" && m.Config >= 0 {
				need = append(need, m.Config)
			}
			for _, b := range need {
				if sh.blobs[[2]int{r, b}] != 1 {
					s.Ops = append(s.Ops, ops.Op{K: "pushBlob", R: r, B: b})
					sh.blobs[[2]int{r, b}] = 1
				}
			}
			for _, c := range m.Children {
				if c < mi && sh.mans[[2]int{r, c}] != 1 && depth < 8 {
					prereq(r, c, depth+1)
					s.Ops = append(s.Ops, ops.Op{K: "pushManifest", R: r, M: c, T: -1})
					sh.mans[[2]int{r, c}] = 1
				}
			}
		}
		repo := func(label string) int {
			// mostly the first valid repositories
			if cfg.InvalidRepos && rapid.IntRange(0, 11).Draw(t, label+"Bad") == 0 {
				return rapid.IntRange(nv, nrepo-1).Draw(t, label)
			}
			return rapid.IntRange(0, nv-1).Draw(t, label)
		}
		for i := 0; i < n; i++ {
			op := ops.Op{K: rapid.SampledFrom(table).Draw(t, "kind")}
			op.R = repo("repo")
			if op.K == "upload" {
				// upload episodes: the next step of a slot depends on where the slot is
				nslots := 1
				if cfg.Attach {
					nslots = 2
				}
				op.W = rapid.IntRange(0, nslots).Draw(t, "slot")
				switch {
				case !sh.writers[op.W]:
					op.K = "upStart"
				case sh.closed[op.W]:
					// a closed writer is not used again (that is undefined for an io.Closer): resume it
					op.K = "upResume"
				case sh.pending[op.W]:
					op.K = "upWrite"
					sh.pending[op.W] = false
				default:
					op.K = rapid.SampledFrom([]string{"upWrite", "upWrite", "upWrite", "upWrite", "upResume", "upResume", "upResume", "upCommit", "upCommit", "upSize", "upCancel", "upClose", "upStart"}).Draw(t, "upKind")
					if op.K == "upCancel" && cfg.NoCancel {
						op.K = "upSize"
					}
					if cfg.Attach && rapid.IntRange(0, 4).Draw(t, "attach") == 0 {
						// a second handle on the same session; the first one stays open
						src := op.W
						op.K, op.O1 = "upAttach", int64(src)
						op.W = (src + rapid.IntRange(1, 2).Draw(t, "attachSlot")) % 3
					}
				}
			}
			switch op.K {
			case "pushBlob":
				op.B = rapid.IntRange(0, nb-1).Draw(t, "blob")
				if cfg.Mismatch && rapid.IntRange(0, 7).Draw(t, "mismatch") == 0 {
					op.Mode = rapid.IntRange(1, 3).Draw(t, "mismatchKind")
				} else {
					sh.blobs[[2]int{op.R, op.B}] = 1
					if cfg.BlobTypes && rapid.IntRange(0, 3).Draw(t, "blobType") == 0 {
						op.Mode = 5
					} else if !cfg.NoEmptyBlobType && rapid.IntRange(0, 7).Draw(t, "noBlobType") == 0 {
						op.Mode = 4 // no media type in the descriptor: only digest and size are significant
					}
				}
			case "getBlob", "resolveBlob":
				op.B = pickState(t, sh.blobs, op.R, nb, "blob")
			case "getBlobRange":
				op.B = pickState(t, sh.blobs, op.R, nb, "blob")
				l := int64(s.U.Blobs[op.B].Len)
				off := func(label string) int64 {
					return rapid.SampledFrom([]int64{-1, 0, 1, 2, l - 1, l, l + 1, l / 2, l + 100}).Draw(t, label)
				}
				op.O0, op.O1 = off("o0"), off("o1")
			case "deleteBlob":
				op.B = pickState(t, sh.blobs, op.R, nb, "blob")
				if sh.blobs[[2]int{op.R, op.B}] == 1 {
					sh.blobs[[2]int{op.R, op.B}] = 2
				}
			case "mount":
				op.R2 = repo("fromRepo")
				op.B = pickState(t, sh.blobs, op.R2, nb, "blob")
				if sh.blobs[[2]int{op.R2, op.B}] == 1 {
					sh.blobs[[2]int{op.R, op.B}] = 1
				}
			case "pushManifest":
				op.M = rapid.IntRange(0, nm-1).Draw(t, "man")
				if rapid.IntRange(0, 3).Draw(t, "withPrereqs") > 0 && op.R < nv {
					prereq(op.R, op.M, 0)
				}
				if cfg.Retype && s.U.Manifests[op.M].Kind == "opaque" && rapid.IntRange(0, 2).Draw(t, "retypePush") == 0 {
					op.Mode = 1
				}
				if k := s.U.Manifests[op.M].Kind; cfg.Retype && (k == "image" || k == "index") && rapid.IntRange(0, 5).Draw(t, "retypeStructured") == 0 {
					op.Mode = 1 // the same bytes as an opaque document
				} else if cfg.Retype && (k == "image" || k == "index") && rapid.IntRange(0, 7).Draw(t, "retypeCross") == 0 {
					op.Mode = 2 // image bytes as an index, index bytes as an image
				} else if cfg.Retype && (k == "image" || k == "index") && rapid.IntRange(0, 9).Draw(t, "retypeCase") == 0 {
					op.Mode = 3 // its own media type spelled in another letter case
				}
				op.T = -1
				if rapid.IntRange(0, 2).Draw(t, "tagged") > 0 {
					op.T = rapid.IntRange(0, ntag-1).Draw(t, "tag")
					sh.tags[[2]int{op.R, op.T}] = 1
					sh.tagMan[[2]int{op.R, op.T}] = op.M
				}
				sh.mans[[2]int{op.R, op.M}] = 1
				if ms := s.U.Manifests[op.M]; ms.SubjectKind == 1 {
					sh.subjects[op.R] = append(sh.subjects[op.R], ms.SubjectRef)
				}
			case "getManifest", "resolveManifest":
				op.M = pickState(t, sh.mans, op.R, nm, "man")
			case "deleteManifest":
				op.M = pickState(t, sh.mans, op.R, nm, "man")
				// often aim at a manifest a tag points to (dangling tags / immutable refusals)
				for tg := 0; tg < ntag; tg++ {
					if sh.tags[[2]int{op.R, tg}] == 1 && rapid.IntRange(0, 2).Draw(t, "aimTagged") == 0 {
						op.M = sh.tagMan[[2]int{op.R, tg}]
						break
					}
				}
				if sh.mans[[2]int{op.R, op.M}] == 1 {
					sh.mans[[2]int{op.R, op.M}] = 2
				}
			case "getTag", "resolveTag":
				op.T = pickState(t, sh.tags, op.R, ntag, "tag")
			case "deleteTag":
				op.T = pickState(t, sh.tags, op.R, ntag, "tag")
				if sh.tags[[2]int{op.R, op.T}] == 1 {
					sh.tags[[2]int{op.R, op.T}] = 2
				}
			case "repos":
				op.S = rapid.SampledFrom([]string{"", "", "a", "foo", "foo/bar", "fooe", "zzz", "manifests"}).Draw(t, "startAfter")
			case "tags":
				op.S = rapid.SampledFrom([]string{"", "", "latest", "l", "list", "v0", "zzz"}).Draw(t, "startAfter")
			case "referrers":
				if rapid.IntRange(0, 4).Draw(t, "refBlob") == 0 {
					op.Mode, op.B = 1, rapid.IntRange(0, nb-1).Draw(t, "blob")
				} else if subj := sh.subjects[op.R]; len(subj) > 0 && rapid.IntRange(0, 3).Draw(t, "aimSubject") > 0 {
					op.M = rapid.SampledFrom(subj).Draw(t, "subjectMan")
				} else {
					op.M = pickState(t, sh.mans, op.R, nm, "man")
				}
			case "upStart":
				sh.closed[op.W] = false
				op.N = rapid.SampledFrom([]int{0, 0, -1, 1, 100, 8192, 20000}).Draw(t, "chunkHint")
				sh.writers[op.W] = true
			case "upWrite":
				op.B = rapid.IntRange(0, nb-1).Draw(t, "blob")
				if rapid.Bool().Draw(t, "partial") {
					op.N = rapid.IntRange(1, 9).Draw(t, "prefix")
				}
			case "upResume":
				sh.closed[op.W] = false
				op.Mode = rapid.SampledFrom([]int{0, 0, 0, 1, 1, 2}).Draw(t, "resumeMode")
				if op.Mode == 2 && cfg.NoWrongOffset {
					op.Mode = 0
				}
				if cfg.UnknownResumeID && rapid.IntRange(0, 9).Draw(t, "unknownID") == 0 {
					op.Mode = 3
					op.S = rapid.SampledFrom([]string{"unknown-1", "unknown-2"}).Draw(t, "id")
				}
				if op.Mode == 2 {
					op.N = rapid.SampledFrom([]int{-1, 1, 2, 100}).Draw(t, "offsetDelta")
					sh.pending[op.W] = true
				}
			case "upAttach":
				sh.closed[op.W] = false
				sh.writers[op.W] = true
				sh.pending[op.W] = false
				op.Mode = rapid.SampledFrom([]int{0, 0, 1, 1, 2, 2}).Draw(t, "attachMode")
				if op.Mode == 2 && cfg.NoWrongOffset {
					op.Mode = 1
				}
				if cfg.UnknownResumeID && rapid.IntRange(0, 3).Draw(t, "foreignRepo") == 0 {
					op.Mode = 3 // the session's id presented in repository R (drawn independently of the session's)
				}
				if op.Mode == 2 {
					op.N = rapid.SampledFrom([]int{-1, 1, 2, 100}).Draw(t, "offsetDelta")
					sh.pending[op.W] = true
				}
			case "upClose":
				sh.closed[op.W] = true
			case "upStart2":
			case "upCommit":
				sh.closed[op.W] = false
				sh.writers[op.W] = cfg.KeepCommitted && rapid.Bool().Draw(t, "keepAfterCommit")
				if cfg.Mismatch && rapid.IntRange(0, 5).Draw(t, "wrongDigest") == 0 {
					op.Mode = 1
					sh.writers[op.W] = true // the session survives a failed commit (and stays failed)
				}
			}
			s.Ops = append(s.Ops, op)
		}
		if cfg.DeepChain && cfg.Deletes && rapid.IntRange(0, 5).Draw(t, "lateSubject") == 0 {
			// a tagged manifest whose subject arrives only later: what the subject refers to becomes
			// reachable from the tag the moment the subject is pushed
			for mi, m := range s.U.Manifests {
				if m.SubjectKind != 1 || m.SubjectRef >= mi || (m.Kind != "image" && m.Kind != "index") {
					continue
				}
				sub := s.U.Manifests[m.SubjectRef]
				if sub.Kind != "image" || sub.Config < 0 {
					continue
				}
				r := 0
				prereq(r, mi, 0)
				s.Ops = append(s.Ops, ops.Op{K: "pushManifest", R: r, M: mi, T: 0})
				if m.Kind == "image" && m.Config >= 0 {
					s.Ops = append(s.Ops, ops.Op{K: "deleteBlob", R: r, B: m.Config}) // consults the guard
				}
				prereq(r, m.SubjectRef, 0)
				s.Ops = append(s.Ops, ops.Op{K: "pushManifest", R: r, M: m.SubjectRef, T: -1})
				victim := sub.Config
				if len(sub.Layers) > 0 {
					victim = sub.Layers[0]
				}
				s.Ops = append(s.Ops, ops.Op{K: "deleteBlob", R: r, B: victim}, ops.Op{K: "getBlob", R: r, B: victim})
				break
			}
		}
		return s
	}
}
