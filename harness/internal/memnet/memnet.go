// Package memnet runs a real net/http server and client over in-memory
// connections (net.Pipe), so that checks exercise the genuine HTTP/1.1
// machinery of both sides without consuming TCP ports: thousands of servers
// per second would otherwise exhaust the ephemeral port range under load and
// make a check fail for reasons that have nothing to do with the code under test.
package memnet

import (
	"context"
	"errors"
	"fmt"
	"net"
	"net/http"
	"sync"
	"sync/atomic"
	"time"
)

type listener struct {
	conns  chan net.Conn
	closed chan struct{}
	once   sync.Once
	addr   addr
}

type addr string

func (a addr) Network() string { return "mem" }
func (a addr) String() string  { return string(a) }

func (l *listener) Accept() (net.Conn, error) {
	select {
	case c := <-l.conns:
		return c, nil
	case <-l.closed:
		return nil, net.ErrClosed
	}
}
func (l *listener) Close() error   { l.once.Do(func() { close(l.closed) }); return nil }
func (l *listener) Addr() net.Addr { return l.addr }

var counter int64

// Server is an http.Server listening on an in-memory listener.
type Server struct {
	// Host is the host name to put in URLs ("http://" + Host).
	Host string
	URL  string
	l    *listener
	srv  *http.Server
	tr   *http.Transport
}

// NewServer starts serving h.
func NewServer(h http.Handler) *Server {
	n := atomic.AddInt64(&counter, 1)
	host := fmt.Sprintf("mem%d.test", n)
	l := &listener{conns: make(chan net.Conn), closed: make(chan struct{}), addr: addr(host)}
	s := &Server{Host: host, URL: "http://" + host, l: l, srv: &http.Server{Handler: h}}
	go s.srv.Serve(l)
	return s
}

// dial connects to the server regardless of the address asked for (each
// transport belongs to exactly one server).
func (s *Server) dial(ctx context.Context, network, address string) (net.Conn, error) {
	c1, c2 := net.Pipe()
	select {
	case s.l.conns <- c2:
		return c1, nil
	case <-s.l.closed:
		c1.Close()
		c2.Close()
		return nil, errors.New("memnet: server closed")
	case <-ctx.Done():
		c1.Close()
		c2.Close()
		return nil, ctx.Err()
	}
}

// Transport returns a fresh http.Transport that reaches this server.
func (s *Server) Transport() *http.Transport {
	// One in-memory connection per request: connection reuse adds nothing to what is being
	// checked, and a reused pipe that the server has just closed fails differently from TCP
	// (no transparent retry), which showed up as rare spurious 500s under load.
	tr := &http.Transport{DialContext: s.dial, DisableKeepAlives: true, ExpectContinueTimeout: time.Second, DisableCompression: true}
	if s.tr == nil {
		s.tr = tr
	}
	return tr
}

// Client returns an http.Client bound to this server.
func (s *Server) Client() *http.Client { return &http.Client{Transport: s.Transport()} }

// Close stops the server and closes its connections.
func (s *Server) Close() {
	if s.tr != nil {
		s.tr.CloseIdleConnections()
	}
	s.srv.Close()
	s.l.Close()
}
