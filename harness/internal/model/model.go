// Package model is the sequential reference model of a registry: per
// repository a set of blobs, a set of manifests, tag bindings and upload
// sessions. Step checks an observed outcome against the set of outcomes the
// model accepts and advances the state. Where the property leaves behaviour
// open the model accepts a set of outcomes, never a guess.
package model

import (
	"bytes"
	"crypto/sha256"
	"encoding/json"
	"fmt"
	"sort"
	"strings"

	"cuelabs.dev/go/oci/ociregistry/ociref"
	"github.com/opencontainers/go-digest"
	ocispec "github.com/opencontainers/image-spec/specs-go/v1"

	"verif/harness/internal/ops"
)

type Blob struct {
	Data []byte
	MT   string
}

type Man struct {
	Data    []byte
	MT      string
	Subject string
}

type Upload struct {
	Buf       []byte
	Err       string // sticky commit failure: "", "canceled", "DIGEST_INVALID"
	Committed bool   // a commit has succeeded: cancelling is then a no-op
}

type Repo struct {
	Blobs   map[string]Blob
	Mans    map[string]Man
	Tags    map[string]ops.Desc
	Uploads map[string]*Upload
}

// slot is one writer handle. Every handle checks, on its first write, the offset it was opened
// at - independently of other handles on the same session.
type slot struct {
	repo  string
	id    string
	check int64 // offset the handle's next write must start at; -1: unchecked
}

type Model struct {
	// KeepCommitted mirrors ops.Env.KeepCommitted.
	KeepCommitted bool
	Immutable     bool
	Repos         map[string]*Repo
	Touched       map[string]bool
	slots         map[int]slot
	// Stats for the generator-quality report.
	Events map[string]int
}

func New(immutable bool) *Model {
	return &Model{Immutable: immutable, Repos: map[string]*Repo{}, Touched: map[string]bool{}, slots: map[int]slot{}, Events: map[string]int{}}
}

// Clone returns a deep-enough copy (byte slices are shared, never mutated in place).
func (m *Model) Clone() *Model {
	n := New(m.Immutable)
	n.KeepCommitted = m.KeepCommitted
	for k, v := range m.Touched {
		n.Touched[k] = v
	}
	for k, v := range m.slots {
		n.slots[k] = v
	}
	for name, r := range m.Repos {
		nr := newRepo()
		for k, v := range r.Blobs {
			nr.Blobs[k] = v
		}
		for k, v := range r.Mans {
			nr.Mans[k] = v
		}
		for k, v := range r.Tags {
			nr.Tags[k] = v
		}
		for k, v := range r.Uploads {
			c := *v
			nr.Uploads[k] = &c
		}
		n.Repos[name] = nr
	}
	return n
}

// Key is a canonical rendering of the state (used to recognise equal states).
func (m *Model) Key() string {
	var b strings.Builder
	names := make([]string, 0, len(m.Repos))
	for n := range m.Repos {
		names = append(names, n)
	}
	sort.Strings(names)
	for _, n := range names {
		r := m.Repos[n]
		fmt.Fprintf(&b, "R%s{", n)
		ks := make([]string, 0, len(r.Blobs))
		for k := range r.Blobs {
			ks = append(ks, k)
		}
		sort.Strings(ks)
		fmt.Fprintf(&b, "B%v", ks)
		ks = ks[:0]
		for k, v := range r.Mans {
			ks = append(ks, k+"/"+v.MT)
		}
		sort.Strings(ks)
		fmt.Fprintf(&b, "M%v", ks)
		ks = ks[:0]
		for k, v := range r.Tags {
			ks = append(ks, k+"="+v.Digest+"/"+v.MediaType)
		}
		sort.Strings(ks)
		fmt.Fprintf(&b, "T%v", ks)
		ks = ks[:0]
		for k, v := range r.Uploads {
			ks = append(ks, fmt.Sprintf("%s:%x:%s:%v", k, sha256.Sum256(v.Buf), v.Err, v.Committed))
		}
		sort.Strings(ks)
		fmt.Fprintf(&b, "U%v}", ks)
	}
	ss := make([]string, 0, len(m.slots))
	for k, v := range m.slots {
		ss = append(ss, fmt.Sprintf("%d=%s/%s/%d", k, v.repo, v.id, v.check))
	}
	sort.Strings(ss)
	fmt.Fprintf(&b, "S%v", ss)
	return b.String()
}

func newRepo() *Repo {
	return &Repo{Blobs: map[string]Blob{}, Mans: map[string]Man{}, Tags: map[string]ops.Desc{}, Uploads: map[string]*Upload{}}
}

func (m *Model) repo(name string) *Repo {
	r := m.Repos[name]
	if r == nil {
		r = newRepo()
		m.Repos[name] = r
	}
	return r
}

func (r *Repo) hasContent() bool {
	return r != nil && (len(r.Blobs) > 0 || len(r.Mans) > 0 || len(r.Tags) > 0)
}

func (m *Model) ev(s string) { m.Events[s]++ }

// HasContent reports whether the named repository holds a blob, manifest or tag.
func (m *Model) HasContent(name string) bool { return m.Repos[name].hasContent() }

// SlotSize returns the number of bytes the upload session in slot w holds (-1 if the slot is empty).
func (m *Model) SlotSize(w int) int {
	sl, ok := m.slots[w]
	if !ok {
		return -1
	}
	if r := m.Repos[sl.repo]; r != nil && r.Uploads[sl.id] != nil {
		return len(r.Uploads[sl.id].Buf)
	}
	return -1
}

func isOneOf(s string, set ...string) bool {
	for _, x := range set {
		if s == x {
			return true
		}
	}
	return false
}

// lookupCodes returns the error codes acceptable for a failed lookup of kind
// code in repository name: a repository without content may be reported as
// unknown or as empty.
func (m *Model) lookupCodes(name, code string) []string {
	if m.Repos[name].hasContent() {
		return []string{code}
	}
	return []string{code, "NAME_UNKNOWN"}
}

func sha(b []byte) string { return fmt.Sprintf("%x", sha256.Sum256(b)) }

func descOf(data []byte, mt string) ops.Desc {
	return ops.Desc{Digest: string(digest.FromBytes(data)), Size: int64(len(data)), MediaType: mt}
}

const emptyHash = "sha256:e3b0c44298fc1c149afbf4c8996fb92427ae41e4649b934ca495991b7852b855"

// descSane mirrors what the documentation calls a well-formed descriptor:
// valid digest, a media type, and size 0 only for the empty content.
func descSane(d ocispec.Descriptor) bool {
	if !ociref.IsValidDigest(string(d.Digest)) {
		return false
	}
	if d.Size == 0 && d.Digest != emptyHash {
		return false
	}
	return d.MediaType != ""
}

type ref struct {
	kind   string // blob | manifest | subject
	desc   ocispec.Descriptor
	digest string
}

// refsOf interprets manifest bytes under a media type. ok=false: the bytes
// are not a well-formed manifest of that type.
func refsOf(mt string, data []byte) (refs []ref, ok bool) {
	switch mt {
	case ocispec.MediaTypeImageManifest:
		var im ocispec.Manifest
		if json.Unmarshal(data, &im) != nil {
			return nil, false
		}
		for _, l := range im.Layers {
			refs = append(refs, ref{"blob", l, string(l.Digest)})
		}
		refs = append(refs, ref{"blob", im.Config, string(im.Config.Digest)})
		if im.Subject != nil {
			refs = append(refs, ref{"subject", *im.Subject, string(im.Subject.Digest)})
		}
	case ocispec.MediaTypeImageIndex:
		var ix ocispec.Index
		if json.Unmarshal(data, &ix) != nil {
			return nil, false
		}
		for _, c := range ix.Manifests {
			refs = append(refs, ref{"manifest", c, string(c.Digest)})
		}
		if ix.Subject != nil {
			refs = append(refs, ref{"subject", *ix.Subject, string(ix.Subject.Digest)})
		}
	}
	return refs, true
}

// Protected reports whether dg is referred to, directly or through stored
// manifests (each interpreted by the media type it is stored with; a subject
// counts as a reference), by some tag of the repository (immutable-tags mode).
// The second result is kept for callers that want to tolerate a model
// uncertainty; it is always false now.
func (r *Repo) Protected(dg string) (prot, uncertain bool) {
	seen := map[string]bool{}
	var walk func(d string) bool
	walk = func(d string) bool {
		if d == dg {
			return true
		}
		man, ok := r.Mans[d]
		if !ok || seen[d] {
			return false
		}
		seen[d] = true
		refs, ok := refsOf(man.MT, man.Data)
		if !ok {
			return false
		}
		for _, x := range refs {
			if x.digest == dg {
				return true
			}
			if x.kind == "manifest" || x.kind == "subject" {
				if walk(x.digest) {
					return true
				}
			}
		}
		return false
	}
	for _, td := range r.Tags {
		if walk(td.Digest) {
			return true, false
		}
	}
	return false, false
}

func sortedAfter(keys []string, after string) []string {
	sort.Strings(keys)
	var out []string
	for _, k := range keys {
		if k > after {
			out = append(out, k)
		}
	}
	return out
}

func eqStrings(a, b []string) bool {
	if len(a) != len(b) {
		return false
	}
	for i := range a {
		if a[i] != b[i] {
			return false
		}
	}
	return true
}

// Step checks out against the model's acceptable outcomes for op and advances
// the state. It returns "" if the outcome is acceptable.
func (m *Model) Step(u *ops.Universe, op ops.Op, out ops.Out) string {
	if out.Skipped {
		return ""
	}
	repoName := func(i int) string {
		if i < 0 || i >= len(u.Repos) {
			return "out-of-range"
		}
		return u.Repos[i]
	}
	tagName := func(i int) string {
		if i < 0 || i >= len(u.Tags) {
			return ""
		}
		return u.Tags[i]
	}
	name := repoName(op.R)
	validName := ociref.IsValidRepository(name)
	wantErr := func(codes ...string) string {
		if out.Err == "" {
			return fmt.Sprintf("%s: succeeded, want error %v", op.K, codes)
		}
		if len(codes) == 0 || isOneOf(out.Err, codes...) {
			return ""
		}
		return fmt.Sprintf("%s: error code %s (%s), want one of %v", op.K, out.Err, out.ErrMsg, codes)
	}
	wantOK := func() string {
		if out.Err != "" {
			return fmt.Sprintf("%s: failed with %s (%s), want success", op.K, out.Err, out.ErrMsg)
		}
		return ""
	}
	wantRead := func(data []byte, d ops.Desc) string {
		if s := wantOK(); s != "" {
			return s
		}
		if out.ReadErr != "" {
			return fmt.Sprintf("%s: read failed with %s", op.K, out.ReadErr)
		}
		if !bytes.Equal(out.Data, data) {
			return fmt.Sprintf("%s: read %d bytes (sha %s), want %d bytes (sha %s)", op.K, len(out.Data), out.DataSHA[:12], len(data), sha(data)[:12])
		}
		if out.Desc != d {
			return fmt.Sprintf("%s: descriptor %+v, want %+v", op.K, out.Desc, d)
		}
		return ""
	}

	switch op.K {
	case "pushBlob":
		data := u.BlobBytes(op.B)
		switch op.Mode {
		case 1:
			m.ev("pushBlob-mismatch")
			return wantErr("DIGEST_INVALID")
		case 2, 3:
			m.ev("pushBlob-mismatch")
			return wantErr("SIZE_INVALID")
		}
		if !validName {
			return wantErr("NAME_INVALID")
		}
		if s := wantOK(); s != "" {
			return s
		}
		want := descOf(data, ops.MTOctet)
		if out.Desc.Digest != want.Digest || out.Desc.Size != want.Size {
			return fmt.Sprintf("pushBlob: returned descriptor %+v, want digest/size of %+v", out.Desc, want)
		}
		r := m.repo(name)
		if _, had := r.Blobs[want.Digest]; !had && m.Events["deleted:"+name+want.Digest] > 0 {
			m.ev("repush-after-delete")
		}
		mt := ops.MTOctet
		if op.Mode == 5 {
			mt = ops.MTBlobAlt
			m.ev("blob-other-media-type")
		}
		if op.Mode == 4 {
			// pushed without a media type (only digest and size are significant): stored as a plain blob
			m.ev("blob-no-media-type")
			if out.Desc.MediaType != "" && out.Desc.MediaType != mt {
				return fmt.Sprintf("pushBlob without media type: returned media type %q", out.Desc.MediaType)
			}
		} else if out.Desc.MediaType != mt {
			return fmt.Sprintf("pushBlob: returned media type %q, want %q", out.Desc.MediaType, mt)
		}
		r.Blobs[want.Digest] = Blob{data, mt}
		m.Touched[name] = true
		return ""

	case "getBlob", "resolveBlob", "getBlobRange":
		dg := string(u.BlobDigest(op.B))
		r := m.Repos[name]
		var b Blob
		found := false
		if r != nil {
			b, found = r.Blobs[dg]
		}
		if !found {
			if m.Events["deleted:"+name+dg] > 0 {
				m.ev("read-after-delete")
			}
			return wantErr(m.lookupCodes(name, "BLOB_UNKNOWN")...)
		}
		d := descOf(b.Data, b.MT)
		switch op.K {
		case "resolveBlob":
			if s := wantOK(); s != "" {
				return s
			}
			if out.Desc != d {
				return fmt.Sprintf("resolveBlob: %+v, want %+v", out.Desc, d)
			}
			return ""
		case "getBlob":
			return wantRead(b.Data, d)
		}
		// range: [o0, o1) with o1 < 0 or beyond the end meaning "to the end"
		n := int64(len(b.Data))
		o0, o1 := op.O0, op.O1
		if o1 < 0 || o1 > n {
			o1 = n
		}
		if o0 < 0 || o0 > o1 {
			// degenerate: an error, or exactly the empty slice
			if out.Err != "" {
				return ""
			}
			if len(out.Data) != 0 {
				return fmt.Sprintf("getBlobRange(%d,%d) of %d bytes returned %d bytes", op.O0, op.O1, n, len(out.Data))
			}
			return ""
		}
		m.ev("range-in-bounds")
		return wantRead(b.Data[o0:o1], d)

	case "deleteBlob":
		dg := string(u.BlobDigest(op.B))
		r := m.Repos[name]
		if r == nil {
			return wantErr(m.lookupCodes(name, "BLOB_UNKNOWN")...)
		}
		if _, ok := r.Blobs[dg]; !ok {
			return wantErr(m.lookupCodes(name, "BLOB_UNKNOWN")...)
		}
		if m.Immutable {
			prot, unc := r.Protected(dg)
			if unc {
				m.ev("protected-uncertain")
				if out.Err == "" {
					delete(r.Blobs, dg)
				}
				return ""
			}
			if prot {
				m.ev("immutable-refusal")
				return wantErr("DENIED")
			}
		}
		if s := wantOK(); s != "" {
			return s
		}
		delete(r.Blobs, dg)
		m.Events["deleted:"+name+dg]++
		m.ev("delete-ok")
		return ""

	case "mount":
		from := repoName(op.R2)
		dg := string(u.BlobDigest(op.B))
		if !validName {
			return wantErr("NAME_INVALID")
		}
		m.Touched[name] = true
		fr := m.Repos[from]
		var b Blob
		found := false
		if fr != nil {
			b, found = fr.Blobs[dg]
		}
		if !found {
			return wantErr(m.lookupCodes(from, "BLOB_UNKNOWN")...)
		}
		if s := wantOK(); s != "" {
			return s
		}
		if out.Desc.Digest != dg {
			return fmt.Sprintf("mount: descriptor digest %s, want %s", out.Desc.Digest, dg)
		}
		// size may be reported as 0 by implementations that do not know it (documented)
		if out.Desc.Size != int64(len(b.Data)) && out.Desc.Size != 0 {
			return fmt.Sprintf("mount: descriptor size %d, want %d", out.Desc.Size, len(b.Data))
		}
		m.repo(name).Blobs[dg] = b
		m.ev("mount-ok")
		m.Events["mounted:"+from+dg]++
		return ""

	case "pushManifest":
		data := u.ManBytes(op.M)
		mt := u.PushMediaType(op)
		tag := tagName(op.T)
		d := descOf(data, mt)
		if !validName {
			return wantErr("NAME_INVALID")
		}
		m.Touched[name] = true
		r := m.repo(name)
		if tag != "" && !ociref.IsValidTag(tag) {
			return wantErr()
		}
		if tag != "" && m.Immutable {
			if cur, ok := r.Tags[tag]; ok {
				if cur.Digest == d.Digest && cur.MediaType == mt {
					if s := wantOK(); s != "" {
						return s
					}
					if out.Desc != cur {
						return fmt.Sprintf("pushManifest (same content, immutable): %+v, want %+v", out.Desc, cur)
					}
					m.ev("immutable-same-content")
					return ""
				}
				m.ev("immutable-refusal")
				return wantErr("DENIED")
			}
		}
		if m.Immutable {
			// a manifest that a tag depends on cannot be stored again under another media
			// type (that would change what it is considered to refer to)
			if old, had := r.Mans[d.Digest]; had && old.MT != mt {
				if prot, _ := r.Protected(d.Digest); prot {
					m.ev("immutable-retype-refusal")
					return wantErr("DENIED")
				}
			}
		}
		if mt == "" {
			return wantErr()
		}
		refs, wellFormed := refsOf(mt, data)
		accept := wellFormed
		subject := ""
		for _, x := range refs {
			if !descSane(x.desc) {
				accept = false
				break
			}
			switch x.kind {
			case "blob":
				if _, ok := r.Blobs[x.digest]; !ok {
					accept = false
				}
			case "manifest":
				if _, ok := r.Mans[x.digest]; !ok {
					accept = false
				}
			case "subject":
				subject = x.digest
				if _, ok := r.Mans[x.digest]; !ok {
					m.ev("subject-dangling")
				}
			}
			if !accept {
				break
			}
		}
		if !accept {
			m.ev("manifest-rejected")
			return wantErr()
		}
		if s := wantOK(); s != "" {
			return s
		}
		if out.Desc != d {
			return fmt.Sprintf("pushManifest: descriptor %+v, want %+v", out.Desc, d)
		}
		if len(refs) > 0 {
			m.ev("manifest-with-refs")
		}
		if old, had := r.Mans[d.Digest]; !had && m.Events["deleted:"+name+d.Digest] > 0 {
			m.ev("repush-after-delete")
		} else if had && old.MT != mt {
			m.ev("manifest-retyped")
		}
		r.Mans[d.Digest] = Man{data, mt, subject}
		if tag != "" {
			if old, ok := r.Tags[tag]; ok && old.Digest != d.Digest {
				m.ev("tag-moved")
			}
			r.Tags[tag] = d
		}
		return ""

	case "getManifest", "resolveManifest":
		dg := string(u.ManDigest(op.M))
		r := m.Repos[name]
		var man Man
		found := false
		if r != nil {
			man, found = r.Mans[dg]
		}
		if !found {
			if m.Events["deleted:"+name+dg] > 0 {
				m.ev("read-after-delete")
			}
			return wantErr(m.lookupCodes(name, "MANIFEST_UNKNOWN")...)
		}
		d := descOf(man.Data, man.MT)
		if op.K == "resolveManifest" {
			if s := wantOK(); s != "" {
				return s
			}
			if out.Desc != d {
				return fmt.Sprintf("resolveManifest: %+v, want %+v", out.Desc, d)
			}
			return ""
		}
		return wantRead(man.Data, d)

	case "deleteManifest":
		dg := string(u.ManDigest(op.M))
		r := m.Repos[name]
		if r == nil {
			return wantErr(m.lookupCodes(name, "MANIFEST_UNKNOWN")...)
		}
		if _, ok := r.Mans[dg]; !ok {
			return wantErr(m.lookupCodes(name, "MANIFEST_UNKNOWN")...)
		}
		if m.Immutable {
			prot, unc := r.Protected(dg)
			if unc {
				m.ev("protected-uncertain")
				if out.Err == "" {
					delete(r.Mans, dg)
				}
				return ""
			}
			if prot {
				m.ev("immutable-refusal")
				return wantErr("DENIED")
			}
		}
		if s := wantOK(); s != "" {
			return s
		}
		delete(r.Mans, dg)
		m.Events["deleted:"+name+dg]++
		m.ev("delete-ok")
		return ""

	case "getTag", "resolveTag":
		tag := tagName(op.T)
		r := m.Repos[name]
		var td ops.Desc
		found := false
		if r != nil {
			td, found = r.Tags[tag]
		}
		if !found {
			return wantErr(m.lookupCodes(name, "MANIFEST_UNKNOWN")...)
		}
		man, live := r.Mans[td.Digest]
		if !live {
			// dangling tag: resolving may succeed with the old descriptor or
			// fail; reading must not produce other content.
			m.ev("dangling-tag-read")
			if out.Err != "" {
				if out.Err == "MANIFEST_UNKNOWN" {
					return ""
				}
				return fmt.Sprintf("%s on dangling tag: error %s, want MANIFEST_UNKNOWN", op.K, out.Err)
			}
			if op.K == "resolveTag" && out.Desc == td {
				return ""
			}
			return fmt.Sprintf("%s on a tag whose manifest was deleted returned %+v (%d bytes)", op.K, out.Desc, len(out.Data))
		}
		if op.K == "resolveTag" {
			if s := wantOK(); s != "" {
				return s
			}
			// the media type is the one recorded when the tag was bound, or the manifest's current one
			if out.Desc.Digest != td.Digest || out.Desc.Size != td.Size || (out.Desc.MediaType != td.MediaType && out.Desc.MediaType != man.MT) {
				return fmt.Sprintf("resolveTag: %+v, want %+v", out.Desc, td)
			}
			return ""
		}
		if s := wantOK(); s != "" {
			return s
		}
		if out.ReadErr != "" || !bytes.Equal(out.Data, man.Data) {
			return fmt.Sprintf("getTag: read %d bytes (err %q), want the %d bytes of %s", len(out.Data), out.ReadErr, len(man.Data), td.Digest)
		}
		if out.Desc.Digest != td.Digest || out.Desc.Size != td.Size || (out.Desc.MediaType != td.MediaType && out.Desc.MediaType != man.MT) {
			return fmt.Sprintf("getTag: descriptor %+v, want %+v", out.Desc, td)
		}
		return ""

	case "deleteTag":
		tag := tagName(op.T)
		r := m.Repos[name]
		if r == nil {
			return wantErr(m.lookupCodes(name, "MANIFEST_UNKNOWN")...)
		}
		if _, ok := r.Tags[tag]; !ok {
			return wantErr(m.lookupCodes(name, "MANIFEST_UNKNOWN")...)
		}
		if m.Immutable {
			m.ev("immutable-refusal")
			return wantErr("DENIED")
		}
		if s := wantOK(); s != "" {
			return s
		}
		delete(r.Tags, tag)
		m.ev("delete-ok")
		return ""

	case "repos":
		if out.ListErr != "" {
			return fmt.Sprintf("repos: listing ended with %s", out.ListErr)
		}
		var must []string
		for n, r := range m.Repos {
			if r.hasContent() && n > op.S {
				must = append(must, n)
			}
		}
		sort.Strings(must)
		prev := op.S
		first := true
		for _, n := range out.List {
			if n <= prev && !(first && op.S == "" && n == "" && false) {
				if first {
					return fmt.Sprintf("repos: item %q not strictly after start %q", n, op.S)
				}
				return fmt.Sprintf("repos: not strictly ascending at %q after %q", n, prev)
			}
			first = false
			prev = n
			if !m.Touched[n] {
				return fmt.Sprintf("repos: lists %q which was never created", n)
			}
		}
		i := 0
		for _, n := range out.List {
			if i < len(must) && must[i] == n {
				i++
			}
		}
		if i != len(must) {
			return fmt.Sprintf("repos after %q: %v misses %q which holds content", op.S, out.List, must[i])
		}
		if len(must) > 0 {
			m.ev("repos-nonempty")
		}
		return ""

	case "tags":
		r := m.Repos[name]
		if !r.hasContent() && out.ListErr == "NAME_UNKNOWN" && len(out.List) == 0 {
			return ""
		}
		if out.ListErr != "" {
			return fmt.Sprintf("tags: listing ended with %s after %d items", out.ListErr, len(out.List))
		}
		var keys []string
		if r != nil {
			for k := range r.Tags {
				keys = append(keys, k)
			}
		}
		want := sortedAfter(keys, op.S)
		if !eqStrings(out.List, want) {
			return fmt.Sprintf("tags(%q after %q): %v, want %v", name, op.S, out.List, want)
		}
		if len(want) > 0 {
			m.ev("tags-nonempty")
		}
		return ""

	case "referrers":
		dg := string(u.ManDigest(op.M))
		if op.Mode == 1 {
			dg = string(u.BlobDigest(op.B))
		}
		r := m.Repos[name]
		if !r.hasContent() && out.ListErr == "NAME_UNKNOWN" && len(out.Descs) == 0 {
			return ""
		}
		if out.ListErr != "" {
			return fmt.Sprintf("referrers: listing ended with %s", out.ListErr)
		}
		var want []ops.Desc
		if r != nil {
			for _, man := range r.Mans {
				if man.Subject == dg {
					want = append(want, descOf(man.Data, man.MT))
				}
			}
		}
		sort.Slice(want, func(i, j int) bool { return want[i].Digest < want[j].Digest })
		if len(want) != len(out.Descs) {
			return fmt.Sprintf("referrers(%s): %d items %v, want %d %v", dg, len(out.Descs), out.Descs, len(want), want)
		}
		for i := range want {
			if want[i] != out.Descs[i] {
				return fmt.Sprintf("referrers(%s)[%d]: %+v, want %+v", dg, i, out.Descs[i], want[i])
			}
		}
		if len(want) > 0 {
			m.ev("referrers-nonempty")
		}
		return ""

	case "upStart":
		if !validName {
			return wantErr("NAME_INVALID")
		}
		if s := wantOK(); s != "" {
			return s
		}
		m.Touched[name] = true
		r := m.repo(name)
		if out.ID == "" {
			return "upStart: empty upload id"
		}
		if _, dup := r.Uploads[out.ID]; dup {
			return fmt.Sprintf("upStart: upload id %q already in use", out.ID)
		}
		if out.WSize != 0 {
			return fmt.Sprintf("upStart: initial size %d", out.WSize)
		}
		r.Uploads[out.ID] = &Upload{}
		m.slots[op.W] = slot{name, out.ID, 0}
		return ""

	case "upResume", "upAttach":
		var sl slot
		if op.Mode == 3 && op.K == "upResume" {
			sl = slot{name, op.S, 0}
		} else if op.K == "upAttach" {
			// a further handle on the session of slot O1, which stays open
			src, ok := m.slots[int(op.O1)]
			if !ok {
				return "harness: attach to an empty slot was not skipped"
			}
			sl = src
			if op.Mode == 3 && name != src.repo {
				// the id is presented in another repository, where it names no session of that repository
				sl = slot{name, src.id, 0}
				m.ev("foreign-upload-id")
			}
			delete(m.slots, op.W)
		} else {
			var ok bool
			sl, ok = m.slots[op.W]
			if !ok {
				return "harness: resume of an empty slot was not skipped"
			}
		}
		if !ociref.IsValidRepository(sl.repo) {
			delete(m.slots, op.W)
			return wantErr("NAME_INVALID")
		}
		r := m.repo(sl.repo)
		m.Touched[sl.repo] = true
		up := r.Uploads[sl.id]
		if up == nil {
			// unknown session: implementations may refuse it or (ocimem, documented quirk) start it
			if out.Err != "" {
				delete(m.slots, op.W)
				if isOneOf(out.Err, "BLOB_UPLOAD_UNKNOWN", "NAME_UNKNOWN") {
					return ""
				}
				return fmt.Sprintf("upResume(unknown id): error %s", out.Err)
			}
			up = &Upload{}
			r.Uploads[sl.id] = up
			m.ev("resume-unknown-id")
		}
		if out.Err != "" {
			delete(m.slots, op.W)
			return fmt.Sprintf("upResume: failed with %s (%s)", out.Err, out.ErrMsg)
		}
		if out.ID != sl.id {
			return fmt.Sprintf("upResume: id %q, want %q", out.ID, sl.id)
		}
		sl.check = out.WSize // the offset that was passed
		if op.Mode == 1 {
			m.ev("resume-minus1")
		} else if out.WSize != int64(len(up.Buf)) {
			m.ev("resume-wrong-offset")
		} else {
			m.ev("resume-explicit")
		}
		m.slots[op.W] = sl
		return ""

	case "upWrite":
		sl, ok := m.slots[op.W]
		if !ok {
			return "harness: write to an empty slot was not skipped"
		}
		up := m.Repos[sl.repo].Uploads[sl.id]
		if sl.check != -1 && sl.check != int64(len(up.Buf)) {
			m.ev("wrong-offset-write")
			if s := wantErr("RANGE_INVALID"); s != "" {
				return s
			}
			if out.N != 0 {
				return fmt.Sprintf("upWrite refused but reported %d bytes written", out.N)
			}
			return ""
		}
		if s := wantOK(); s != "" {
			return s
		}
		if out.N != len(out.Data) {
			return fmt.Sprintf("upWrite: wrote %d of %d bytes without error", out.N, len(out.Data))
		}
		up.Buf = append(up.Buf[:len(up.Buf):len(up.Buf)], out.Data...)
		sl.check = -1
		m.slots[op.W] = sl
		return ""

	case "upSize":
		sl, ok := m.slots[op.W]
		if !ok {
			return "harness: size of an empty slot was not skipped"
		}
		up := m.Repos[sl.repo].Uploads[sl.id]
		if out.WSize != int64(len(up.Buf)) {
			return fmt.Sprintf("Size() = %d, want %d", out.WSize, len(up.Buf))
		}
		if out.ID != sl.id {
			return fmt.Sprintf("ID() = %q, want %q", out.ID, sl.id)
		}
		return ""

	case "upCommit":
		sl, ok := m.slots[op.W]
		if !ok {
			return "harness: commit of an empty slot was not skipped"
		}
		if out.Err == "" && !m.KeepCommitted {
			delete(m.slots, op.W)
		}
		r := m.Repos[sl.repo]
		up := r.Uploads[sl.id]
		dg := out.ID // the digest that was passed
		switch up.Err {
		case "canceled":
			return wantErr()
		case "DIGEST_INVALID":
			m.ev("commit-after-failed-commit")
			return wantErr("DIGEST_INVALID")
		}
		if string(digest.FromBytes(up.Buf)) != dg {
			m.ev("commit-wrong-digest")
			up.Err = "DIGEST_INVALID"
			return wantErr("DIGEST_INVALID")
		}
		if s := wantOK(); s != "" {
			return s
		}
		if out.Desc.Digest != dg || out.Desc.Size != int64(len(up.Buf)) {
			return fmt.Sprintf("upCommit: descriptor %+v, want digest %s size %d", out.Desc, dg, len(up.Buf))
		}
		r.Blobs[dg] = Blob{up.Buf, ops.MTOctet}
		up.Committed = true
		m.ev("commit-ok")
		return ""

	case "upCancel":
		sl, ok := m.slots[op.W]
		if !ok {
			return "harness: cancel of an empty slot was not skipped"
		}
		if s := wantOK(); s != "" {
			return s
		}
		if up := m.Repos[sl.repo].Uploads[sl.id]; !(up.Committed && up.Err == "") {
			up.Err = "canceled"
		}
		m.ev("upload-cancelled")
		return ""

	case "upClose":
		return wantOK()
	}
	return "harness: model has no rule for op " + op.K
}
