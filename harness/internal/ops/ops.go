// Package ops defines the serialisable operation scripts shared by the
// history-based properties (C01-C05, C08, C13-C15), the universe they refer to
// (repository names, tags, blob contents, manifest specs), and the executor
// that applies one operation to an ociregistry.Interface and captures the
// observable outcome.
package ops

import (
	"bytes"
	"context"
	"crypto/sha256"
	"encoding/json"
	"errors"
	"fmt"
	"io"
	"strings"

	"cuelabs.dev/go/oci/ociregistry"
	"github.com/opencontainers/go-digest"
	ocispec "github.com/opencontainers/image-spec/specs-go/v1"

	"verif/harness/internal/gen"
)

// ManSpec describes a manifest symbolically; its bytes are a pure function of
// the universe. References point at blob / manifest indexes of the universe
// (manifest references only at lower indexes, so the universe is a DAG).
type ManSpec struct {
	Kind      string `json:"kind"` // image | index | opaque | badjson | wrongshape | trailing
	MediaType string `json:"mt"`   // media type it is pushed with ("" = the kind's default)
	Config    int    `json:"config"`
	Layers    []int  `json:"layers,omitempty"`
	Children  []int  `json:"children,omitempty"`
	// Subject: 0 none; 1 manifest SubjectRef; 2 blob SubjectRef; 3 dangling (digest of nothing pushed)
	SubjectKind int `json:"subject_kind,omitempty"`
	SubjectRef  int `json:"subject_ref,omitempty"`
	Salt        int `json:"salt"`
	// Pad adds an annotation of this many bytes (to straddle size thresholds).
	Pad int `json:"pad,omitempty"`
	// BadDesc, when > 0, makes the descriptor of the first reference untruthful:
	// 1 = empty media type, 2 = malformed digest, 3 = size 0 with non-empty digest,
	// 4 = (index only) the first child is described as an OCI image manifest whatever it really is;
	// 5, 6, 7 = like 1, 2, 3 for the subject's descriptor.
	BadDesc int `json:"bad_desc,omitempty"`
}

// Universe is the finite world a script talks about.
type Universe struct {
	Repos     []string      `json:"repos"`
	Tags      []string      `json:"tags"`
	Blobs     []gen.Content `json:"blobs"`
	Manifests []ManSpec     `json:"manifests"`

	blobBytes [][]byte
	manBytes  [][]byte
}

const (
	MTImage  = ocispec.MediaTypeImageManifest
	MTIndex  = ocispec.MediaTypeImageIndex
	MTOpaque = "application/vnd.verif.opaque+json"
	MTOctet  = "application/octet-stream"
)

// Copy returns a copy of the universe with empty (lazily filled) caches, for
// use by another goroutine.
func (u *Universe) Copy() *Universe {
	c := *u
	c.blobBytes, c.manBytes = nil, nil
	return &c
}

// BlobBytes returns the bytes of blob i.
func (u *Universe) BlobBytes(i int) []byte {
	if u.blobBytes == nil {
		u.blobBytes = make([][]byte, len(u.Blobs))
	}
	if u.blobBytes[i] == nil {
		u.blobBytes[i] = u.Blobs[i].Bytes()
		if u.blobBytes[i] == nil {
			u.blobBytes[i] = []byte{}
		}
	}
	return u.blobBytes[i]
}

// BlobDigest returns the sha256 digest of blob i.
func (u *Universe) BlobDigest(i int) digest.Digest { return digest.FromBytes(u.BlobBytes(i)) }

func (u *Universe) blobDesc(i int) ocispec.Descriptor {
	return ocispec.Descriptor{MediaType: MTOctet, Digest: u.BlobDigest(i), Size: int64(len(u.BlobBytes(i)))}
}

// ManMediaType returns the media type manifest i is pushed with.
func (u *Universe) ManMediaType(i int) string {
	m := u.Manifests[i]
	if m.MediaType != "" {
		return m.MediaType
	}
	switch m.Kind {
	case "image":
		return MTImage
	case "index":
		return MTIndex
	case "badjson", "wrongshape":
		if m.Salt%2 == 0 {
			return MTImage
		}
		return MTIndex
	case "trailing":
		return MTIndex
	}
	return MTOpaque
}

// MTBlobAlt is a second blob media type (in-process registries keep what PushBlob was given).
const MTBlobAlt = "application/vnd.verif.layer"

// MTOther is the alternate opaque media type used to re-type opaque manifests.
const MTOther = "application/vnd.verif.other+json"

// PushMediaType returns the media type a pushManifest op pushes with: the
// spec's own, or (Mode 1, opaque manifests only) the other opaque type.
func (u *Universe) PushMediaType(op Op) string {
	mt := u.ManMediaType(op.M)
	if op.Mode == 1 && u.Manifests[op.M].Kind == "opaque" {
		if mt == MTOther {
			return MTOpaque
		}
		return MTOther
	}
	if op.Mode == 3 && mt != "" {
		// the manifest's own media type in another letter case: media types are compared as
		// spelled, so this is another type as far as the registry's walk is concerned
		return strings.ToUpper(mt[:1]) + mt[1:]
	}
	if op.Mode == 2 && u.Manifests[op.M].Kind == "image" {
		return MTIndex // the bytes of an image manifest pushed as an index (they parse as an index without members)
	}
	if op.Mode == 2 && u.Manifests[op.M].Kind == "index" {
		return MTImage
	}
	if op.Mode == 1 && (u.Manifests[op.M].Kind == "image" || u.Manifests[op.M].Kind == "index") {
		// the bytes of a structured manifest pushed as an opaque document
		return MTOpaque
	}
	return mt
}

// ManDigest returns the digest of manifest i.
func (u *Universe) ManDigest(i int) digest.Digest { return digest.FromBytes(u.ManBytes(i)) }

func (u *Universe) manDesc(i int) ocispec.Descriptor {
	return ocispec.Descriptor{MediaType: u.ManMediaType(i), Digest: u.ManDigest(i), Size: int64(len(u.ManBytes(i)))}
}

// DanglingDigest is a well-formed digest of content that no script pushes.
func DanglingDigest(salt int) digest.Digest {
	return digest.FromBytes([]byte(fmt.Sprintf("never pushed %d", salt)))
}

func spoil(d *ocispec.Descriptor, how int) {
	switch how {
	case 1:
		d.MediaType = ""
	case 2:
		d.Digest = "sha256:zz"
	case 3:
		if d.Size == 0 {
			d.Digest = DanglingDigest(99)
		}
		d.Size = 0
	}
}

// ManBytes returns the bytes of manifest i.
func (u *Universe) ManBytes(i int) []byte {
	if u.manBytes == nil {
		u.manBytes = make([][]byte, len(u.Manifests))
	}
	if u.manBytes[i] != nil {
		return u.manBytes[i]
	}
	m := u.Manifests[i]
	var subject *ocispec.Descriptor
	switch m.SubjectKind {
	case 1:
		if m.SubjectRef < i {
			d := u.manDesc(m.SubjectRef)
			subject = &d
		}
	case 2:
		d := u.blobDesc(m.SubjectRef)
		subject = &d
	case 3:
		subject = &ocispec.Descriptor{MediaType: MTImage, Digest: DanglingDigest(m.Salt), Size: 7}
	}
	if m.BadDesc >= 5 && subject != nil {
		// 5, 6, 7: the subject's descriptor is the malformed one (empty media type, malformed digest, size
		// 0 with the digest of something) - a subject may dangle, it may not be ill-formed
		spoil(subject, m.BadDesc-4)
	}
	ann := map[string]string{"salt": fmt.Sprint(m.Salt)}
	if m.Pad > 0 {
		ann["pad"] = string(bytes.Repeat([]byte("p"), m.Pad))
	}
	var data []byte
	switch m.Kind {
	case "image":
		im := ocispec.Manifest{MediaType: MTImage, Annotations: ann, Subject: subject}
		im.SchemaVersion = 2
		if m.Config >= 0 {
			im.Config = u.blobDesc(m.Config)
			im.Config.MediaType = ocispec.MediaTypeImageConfig
		}
		for _, l := range m.Layers {
			d := u.blobDesc(l)
			d.MediaType = ocispec.MediaTypeImageLayer
			if m.Salt%3 == 0 {
				// a layer that can also be fetched elsewhere is a layer of the manifest like any other
				d.URLs = []string{"https://mirror.test/layers/" + string(d.Digest)}
				d.Annotations = map[string]string{"org.example.note": "also available elsewhere"}
			}
			im.Layers = append(im.Layers, d)
		}
		if m.BadDesc > 0 && m.BadDesc < 5 {
			if len(im.Layers) > 0 {
				spoil(&im.Layers[0], m.BadDesc)
			} else {
				spoil(&im.Config, m.BadDesc)
			}
		}
		data, _ = json.Marshal(im)
	case "index":
		ix := ocispec.Index{MediaType: MTIndex, Annotations: ann, Subject: subject}
		ix.SchemaVersion = 2
		ix.Manifests = []ocispec.Descriptor{}
		for _, c := range m.Children {
			if c < i {
				ix.Manifests = append(ix.Manifests, u.manDesc(c))
			}
		}
		if m.BadDesc == 4 && len(ix.Manifests) > 0 {
			ix.Manifests[0].MediaType = MTImage
		} else if m.BadDesc > 0 && m.BadDesc < 5 && len(ix.Manifests) > 0 {
			spoil(&ix.Manifests[0], m.BadDesc)
		}
		data, _ = json.Marshal(ix)
	case "opaquebin":
		data = []byte(fmt.Sprintf("\x00\xffnot json at all, salt %d", m.Salt))
	case "badjson":
		data = []byte(fmt.Sprintf(`{"schemaVersion":2,"salt":%d,`, m.Salt))
	case "trailing":
		// a complete, acceptable index document followed by something else: not a JSON document
		doc := fmt.Sprintf(`{"schemaVersion":2,"mediaType":%q,"manifests":[],"annotations":{"salt":"%d"}}`, MTIndex, m.Salt)
		data = []byte(doc + []string{" junk", "}", doc, "\n[]"}[m.Salt%4])
	case "wrongshape":
		// valid JSON whose fields have the wrong types for both spec structs
		data = []byte(fmt.Sprintf(`{"schemaVersion":2,"salt":%d,"layers":"x","manifests":{"a":1},"config":[1]}`, m.Salt))
	default:
		data = []byte(fmt.Sprintf(`{"opaque":true,"salt":%d,"pad":"%s"}`, m.Salt, bytes.Repeat([]byte("p"), m.Pad)))
	}
	u.manBytes[i] = data
	return data
}

// Op is one operation of a script; which fields matter depends on K.
type Op struct {
	K    string `json:"k"`
	R    int    `json:"r,omitempty"`  // repository index
	R2   int    `json:"r2,omitempty"` // second repository (mount source)
	B    int    `json:"b,omitempty"`  // blob index
	M    int    `json:"m,omitempty"`  // manifest index
	T    int    `json:"t,omitempty"`  // tag index (-1: none)
	W    int    `json:"w,omitempty"`  // writer slot
	O0   int64  `json:"o0,omitempty"`
	O1   int64  `json:"o1,omitempty"`
	Mode int    `json:"mode,omitempty"`
	N    int    `json:"n,omitempty"`
	S    string `json:"s,omitempty"`
}

// Desc is the comparable part of a descriptor.
type Desc struct {
	Digest    string `json:"digest"`
	Size      int64  `json:"size"`
	MediaType string `json:"mt"`
	// Extra: what a descriptor read back from the registry carries beyond the three fields above
	// (a registry describes what it stores; whatever else the pusher's descriptor held is the pusher's)
	Extra string `json:"extra,omitempty"`
}

func liteDesc(d ociregistry.Descriptor) Desc {
	return Desc{string(d.Digest), d.Size, d.MediaType, ""}
}

// readDesc is liteDesc for descriptors read back from a registry.
func readDesc(d ociregistry.Descriptor) Desc {
	x := liteDesc(d)
	if len(d.URLs) > 0 || len(d.Annotations) > 0 || len(d.Data) > 0 || d.Platform != nil || d.ArtifactType != "" {
		x.Extra = fmt.Sprintf("urls=%v annotations=%v data=%dB platform=%v artifactType=%q", d.URLs, d.Annotations, len(d.Data), d.Platform != nil, d.ArtifactType)
	}
	return x
}

// Out is the observable outcome of one operation.
type Out struct {
	Err     string   `json:"err,omitempty"` // "" ok; OCI code; "UNCODED"
	ErrMsg  string   `json:"errmsg,omitempty"`
	Desc    Desc     `json:"desc,omitempty"`
	HasData bool     `json:"has_data,omitempty"`
	Data    []byte   `json:"-"`
	DataSHA string   `json:"data_sha,omitempty"`
	DataLen int      `json:"data_len,omitempty"`
	ReadErr string   `json:"read_err,omitempty"`
	List    []string `json:"list,omitempty"`
	Descs   []Desc   `json:"descs,omitempty"`
	ListErr string   `json:"list_err,omitempty"` // code of the error that ended a listing
	ID      string   `json:"id,omitempty"`
	WSize   int64    `json:"wsize,omitempty"`
	N       int      `json:"n,omitempty"`
	Skipped bool     `json:"skipped,omitempty"` // op not applicable (e.g. writer slot empty)
	Err0    error    `json:"-"`
	// Held: what went wrong with a listing sequence kept from the operation before (Env.HoldListings)
	Held string `json:"held,omitempty"`
	// Overlap: what went wrong with a second reader opened beside this operation's (Env.OverlapReads)
	Overlap string `json:"overlap,omitempty"`
}

// Code maps an error to the string used in Out.Err.
func Code(err error) string {
	if err == nil {
		return ""
	}
	var e ociregistry.Error
	if errors.As(err, &e) && e.Code() != "" {
		return e.Code()
	}
	return "UNCODED"
}

func (o *Out) setErr(err error) {
	o.Err = Code(err)
	o.Err0 = err
	if err != nil {
		o.ErrMsg = err.Error()
		if len(o.ErrMsg) > 200 {
			o.ErrMsg = o.ErrMsg[:200]
		}
	}
}

func (o *Out) read(r ociregistry.BlobReader, err error) {
	o.setErr(err)
	if err != nil {
		return
	}
	o.Desc = liteDesc(r.Descriptor())
	data, rerr := io.ReadAll(r)
	r.Close()
	r.Close() // (an explicit Close followed by a deferred one is an ordinary way to write it)
	o.HasData = true
	o.Data = data
	o.DataLen = len(data)
	o.DataSHA = fmt.Sprintf("%x", sha256.Sum256(data))
	if rerr != nil {
		o.ReadErr = Code(rerr)
	}
}

// read opens a reader and reads it into o. With OverlapReads, the content read last by digest is opened
// once more after this reader and before this reader is read, is read to its end and closed - twice, as
// an explicit Close followed by a deferred one does: readers are independent of each other, so it yields
// what it did (if it is still there) and this reader yields what it was opened for.
func (e *Env) read(o *Out, open func() (ociregistry.BlobReader, error), byDigest bool) {
	if !e.OverlapReads {
		o.read(open())
		return
	}
	r, err := open()
	if err == nil && e.lastOpen != nil {
		if r2, err2 := e.lastOpen(); err2 == nil {
			data, rerr := io.ReadAll(r2)
			r2.Close()
			r2.Close()
			if rerr == nil && !bytes.Equal(data, e.lastData) {
				o.Overlap = fmt.Sprintf("content read earlier by digest (%d bytes, sha256 %x) and read again while another reader was open yielded %d bytes, sha256 %x", len(e.lastData), sha256.Sum256(e.lastData), len(data), sha256.Sum256(data))
			}
		}
	}
	o.read(r, err)
	if err == nil {
		r.Close() // a second Close is harmless
		if byDigest && o.ReadErr == "" {
			e.lastOpen, e.lastData = open, o.Data
		}
	}
}

// Writer is a live upload handle held in a slot.
type Writer struct {
	W    ociregistry.BlobWriter
	Repo int
	ID   string
	Sum  []byte // bytes successfully written through handles of this slot lineage (harness-side bookkeeping)
}

// Env is the execution environment of one script on one registry.
type Env struct {
	U       *Universe
	Reg     ociregistry.Interface
	Ctx     context.Context
	Writers map[int]*Writer
	// KeepCommitted keeps a writer in its slot after a successful commit (in-process
	// registries let a committed session be written to and committed again).
	KeepCommitted bool
	// MaxList bounds how many items a listing consumer accepts before it
	// declines (a hung or looping iterator must not hang the check).
	MaxList int
	// HoldListings: see Exec.
	HoldListings bool
	held         *held
	// OverlapReads: see read.
	OverlapReads bool
	lastOpen     func() (ociregistry.BlobReader, error)
	lastData     []byte
}

// NewEnv returns a fresh environment.
func NewEnv(u *Universe, reg ociregistry.Interface) *Env {
	return &Env{U: u, Reg: reg, Ctx: context.Background(), Writers: map[int]*Writer{}, MaxList: 10000}
}

func (e *Env) repo(i int) string {
	if i < 0 || i >= len(e.U.Repos) {
		return "out-of-range"
	}
	return e.U.Repos[i]
}

func (e *Env) tag(i int) string {
	if i < 0 || i >= len(e.U.Tags) {
		return ""
	}
	return e.U.Tags[i]
}

func collect[T any](it ociregistry.Seq[T], max int, conv func(T) any, o *Out) []any {
	var items []any
	calls, afterEnd := 0, false
	it(func(x T, err error) bool {
		calls++
		if afterEnd {
			o.ListErr = "PROTOCOL: consumer called again after it declined or after an error"
			return false
		}
		if err != nil {
			o.ListErr = Code(err)
			o.Err0 = err
			afterEnd = true
			return false
		}
		items = append(items, conv(x))
		if len(items) > max {
			o.ListErr = "PROTOCOL: more items than the bound"
			afterEnd = true
			return false
		}
		return true
	})
	return items
}

// held is a listing sequence obtained after one operation and run again after the next.
type held struct {
	what  string
	first string
	run   func() string
	fresh func() string
}

func runListing[T any](seq ociregistry.Seq[T]) string {
	var items []string
	n := 0
	seq(func(x T, err error) bool {
		if err != nil {
			items = append(items, "error:"+Code(err))
			return false
		}
		items = append(items, fmt.Sprint(x))
		n++
		return n < 10000
	})
	return fmt.Sprintf("%q", items)
}

// Exec applies op and captures the outcome. With HoldListings, a listing sequence obtained right after a
// listing operation is run at once and once more after the following operation: what it yields then is
// what it yielded before or what a listing asked for now yields (whether a sequence is a snapshot is the
// registry's choice; anything else - an item lost, one twice, an order broken - is not a listing of any
// state the registry was in).
func (e *Env) Exec(op Op) (o Out) {
	o = e.exec1(op)
	if !e.HoldListings {
		return o
	}
	if h := e.held; h != nil {
		e.held = nil
		if again, now := h.run(), h.fresh(); again != h.first && again != now {
			o.Held = fmt.Sprintf("the sequence returned by %s yielded %s when run at once and %s when run again after %+v, when a new listing yields %s", h.what, h.first, again, op, now)
		}
	}
	reg, ctx := e.Reg, e.Ctx
	switch op.K {
	case "repos":
		seq := reg.Repositories(ctx, op.S)
		e.held = &held{fmt.Sprintf("Repositories(%q)", op.S), runListing(seq), func() string { return runListing(seq) }, func() string { return runListing(reg.Repositories(ctx, op.S)) }}
	case "tags":
		repo := e.repo(op.R)
		seq := reg.Tags(ctx, repo, op.S)
		e.held = &held{fmt.Sprintf("Tags(%q, %q)", repo, op.S), runListing(seq), func() string { return runListing(seq) }, func() string { return runListing(reg.Tags(ctx, repo, op.S)) }}
	}
	return o
}

func (e *Env) exec1(op Op) (o Out) {
	u, reg, ctx := e.U, e.Reg, e.Ctx
	switch op.K {
	case "pushBlob":
		data := u.BlobBytes(op.B)
		d := ociregistry.Descriptor{MediaType: MTOctet, Digest: u.BlobDigest(op.B), Size: int64(len(data))}
		switch op.Mode {
		case 1:
			d.Digest = digest.FromBytes(append([]byte("other:"), data...))
		case 2:
			d.Size++
		case 3:
			d.Size--
		case 4:
			d.MediaType = ""
		case 5:
			d.MediaType = MTBlobAlt // truthful push under another blob media type
		}
		// the pusher's descriptor carries notes of its own
		d.Annotations = map[string]string{"verif.pusher": "not the registry's business"}
		d.URLs = []string{"https://elsewhere.test/fetch/it/there"}
		got, err := reg.PushBlob(ctx, e.repo(op.R), d, bytes.NewReader(data))
		o.setErr(err)
		o.Desc = liteDesc(got)
	case "getBlob":
		repo, dg := e.repo(op.R), u.BlobDigest(op.B)
		e.read(&o, func() (ociregistry.BlobReader, error) { return reg.GetBlob(ctx, repo, dg) }, true)
	case "getBlobRange":
		o.read(reg.GetBlobRange(ctx, e.repo(op.R), u.BlobDigest(op.B), op.O0, op.O1))
	case "resolveBlob":
		d, err := reg.ResolveBlob(ctx, e.repo(op.R), u.BlobDigest(op.B))
		o.setErr(err)
		o.Desc = readDesc(d)
	case "deleteBlob":
		o.setErr(reg.DeleteBlob(ctx, e.repo(op.R), u.BlobDigest(op.B)))
	case "mount":
		d, err := reg.MountBlob(ctx, e.repo(op.R2), e.repo(op.R), u.BlobDigest(op.B))
		o.setErr(err)
		o.Desc = liteDesc(d)
	case "pushManifest":
		// the caller's buffer is reused (scribbled over) as soon as the call returns:
		// a registry must not keep referring to it
		buf := append([]byte(nil), u.ManBytes(op.M)...)
		d, err := reg.PushManifest(ctx, e.repo(op.R), e.tag(op.T), buf, u.PushMediaType(op))
		scribble(buf)
		o.setErr(err)
		o.Desc = liteDesc(d)
	case "getManifest":
		repo, dg := e.repo(op.R), u.ManDigest(op.M)
		e.read(&o, func() (ociregistry.BlobReader, error) { return reg.GetManifest(ctx, repo, dg) }, true)
	case "resolveManifest":
		d, err := reg.ResolveManifest(ctx, e.repo(op.R), u.ManDigest(op.M))
		o.setErr(err)
		o.Desc = liteDesc(d)
	case "deleteManifest":
		o.setErr(reg.DeleteManifest(ctx, e.repo(op.R), u.ManDigest(op.M)))
	case "getTag":
		repo, tag := e.repo(op.R), e.tag(op.T)
		e.read(&o, func() (ociregistry.BlobReader, error) { return reg.GetTag(ctx, repo, tag) }, false)
	case "resolveTag":
		d, err := reg.ResolveTag(ctx, e.repo(op.R), e.tag(op.T))
		o.setErr(err)
		o.Desc = liteDesc(d)
	case "deleteTag":
		o.setErr(reg.DeleteTag(ctx, e.repo(op.R), e.tag(op.T)))
	case "repos":
		for _, x := range collect(reg.Repositories(ctx, op.S), e.MaxList, func(s string) any { return s }, &o) {
			o.List = append(o.List, x.(string))
		}
	case "tags":
		for _, x := range collect(reg.Tags(ctx, e.repo(op.R), op.S), e.MaxList, func(s string) any { return s }, &o) {
			o.List = append(o.List, x.(string))
		}
	case "referrers":
		dg := u.ManDigest(op.M)
		if op.Mode == 1 {
			dg = u.BlobDigest(op.B)
		}
		for _, x := range collect(reg.Referrers(ctx, e.repo(op.R), dg, ""), e.MaxList, func(d ociregistry.Descriptor) any { return liteDesc(d) }, &o) {
			o.Descs = append(o.Descs, x.(Desc))
		}
	case "upStart":
		w, err := reg.PushBlobChunked(ctx, e.repo(op.R), op.N)
		o.setErr(err)
		if err == nil {
			e.closeSlot(op.W)
			e.Writers[op.W] = &Writer{W: w, Repo: op.R, ID: w.ID()}
			o.ID, o.WSize, o.N = w.ID(), w.Size(), w.ChunkSize()
		}
	case "upResume":
		// Mode: 0 resume at the size the old handle reports; 1 offset -1;
		// 2 offset size+N (wrong, N != 0); 3 unknown id S at offset 0
		old := e.Writers[op.W]
		var id string
		var off int64
		repo := op.R
		switch {
		case op.Mode == 3:
			id = op.S
		case old == nil:
			o.Skipped = true
			return
		default:
			id, repo = old.ID, old.Repo
			switch op.Mode {
			case 0:
				off = old.W.Size()
			case 1:
				off = -1
			case 2:
				off = old.W.Size() + int64(op.N)
			}
			old.W.Close()
		}
		w, err := reg.PushBlobChunkedResume(ctx, e.repo(repo), id, off, 0)
		o.setErr(err)
		o.WSize = off
		if err == nil {
			nw := &Writer{W: w, Repo: repo, ID: w.ID()}
			if old != nil && op.Mode != 3 {
				nw.Sum = old.Sum
			}
			e.Writers[op.W] = nw
			o.ID, o.N = w.ID(), w.ChunkSize()
		} else if old != nil {
			delete(e.Writers, op.W)
		}
	case "upAttach":
		// a further handle (slot W) on the session of slot O1, which stays open.
		// Mode: 0 at the size the other handle reports; 1 offset -1; 2 offset size+N (wrong, N != 0);
		// 3 offset -1, the session's id presented in repository R (where it names no session unless R is the session's own)
		src := e.Writers[int(op.O1)]
		if src == nil || int(op.O1) == op.W {
			o.Skipped = true
			return
		}
		if op.Mode == 3 && op.R != src.Repo {
			e.closeSlot(op.W)
			delete(e.Writers, op.W)
			w, err := reg.PushBlobChunkedResume(ctx, e.repo(op.R), src.ID, -1, 0)
			o.setErr(err)
			o.WSize = -1
			if err == nil {
				e.Writers[op.W] = &Writer{W: w, Repo: op.R, ID: w.ID()}
				o.ID, o.N = w.ID(), w.ChunkSize()
			}
			return
		}
		var off int64
		switch op.Mode {
		case 3:
			off = -1
		case 0:
			off = src.W.Size()
		case 1:
			off = -1
		case 2:
			off = src.W.Size() + int64(op.N)
		}
		e.closeSlot(op.W)
		delete(e.Writers, op.W)
		w, err := reg.PushBlobChunkedResume(ctx, e.repo(src.Repo), src.ID, off, 0)
		o.setErr(err)
		o.WSize = off
		if err == nil {
			e.Writers[op.W] = &Writer{W: w, Repo: src.Repo, ID: w.ID(), Sum: append([]byte(nil), src.Sum...)}
			o.ID, o.N = w.ID(), w.ChunkSize()
		}
	case "upWrite":
		w := e.Writers[op.W]
		if w == nil {
			o.Skipped = true
			return
		}
		data := u.BlobBytes(op.B)
		if op.N > 0 && op.N < len(data) {
			data = data[:op.N]
		}
		buf := append([]byte(nil), data...)
		n, err := w.W.Write(buf)
		scribble(buf) // io.Writer: Write must not retain p
		o.setErr(err)
		o.N = n
		if n > 0 && n <= len(data) {
			w.Sum = append(w.Sum[:len(w.Sum):len(w.Sum)], data[:n]...)
		}
		o.Data = data
		o.DataLen = len(data)
	case "upSize":
		w := e.Writers[op.W]
		if w == nil {
			o.Skipped = true
			return
		}
		o.WSize, o.ID, o.N = w.W.Size(), w.W.ID(), w.W.ChunkSize()
	case "upCommit":
		// Mode 0: digest of dgst supplied by the caller in S (filled in by the harness); 1: wrong digest
		w := e.Writers[op.W]
		if w == nil {
			o.Skipped = true
			return
		}
		dg := digest.Digest(op.S)
		if op.S == "" {
			dg = digest.FromBytes(w.Sum)
			if op.Mode == 1 {
				dg = digest.FromBytes(append([]byte("wrong:"), w.Sum...))
			}
		}
		o.ID = string(dg)
		d, err := w.W.Commit(dg)
		o.setErr(err)
		o.Desc = liteDesc(d)
		if err == nil && !e.KeepCommitted {
			delete(e.Writers, op.W)
		}
	case "upCancel":
		w := e.Writers[op.W]
		if w == nil {
			o.Skipped = true
			return
		}
		o.setErr(w.W.Cancel())
		// the slot is kept: a cancelled session can still be written to and resumed by id
		// (its commit must fail)
	case "upClose":
		w := e.Writers[op.W]
		if w == nil {
			o.Skipped = true
			return
		}
		o.setErr(w.W.Close())
	default:
		panic("harness: unknown op kind " + op.K)
	}
	return o
}

func scribble(b []byte) {
	for i := range b {
		b[i] ^= 0xA5
	}
}

func (e *Env) closeSlot(i int) {
	if w := e.Writers[i]; w != nil {
		w.W.Close()
		delete(e.Writers, i)
	}
}

// CloseAll releases every live writer.
func (e *Env) CloseAll() {
	for i := range e.Writers {
		e.closeSlot(i)
	}
}
