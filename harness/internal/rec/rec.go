// Package rec provides recording backends built on ociregistry.Funcs: every
// call is logged with its arguments, and every reader / writer handed out is
// tracked so that tests can ask whether it was closed.
package rec

import (
	"bytes"
	"context"
	"crypto/sha256"
	"fmt"
	"io"
	"sync"

	"cuelabs.dev/go/oci/ociregistry"
	"cuelabs.dev/go/oci/ociregistry/ocimem"
	"github.com/opencontainers/go-digest"
)

// Call is one backend invocation as seen by the recorder.
type Call struct {
	Method       string `json:"method"`
	Repo         string `json:"repo,omitempty"`
	FromRepo     string `json:"from_repo,omitempty"`
	Tag          string `json:"tag,omitempty"`
	Digest       string `json:"digest,omitempty"`
	ID           string `json:"id,omitempty"`
	Offset0      int64  `json:"o0,omitempty"`
	Offset1      int64  `json:"o1,omitempty"`
	ChunkSize    int    `json:"chunk,omitempty"`
	MediaType    string `json:"media_type,omitempty"`
	ArtifactType string `json:"artifact_type,omitempty"`
	StartAfter   string `json:"start_after,omitempty"`
	DataLen      int    `json:"data_len,omitempty"`
	DataSHA      string `json:"data_sha,omitempty"`
	DescDigest   string `json:"desc_digest,omitempty"`
	DescSize     int64  `json:"desc_size,omitempty"`
	DescMedia    string `json:"desc_media,omitempty"`
	Data         []byte `json:"-"`
	// Have is, for PushBlobChunkedResume on a canned backend, the number of bytes the
	// session held when the call arrived (-1 if unknown).
	Have int64 `json:"have,omitempty"`

	Ctx context.Context `json:"-"`
}

func (c Call) String() string {
	return fmt.Sprintf("%s(repo=%q from=%q tag=%q digest=%q id=%q o=%d,%d chunk=%d mt=%q at=%q start=%q datalen=%d desc=%s/%d/%q)",
		c.Method, c.Repo, c.FromRepo, c.Tag, c.Digest, c.ID, c.Offset0, c.Offset1, c.ChunkSize, c.MediaType, c.ArtifactType, c.StartAfter, c.DataLen, c.DescDigest, c.DescSize, c.DescMedia)
}

// Canned holds the results a Recorder without an inner registry returns.
type Canned struct {
	Err     error  // if non-nil every method fails with it
	Data    []byte // body of every Get*
	Desc    ociregistry.Descriptor
	Strings []string
	Descs   []ociregistry.Descriptor
	// ListErr, if non-nil, is delivered as the last element of every listing.
	ListErr error
}

// Recorder logs calls and delegates to Inner (or answers from Canned).
type Recorder struct {
	Inner  ociregistry.Interface
	Canned Canned

	mu      sync.Mutex
	calls   []Call
	readers []*TrackedReader
	writers []*TrackedWriter
	funcs   *ociregistry.Funcs
	uploads map[string]*cannedUpload
	commits []Commit
	nextID  int
}

// Commit records a Commit call on a canned upload.
type Commit struct {
	Repo   string
	ID     string
	Digest string
	Data   []byte
}

type cannedUpload struct {
	repo string
	buf  bytes.Buffer
}

// Commits returns the commits seen by canned writers.
func (r *Recorder) Commits() []Commit {
	r.mu.Lock()
	defer r.mu.Unlock()
	return append([]Commit(nil), r.commits...)
}

// UploadBytes returns the bytes accumulated in every canned upload session.
func (r *Recorder) UploadBytes() map[string][]byte {
	r.mu.Lock()
	defer r.mu.Unlock()
	out := map[string][]byte{}
	for id, u := range r.uploads {
		out[id] = append([]byte(nil), u.buf.Bytes()...)
	}
	return out
}

// New returns a recorder in front of inner (which may be nil).
func New(inner ociregistry.Interface) *Recorder {
	r := &Recorder{Inner: inner}
	r.funcs = r.build()
	return r
}

// Registry returns the recording registry.
func (r *Recorder) Registry() ociregistry.Interface { return r.funcs }

// Calls returns a snapshot of the log.
func (r *Recorder) Calls() []Call {
	r.mu.Lock()
	defer r.mu.Unlock()
	return append([]Call(nil), r.calls...)
}

// Reset clears the log and the tracking tables.
func (r *Recorder) Reset() {
	r.mu.Lock()
	defer r.mu.Unlock()
	r.calls, r.readers, r.writers = nil, nil, nil
	r.uploads, r.commits = nil, nil
}

// Readers returns every reader handed out so far.
func (r *Recorder) Readers() []*TrackedReader {
	r.mu.Lock()
	defer r.mu.Unlock()
	return append([]*TrackedReader(nil), r.readers...)
}

// Writers returns every writer handed out so far.
func (r *Recorder) Writers() []*TrackedWriter {
	r.mu.Lock()
	defer r.mu.Unlock()
	return append([]*TrackedWriter(nil), r.writers...)
}

func (r *Recorder) log(c Call) {
	r.mu.Lock()
	r.calls = append(r.calls, c)
	r.mu.Unlock()
}

// TrackedReader wraps a BlobReader and counts Close calls.
type TrackedReader struct {
	ociregistry.BlobReader
	Method string
	mu     sync.Mutex
	closed int
	reads  int
}

func (t *TrackedReader) Read(p []byte) (int, error) {
	t.mu.Lock()
	t.reads++
	t.mu.Unlock()
	return t.BlobReader.Read(p)
}

func (t *TrackedReader) Close() error {
	t.mu.Lock()
	t.closed++
	t.mu.Unlock()
	return t.BlobReader.Close()
}

// Closed returns how many times Close was called.
func (t *TrackedReader) Closed() int {
	t.mu.Lock()
	defer t.mu.Unlock()
	return t.closed
}

// TrackedWriter wraps a BlobWriter and records its use.
type TrackedWriter struct {
	ociregistry.BlobWriter
	Method string
	mu     sync.Mutex
	closed int
	done   int // Commit or Cancel
	Ops    []string
}

func (t *TrackedWriter) op(s string) {
	t.mu.Lock()
	t.Ops = append(t.Ops, s)
	t.mu.Unlock()
}
func (t *TrackedWriter) Write(p []byte) (int, error) {
	n, err := t.BlobWriter.Write(p)
	t.op(fmt.Sprintf("write(%d)=%d,%v", len(p), n, err != nil))
	return n, err
}
func (t *TrackedWriter) Close() error {
	t.mu.Lock()
	t.closed++
	t.mu.Unlock()
	t.op("close")
	return t.BlobWriter.Close()
}
func (t *TrackedWriter) Commit(d ociregistry.Digest) (ociregistry.Descriptor, error) {
	t.op("commit")
	desc, err := t.BlobWriter.Commit(d)
	if err == nil {
		// (a Commit that fails ends nothing: the writer still has to be closed or cancelled)
		t.mu.Lock()
		t.done++
		t.mu.Unlock()
	}
	return desc, err
}
func (t *TrackedWriter) Cancel() error {
	t.mu.Lock()
	t.done++
	t.mu.Unlock()
	t.op("cancel")
	return t.BlobWriter.Cancel()
}

// Released reports whether the writer was closed, committed or cancelled.
func (t *TrackedWriter) Released() bool {
	t.mu.Lock()
	defer t.mu.Unlock()
	return t.closed+t.done > 0
}

func (r *Recorder) trackR(method string) func(br ociregistry.BlobReader, err error) (ociregistry.BlobReader, error) {
	return func(br ociregistry.BlobReader, err error) (ociregistry.BlobReader, error) {
		if err != nil || br == nil {
			return br, err
		}
		t := &TrackedReader{BlobReader: br, Method: method}
		r.mu.Lock()
		r.readers = append(r.readers, t)
		r.mu.Unlock()
		return t, nil
	}
}

func (r *Recorder) trackW(method string) func(bw ociregistry.BlobWriter, err error) (ociregistry.BlobWriter, error) {
	return func(bw ociregistry.BlobWriter, err error) (ociregistry.BlobWriter, error) {
		if err != nil || bw == nil {
			return bw, err
		}
		t := &TrackedWriter{BlobWriter: bw, Method: method}
		r.mu.Lock()
		r.writers = append(r.writers, t)
		r.mu.Unlock()
		return t, nil
	}
}

func sha(b []byte) string { return fmt.Sprintf("%x", sha256.Sum256(b)) }

func cannedSeq[T any](items []T, err, lerr error) ociregistry.Seq[T] {
	if err != nil {
		return ociregistry.ErrorSeq[T](err)
	}
	return func(yield func(T, error) bool) {
		for _, x := range items {
			if !yield(x, nil) {
				return
			}
		}
		if lerr != nil {
			yield(*new(T), lerr)
		}
	}
}

// cannedWriter is the writer handed out by a recorder without inner registry.
type cannedWriter struct {
	r  *Recorder
	id string
	up *cannedUpload
}

func (r *Recorder) cannedWriter(repo, id string) *cannedWriter {
	r.mu.Lock()
	defer r.mu.Unlock()
	if r.uploads == nil {
		r.uploads = map[string]*cannedUpload{}
	}
	if id == "" {
		r.nextID++
		id = fmt.Sprintf("canned-upload-%d", r.nextID)
	}
	up := r.uploads[id]
	if up == nil {
		up = &cannedUpload{repo: repo}
		r.uploads[id] = up
	}
	return &cannedWriter{r: r, id: id, up: up}
}

func (w *cannedWriter) Write(p []byte) (int, error) {
	w.r.mu.Lock()
	defer w.r.mu.Unlock()
	return w.up.buf.Write(p)
}
func (w *cannedWriter) Close() error { return nil }
func (w *cannedWriter) Size() int64 {
	w.r.mu.Lock()
	defer w.r.mu.Unlock()
	return int64(w.up.buf.Len())
}
func (w *cannedWriter) ChunkSize() int { return 8192 }
func (w *cannedWriter) ID() string     { return w.id }
func (w *cannedWriter) Cancel() error  { return nil }
func (w *cannedWriter) Commit(d ociregistry.Digest) (ociregistry.Descriptor, error) {
	w.r.mu.Lock()
	defer w.r.mu.Unlock()
	data := append([]byte(nil), w.up.buf.Bytes()...)
	w.r.commits = append(w.r.commits, Commit{Repo: w.up.repo, ID: w.id, Digest: string(d), Data: data})
	return ociregistry.Descriptor{Digest: d, Size: int64(len(data)), MediaType: "application/octet-stream"}, nil
}

func (r *Recorder) build() *ociregistry.Funcs {
	cn := func() *Canned { return &r.Canned }
	reader := func(method string) (ociregistry.BlobReader, error) {
		c := cn()
		if c.Err != nil {
			return nil, c.Err
		}
		d := c.Desc
		if d.Digest == "" {
			d.Digest = digest.FromBytes(c.Data)
			d.Size = int64(len(c.Data))
		}
		if d.MediaType == "" {
			d.MediaType = "application/octet-stream"
		}
		return ocimem.NewBytesReader(c.Data, d), nil
	}
	desc := func() (ociregistry.Descriptor, error) {
		c := cn()
		if c.Err != nil {
			return ociregistry.Descriptor{}, c.Err
		}
		d := c.Desc
		if d.Digest == "" {
			d.Digest = digest.FromBytes(c.Data)
			d.Size = int64(len(c.Data))
		}
		if d.MediaType == "" {
			d.MediaType = "application/octet-stream"
		}
		return d, nil
	}
	return &ociregistry.Funcs{
		GetBlob_: func(ctx context.Context, repo string, dg ociregistry.Digest) (ociregistry.BlobReader, error) {
			r.log(Call{Method: "GetBlob", Repo: repo, Digest: string(dg), Ctx: ctx})
			if r.Inner != nil {
				return r.trackR("GetBlob")(r.Inner.GetBlob(ctx, repo, dg))
			}
			return r.trackR("GetBlob")(reader("GetBlob"))
		},
		GetBlobRange_: func(ctx context.Context, repo string, dg ociregistry.Digest, o0, o1 int64) (ociregistry.BlobReader, error) {
			r.log(Call{Method: "GetBlobRange", Repo: repo, Digest: string(dg), Offset0: o0, Offset1: o1, Ctx: ctx})
			if r.Inner != nil {
				return r.trackR("GetBlobRange")(r.Inner.GetBlobRange(ctx, repo, dg, o0, o1))
			}
			br, err := reader("GetBlobRange")
			if err == nil {
				data := r.Canned.Data
				n := int64(len(data))
				e := o1
				if e < 0 || e > n {
					e = n
				}
				if o0 < 0 || o0 > e {
					return nil, fmt.Errorf("invalid range")
				}
				br = ocimem.NewBytesReader(data[o0:e], br.Descriptor())
			}
			return r.trackR("GetBlobRange")(br, err)
		},
		GetManifest_: func(ctx context.Context, repo string, dg ociregistry.Digest) (ociregistry.BlobReader, error) {
			r.log(Call{Method: "GetManifest", Repo: repo, Digest: string(dg), Ctx: ctx})
			if r.Inner != nil {
				return r.trackR("GetManifest")(r.Inner.GetManifest(ctx, repo, dg))
			}
			return r.trackR("GetManifest")(reader("GetManifest"))
		},
		GetTag_: func(ctx context.Context, repo string, tag string) (ociregistry.BlobReader, error) {
			r.log(Call{Method: "GetTag", Repo: repo, Tag: tag, Ctx: ctx})
			if r.Inner != nil {
				return r.trackR("GetTag")(r.Inner.GetTag(ctx, repo, tag))
			}
			return r.trackR("GetTag")(reader("GetTag"))
		},
		ResolveBlob_: func(ctx context.Context, repo string, dg ociregistry.Digest) (ociregistry.Descriptor, error) {
			r.log(Call{Method: "ResolveBlob", Repo: repo, Digest: string(dg), Ctx: ctx})
			if r.Inner != nil {
				return r.Inner.ResolveBlob(ctx, repo, dg)
			}
			return desc()
		},
		ResolveManifest_: func(ctx context.Context, repo string, dg ociregistry.Digest) (ociregistry.Descriptor, error) {
			r.log(Call{Method: "ResolveManifest", Repo: repo, Digest: string(dg), Ctx: ctx})
			if r.Inner != nil {
				return r.Inner.ResolveManifest(ctx, repo, dg)
			}
			return desc()
		},
		ResolveTag_: func(ctx context.Context, repo string, tag string) (ociregistry.Descriptor, error) {
			r.log(Call{Method: "ResolveTag", Repo: repo, Tag: tag, Ctx: ctx})
			if r.Inner != nil {
				return r.Inner.ResolveTag(ctx, repo, tag)
			}
			return desc()
		},
		PushBlob_: func(ctx context.Context, repo string, d ociregistry.Descriptor, rd io.Reader) (ociregistry.Descriptor, error) {
			data, rerr := io.ReadAll(rd)
			r.log(Call{Method: "PushBlob", Repo: repo, DescDigest: string(d.Digest), DescSize: d.Size, DescMedia: d.MediaType, DataLen: len(data), DataSHA: sha(data), Data: data, Ctx: ctx})
			if rerr != nil {
				return ociregistry.Descriptor{}, rerr
			}
			if r.Inner != nil {
				return r.Inner.PushBlob(ctx, repo, d, bytes.NewReader(data))
			}
			if c := cn(); c.Err != nil {
				return ociregistry.Descriptor{}, c.Err
			}
			return d, nil
		},
		PushBlobChunked_: func(ctx context.Context, repo string, chunkSize int) (ociregistry.BlobWriter, error) {
			r.log(Call{Method: "PushBlobChunked", Repo: repo, ChunkSize: chunkSize, Ctx: ctx})
			if r.Inner != nil {
				return r.trackW("PushBlobChunked")(r.Inner.PushBlobChunked(ctx, repo, chunkSize))
			}
			if c := cn(); c.Err != nil {
				return nil, c.Err
			}
			return r.trackW("PushBlobChunked")(r.cannedWriter(repo, ""), nil)
		},
		PushBlobChunkedResume_: func(ctx context.Context, repo, id string, offset int64, chunkSize int) (ociregistry.BlobWriter, error) {
			have := int64(-1)
			if r.Inner == nil {
				r.mu.Lock()
				if up := r.uploads[id]; up != nil {
					have = int64(up.buf.Len())
				}
				r.mu.Unlock()
			}
			r.log(Call{Method: "PushBlobChunkedResume", Repo: repo, ID: id, Offset0: offset, ChunkSize: chunkSize, Have: have, Ctx: ctx})
			if r.Inner != nil {
				return r.trackW("PushBlobChunkedResume")(r.Inner.PushBlobChunkedResume(ctx, repo, id, offset, chunkSize))
			}
			if c := cn(); c.Err != nil {
				return nil, c.Err
			}
			return r.trackW("PushBlobChunkedResume")(r.cannedWriter(repo, id), nil)
		},
		MountBlob_: func(ctx context.Context, from, to string, dg ociregistry.Digest) (ociregistry.Descriptor, error) {
			r.log(Call{Method: "MountBlob", FromRepo: from, Repo: to, Digest: string(dg), Ctx: ctx})
			if r.Inner != nil {
				return r.Inner.MountBlob(ctx, from, to, dg)
			}
			return desc()
		},
		PushManifest_: func(ctx context.Context, repo, tag string, contents []byte, mediaType string) (ociregistry.Descriptor, error) {
			r.log(Call{Method: "PushManifest", Repo: repo, Tag: tag, MediaType: mediaType, DataLen: len(contents), DataSHA: sha(contents), Data: append([]byte(nil), contents...), Ctx: ctx})
			if r.Inner != nil {
				return r.Inner.PushManifest(ctx, repo, tag, contents, mediaType)
			}
			if c := cn(); c.Err != nil {
				return ociregistry.Descriptor{}, c.Err
			}
			return ociregistry.Descriptor{Digest: digest.FromBytes(contents), Size: int64(len(contents)), MediaType: mediaType}, nil
		},
		DeleteBlob_: func(ctx context.Context, repo string, dg ociregistry.Digest) error {
			r.log(Call{Method: "DeleteBlob", Repo: repo, Digest: string(dg), Ctx: ctx})
			if r.Inner != nil {
				return r.Inner.DeleteBlob(ctx, repo, dg)
			}
			return cn().Err
		},
		DeleteManifest_: func(ctx context.Context, repo string, dg ociregistry.Digest) error {
			r.log(Call{Method: "DeleteManifest", Repo: repo, Digest: string(dg), Ctx: ctx})
			if r.Inner != nil {
				return r.Inner.DeleteManifest(ctx, repo, dg)
			}
			return cn().Err
		},
		DeleteTag_: func(ctx context.Context, repo string, tag string) error {
			r.log(Call{Method: "DeleteTag", Repo: repo, Tag: tag, Ctx: ctx})
			if r.Inner != nil {
				return r.Inner.DeleteTag(ctx, repo, tag)
			}
			return cn().Err
		},
		Repositories_: func(ctx context.Context, startAfter string) ociregistry.Seq[string] {
			r.log(Call{Method: "Repositories", StartAfter: startAfter, Ctx: ctx})
			if r.Inner != nil {
				return r.Inner.Repositories(ctx, startAfter)
			}
			return cannedSeq(cn().Strings, cn().Err, cn().ListErr)
		},
		Tags_: func(ctx context.Context, repo, startAfter string) ociregistry.Seq[string] {
			r.log(Call{Method: "Tags", Repo: repo, StartAfter: startAfter, Ctx: ctx})
			if r.Inner != nil {
				return r.Inner.Tags(ctx, repo, startAfter)
			}
			return cannedSeq(cn().Strings, cn().Err, cn().ListErr)
		},
		Referrers_: func(ctx context.Context, repo string, dg ociregistry.Digest, artifactType string) ociregistry.Seq[ociregistry.Descriptor] {
			r.log(Call{Method: "Referrers", Repo: repo, Digest: string(dg), ArtifactType: artifactType, Ctx: ctx})
			if r.Inner != nil {
				return r.Inner.Referrers(ctx, repo, dg, artifactType)
			}
			return cannedSeq(cn().Descs, cn().Err, cn().ListErr)
		},
	}
}
