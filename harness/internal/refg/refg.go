// Package refg is a reference reading of the name grammars of the distribution
// specification (repository names, tags, digests), written from the documented grammar and
// sharing no code or regular expression with the library under test.
package refg

import "strings"

func isLowerAlnum(c byte) bool { return 'a' <= c && c <= 'z' || '0' <= c && c <= '9' }
func isAlnum(c byte) bool      { return isLowerAlnum(c) || 'A' <= c && c <= 'Z' }
func isWord(c byte) bool       { return isAlnum(c) || c == '_' }

// ValidTag reports whether s is a tag by the documented grammar.
func ValidTag(s string) bool {
	if len(s) < 1 || len(s) > 128 || !isWord(s[0]) {
		return false
	}
	for i := 1; i < len(s); i++ {
		if c := s[i]; !isWord(c) && c != '.' && c != '-' {
			return false
		}
	}
	return true
}

// component: alnum+ ( sep alnum+ )*, sep = "." | "_" | "__" | "-"+
func validComponent(s string) bool {
	i := 0
	run := func() bool {
		j := i
		for i < len(s) && isLowerAlnum(s[i]) {
			i++
		}
		return i > j
	}
	if !run() {
		return false
	}
	for i < len(s) {
		switch {
		case s[i] == '.':
			i++
		case s[i] == '_':
			i++
			if i < len(s) && s[i] == '_' {
				i++
			}
		case s[i] == '-':
			for i < len(s) && s[i] == '-' {
				i++
			}
		default:
			return false
		}
		if !run() {
			return false
		}
	}
	return true
}

// ValidRepo: the grammar only (no length limit; IsValidRepository has none either).
func ValidRepo(s string) bool {
	for _, c := range strings.Split(s, "/") {
		if !validComponent(c) {
			return false
		}
	}
	return true
}

// ValidDigest reports whether s is a sha256/sha384/sha512 digest in canonical form.
func ValidDigest(s string) bool {
	alg, hex, ok := strings.Cut(s, ":")
	if !ok {
		return false
	}
	n := map[string]int{"sha256": 64, "sha384": 96, "sha512": 128}[alg]
	if n == 0 || len(hex) != n {
		return false
	}
	for i := 0; i < len(hex); i++ {
		if c := hex[i]; !('0' <= c && c <= '9' || 'a' <= c && c <= 'f') {
			return false
		}
	}
	return true
}
