// Package stack builds registry stacks: wrappers and real HTTP hops
// (ociclient -> net/http server running ociserver, over in-memory connections)
// over a backend.
package stack

import (
	"fmt"
	"net/http"
	"strings"
	"sync"

	"cuelabs.dev/go/oci/ociregistry"
	"cuelabs.dev/go/oci/ociregistry/ociclient"
	"cuelabs.dev/go/oci/ociregistry/ocidebug"
	"cuelabs.dev/go/oci/ociregistry/ocifilter"
	"cuelabs.dev/go/oci/ociregistry/ocimem"
	"cuelabs.dev/go/oci/ociregistry/ociserver"
	"cuelabs.dev/go/oci/ociregistry/ociunify"
	"pgregory.net/rapid"

	"verif/harness/internal/memnet"
)

// Layer is one element of a stack, applied on top of what is below it.
type Layer struct {
	Kind string `json:"kind"` // http | debug | select | sub | unify | readonly | immutable

	// http
	OmitDigest   bool `json:"omit_digest,omitempty"`
	OmitLink     bool `json:"omit_link,omitempty"`
	NoSinglePost bool `json:"no_single_post,omitempty"`
	MaxPage      int  `json:"max_page,omitempty"`
	ClientPage   int  `json:"client_page,omitempty"`
	// Charset: a front end declares the server's JSON answers as application/json; charset=utf-8
	// (the same media type, spelled with a parameter as many registries and proxies do)
	Charset bool `json:"charset,omitempty"`

	// sub
	Prefix string `json:"prefix,omitempty"`

	// unify: the other member is a fresh ocimem; Sequential selects the read policy
	Sequential bool `json:"sequential,omitempty"`
}

// Spec is a stack description, bottom layer first.
type Spec []Layer

func (s Spec) String() string {
	var parts []string
	for _, l := range s {
		switch l.Kind {
		case "http":
			cs := ""
			if l.Charset {
				cs = ",charset"
			}
			parts = append(parts, fmt.Sprintf("http(page=%d,max=%d,omitDigest=%v,omitLink=%v,noSinglePost=%v%s)", l.ClientPage, l.MaxPage, l.OmitDigest, l.OmitLink, l.NoSinglePost, cs))
		case "sub":
			parts = append(parts, "sub("+l.Prefix+")")
		case "unify":
			parts = append(parts, fmt.Sprintf("unify(seq=%v)", l.Sequential))
		default:
			parts = append(parts, l.Kind)
		}
	}
	if len(parts) == 0 {
		return "direct"
	}
	return strings.Join(parts, ">")
}

// Shape returns the stack's layer kinds only (used for distinct-case keys).
func (s Spec) Shape() string {
	var parts []string
	for _, l := range s {
		parts = append(parts, l.Kind)
	}
	return strings.Join(parts, ">")
}

// Hops counts the http layers.
func (s Spec) Hops() int {
	n := 0
	for _, l := range s {
		if l.Kind == "http" {
			n++
		}
	}
	return n
}

// Built is a constructed stack.
type Built struct {
	Top     ociregistry.Interface
	Members []*ocimem.Registry // extra ocimem members created for unify layers
	Servers []*memnet.Server
	// Tap, when set before Build, wraps each hop's transport (bottom hop first).
	closers []func()
	LogMu   sync.Mutex
	Log     []string
}

// Close shuts down servers and idle connections.
func (b *Built) Close() {
	for i := len(b.closers) - 1; i >= 0; i-- {
		b.closers[i]()
	}
}

// Options customises Build.
type Options struct {
	// WrapTransport, if non-nil, wraps the transport of hop i (0 = nearest the backend).
	WrapTransport func(hop int, rt http.RoundTripper) http.RoundTripper
	// ImmutableMembers makes unify members use the immutable-tags mode.
	MemConfig *ocimem.Config
}

// Build constructs the stack described by spec over base.
func Build(base ociregistry.Interface, spec Spec, opts *Options) (*Built, error) {
	if opts == nil {
		opts = &Options{}
	}
	b := &Built{}
	cur := base
	hop := 0
	for _, l := range spec {
		switch l.Kind {
		case "http":
			var handler http.Handler = ociserver.New(cur, &ociserver.Options{
				OmitDigestFromTagGetResponse: l.OmitDigest,
				OmitLinkHeaderFromResponses:  l.OmitLink,
				DisableSinglePostUpload:      l.NoSinglePost,
				MaxListPageSize:              l.MaxPage,
			})
			if l.Charset {
				handler = charsetting{handler}
			}
			srv := memnet.NewServer(handler)
			tr := srv.Transport()
			var rt http.RoundTripper = tr
			if opts.WrapTransport != nil {
				rt = opts.WrapTransport(hop, rt)
			}
			hop++
			b.Servers = append(b.Servers, srv)
			b.closers = append(b.closers, func() { tr.CloseIdleConnections(); srv.Close() })
			c, err := ociclient.New(strings.TrimPrefix(srv.URL, "http://"), &ociclient.Options{
				Insecure: true, Transport: rt, ListPageSize: l.ClientPage,
			})
			if err != nil {
				b.Close()
				return nil, err
			}
			cur = c
		case "debug":
			cur = ocidebug.New(cur, func(f string, a ...any) {
				// format the message (exercises the logger's argument handling) and drop it
				_ = fmt.Sprintf(f, a...)
			})
		case "select":
			cur = ocifilter.Select(cur, func(string) bool { return true })
		case "sub":
			cur = ocifilter.Sub(cur, l.Prefix)
		case "readonly":
			cur = ocifilter.ReadOnly(cur)
		case "immutable":
			cur = ocifilter.Immutable(cur)
		case "unify":
			m := ocimem.NewWithConfig(opts.MemConfig)
			b.Members = append(b.Members, m)
			pol := ociunify.ReadConcurrent
			if l.Sequential {
				pol = ociunify.ReadSequential
			}
			cur = ociunify.New(cur, m, &ociunify.Options{ReadPolicy: pol})
		default:
			b.Close()
			return nil, fmt.Errorf("unknown layer kind %q", l.Kind)
		}
	}
	b.Top = cur
	return b, nil
}

type charsetting struct{ h http.Handler }

type charsettingWriter struct{ http.ResponseWriter }

func (w charsettingWriter) WriteHeader(code int) {
	if w.Header().Get("Content-Type") == "application/json" {
		w.Header().Set("Content-Type", "application/json; charset=utf-8")
	}
	w.ResponseWriter.WriteHeader(code)
}

func (w charsettingWriter) Write(p []byte) (int, error) {
	if w.Header().Get("Content-Type") == "application/json" {
		w.Header().Set("Content-Type", "application/json; charset=utf-8")
	}
	return w.ResponseWriter.Write(p)
}

func (c charsetting) ServeHTTP(w http.ResponseWriter, req *http.Request) {
	c.h.ServeHTTP(charsettingWriter{w}, req)
}

// GenHTTP draws an http layer.
func GenHTTP(t *rapid.T, label string, pages []int) Layer {
	return Layer{
		Kind:         "http",
		OmitDigest:   rapid.Bool().Draw(t, label+"OmitDigest"),
		OmitLink:     rapid.Bool().Draw(t, label+"OmitLink"),
		NoSinglePost: rapid.Bool().Draw(t, label+"NoSinglePost"),
		ClientPage:   rapid.SampledFrom(pages).Draw(t, label+"ClientPage"),
		Charset:      rapid.IntRange(0, 3).Draw(t, label+"Charset") == 0,
	}
}
