// Package vt is the small toolkit every property package is written against.
//
// A property is "script = data": a generator draws a plain serialisable
// Script, and Run decides it against the code under test. vt runs properties
// under rapid (or over an explicit enumeration), records what the generator
// actually produced (class histogram, distinct non-trivial cases, samples),
// saves the shrunk failing script as a replay file, and re-executes saved
// scripts without any library involved.
package vt

import (
	"encoding/json"
	"flag"
	"fmt"
	"hash/fnv"
	"os"
	"path/filepath"
	"runtime/debug"
	"sort"
	"strings"
	"sync"
	"testing"

	"pgregory.net/rapid"
)

var (
	flagOut    = flag.String("verif.out", "", "directory for stats and failure files")
	flagSize   = flag.String("verif.size", "quick", "quick|thorough: size parameters")
	flagKnown  = flag.String("verif.known", "", "known findings file")
	flagReplay = flag.String("verif.replay", "", "replay file or directory")
	flagShard  = flag.Int("verif.shard", 0, "shard index")
	flagShards = flag.Int("verif.shards", 1, "number of shards")
	flagN      = flag.Int("verif.n", 100, "base number of cases per property (scaled by Prop.Scale)")
	flagNoKnow = flag.Bool("verif.noknown", false, "ignore known findings (used to re-demonstrate them)")
)

// Thorough reports whether the thorough size parameters are in force.
func Thorough() bool { return *flagSize == "thorough" }

// Shard returns (index, count) of this process among the driver's shards.
func Shard() (int, int) { return *flagShard, *flagShards }

// N returns the base case count.
func N() int { return *flagN }

// V collects the verdict and the measurements of one case.
type V struct {
	fail     string
	sig      string
	classes  []string
	nontriv  bool
	key      string
	excluded []string
	note     any
}

// Class labels the case; labels are counted into the evidence histogram.
func (v *V) Class(format string, args ...any) {
	if len(args) == 0 {
		v.classes = append(v.classes, format)
		return
	}
	v.classes = append(v.classes, fmt.Sprintf(format, args...))
}

// NonTrivial marks the case as non-trivial by the property's rule; key
// identifies it for the distinct count.
func (v *V) NonTrivial(key string) {
	v.nontriv = true
	if v.key == "" {
		v.key = key
	} else {
		v.key += "|" + key
	}
}

// Failf records a violation. sig names the root cause class if the harness
// recognises it ("" otherwise). Only the first failure is kept.
func (v *V) Failf(sig, format string, args ...any) {
	if v.fail != "" {
		return
	}
	v.fail = fmt.Sprintf(format, args...)
	if v.fail == "" {
		v.fail = "failed"
	}
	v.sig = sig
}

// Failed reports whether a failure has been recorded.
func (v *V) Failed() bool { return v.fail != "" }

// Failure returns the recorded failure text.
func (v *V) Failure() string { return v.fail }

// Excluded records that part of this case was skipped because it falls in the
// region of a known finding.
func (v *V) Excluded(sig string) { v.excluded = append(v.excluded, sig) }

// Note attaches a compact rendering of the case used for samples instead of
// the whole script.
func (v *V) Note(x any) { v.note = x }

// Prop is one executable property.
type Prop[S any] struct {
	ID    string // property id, e.g. "C20"
	Name  string // check name, unique within the package
	Rule  string // how cases are generated and what makes one non-trivial/distinct
	Scale float64
	Gen   func(t *rapid.T) S
	Run   func(s S, v *V)
}

type stats struct {
	mu          sync.Mutex
	Evaluations int64             `json:"evaluations"`
	NonTrivial  int64             `json:"nontrivial"`
	Classes     map[string]int64  `json:"classes"`
	Excluded    map[string]int64  `json:"excluded_known"`
	Samples     []any             `json:"samples"`
	Rules       map[string]string `json:"rules"`
	PerProp     map[string]int64  `json:"per_prop"`
	Exhaustive  map[string]bool   `json:"exhaustive"`
	Failures    []failure         `json:"failures"`
	hashes      map[uint64]struct{}
	hashCapHit  bool
	sampleAt    map[string]int64
	ntPerProp   map[string]int64
}

type failure struct {
	Prop string `json:"prop"`
	Sig  string `json:"sig"`
	Msg  string `json:"msg"`
	File string `json:"file"`
}

const hashCap = 3_000_000

var st = &stats{
	Classes:    map[string]int64{},
	Excluded:   map[string]int64{},
	Rules:      map[string]string{},
	PerProp:    map[string]int64{},
	Exhaustive: map[string]bool{},
	hashes:     map[uint64]struct{}{},
	sampleAt:   map[string]int64{},
	ntPerProp:  map[string]int64{},
}

type replayer func(raw json.RawMessage) *V

var (
	regMu    sync.Mutex
	registry = map[string]replayer{}
)

func register[S any](p *Prop[S]) {
	regMu.Lock()
	defer regMu.Unlock()
	registry[p.Name] = func(raw json.RawMessage) *V {
		var s S
		if err := json.Unmarshal(raw, &s); err != nil {
			v := &V{}
			v.Failf("harness", "cannot decode replay script: %v", err)
			return v
		}
		return exec(p, s)
	}
	st.mu.Lock()
	st.Rules[p.Name] = p.Rule
	st.mu.Unlock()
}

// Register makes the property available to TestReplay without running it.
func Register[S any](p *Prop[S]) { register(p) }

// exec runs one case, converting a panic in the code under test (or in the
// oracle) into a failure that carries the stack.
func exec[S any](p *Prop[S], s S) (v *V) {
	v = &V{}
	defer func() {
		if r := recover(); r != nil {
			v.fail = ""
			sig := "panic"
			msg := fmt.Sprint(r)
			for _, env := range []string{"failed to listen", "address already in use", "too many open files", "cannot allocate memory", "resource temporarily unavailable"} {
				if strings.Contains(msg, env) {
					sig = "harness" // the environment failed the harness, not the code under test: inconclusive
				}
			}
			v.Failf(sig, "panic: %v\n%s", r, trimStack(debug.Stack()))
		}
	}()
	p.Run(s, v)
	return v
}

func trimStack(b []byte) string {
	lines := strings.Split(string(b), "\n")
	// skip the frames of the recovery machinery itself
	for i, l := range lines {
		if strings.HasPrefix(l, "panic(") && i+2 < len(lines) {
			lines = lines[i+2:]
			break
		}
	}
	if len(lines) > 16 {
		lines = lines[:16]
	}
	return strings.Join(lines, "\n")
}

func record[S any](p *Prop[S], s S, v *V) {
	st.mu.Lock()
	defer st.mu.Unlock()
	st.Evaluations++
	st.PerProp[p.Name]++
	for _, c := range v.classes {
		st.Classes[p.Name+"/"+c]++
	}
	for _, e := range v.excluded {
		st.Excluded[e]++
	}
	if v.nontriv {
		st.NonTrivial++
		st.ntPerProp[p.Name]++
		h := fnv.New64a()
		h.Write([]byte(p.Name))
		h.Write([]byte{0})
		h.Write([]byte(v.key))
		if len(st.hashes) < hashCap {
			st.hashes[h.Sum64()] = struct{}{}
		} else {
			st.hashCapHit = true
		}
		// Samples: the 1st, 7th, 50th and 400th non-trivial case of each property.
		n := st.ntPerProp[p.Name]
		if n == 1 || n == 7 || n == 50 || n == 400 {
			var x any = s
			if v.note != nil {
				x = v.note
			}
			st.Samples = append(st.Samples, map[string]any{"check": p.Name, "case": compact(x), "classes": v.classes})
		}
	}
}

func compact(x any) any {
	b, err := json.Marshal(x)
	if err != nil {
		return fmt.Sprintf("%+v", x)
	}
	if len(b) > 3000 {
		return string(b[:3000]) + "…(truncated)"
	}
	return json.RawMessage(b)
}

type replayFile struct {
	Property  string          `json:"property"`
	Check     string          `json:"check"`
	Seed      string          `json:"seed,omitempty"`
	Script    json.RawMessage `json:"script"`
	Failure   string          `json:"failure"`
	Signature string          `json:"signature"`
}

func saveFailure[S any](p *Prop[S], s S, v *V) string {
	if *flagOut == "" {
		return ""
	}
	raw, err := json.Marshal(s)
	if err != nil {
		raw, _ = json.Marshal(fmt.Sprintf("%+v", s))
	}
	sig := v.sig
	if sig == "" {
		sig = "unclassified"
	}
	rf := replayFile{Property: p.ID, Check: p.Name, Script: raw, Failure: v.fail, Signature: sig}
	b, _ := json.MarshalIndent(rf, "", " ")
	name := filepath.Join(*flagOut, fmt.Sprintf("fail-%s-%d.json", p.Name, *flagShard))
	os.WriteFile(name, b, 0o644)
	return name
}

func noteFailure[S any](p *Prop[S], v *V, file string) {
	st.mu.Lock()
	defer st.mu.Unlock()
	for i := range st.Failures {
		if st.Failures[i].Prop == p.Name {
			st.Failures[i] = failure{p.Name, v.sig, firstLine(v.fail), file}
			return
		}
	}
	st.Failures = append(st.Failures, failure{p.Name, v.sig, firstLine(v.fail), file})
}

func firstLine(s string) string {
	if i := strings.IndexByte(s, '\n'); i >= 0 {
		s = s[:i]
	}
	if len(s) > 400 {
		s = s[:400]
	}
	return s
}

// SaveFailureNow persists a failure immediately (fail file + stats). It is for
// checks whose process may be aborted before Run returns (a leaked goroutine in
// a synctest bubble makes the runtime abort the process).
func SaveFailureNow[S any](p *Prop[S], s S, v *V) {
	f := saveFailure(p, s, v)
	noteFailure(p, v, f)
	WriteStats()
}

// RunOne executes one script outside rapid (native fuzz targets): a failure is
// persisted like any other (fail file in -verif.out) and returned.
func RunOne[S any](p *Prop[S], s S) *V {
	register(p)
	v := exec(p, s)
	if v.fail != "" {
		f := saveFailure(p, s, v)
		noteFailure(p, v, f)
	}
	return v
}

// Fuzz makes a native coverage-guided fuzz target out of a property: the fuzz
// input drives the property's own rapid generator.
func Fuzz[S any](f *testing.F, p *Prop[S]) {
	register(p)
	f.Fuzz(rapid.MakeFuzz(func(rt *rapid.T) {
		s := p.Gen(rt)
		if v := RunOne(p, s); v.fail != "" {
			rt.Fatalf("[%s] %s", v.sig, v.fail)
		}
	}))
}

// Check runs the property under rapid with N()*Scale cases.
func Check[S any](t *testing.T, p *Prop[S]) {
	register(p)
	if *flagReplay != "" {
		t.Skip("replay mode")
	}
	scale := p.Scale
	if scale == 0 {
		scale = 1
	}
	n := int(float64(*flagN) * scale)
	if n < 1 {
		n = 1
	}
	flag.Set("rapid.checks", fmt.Sprint(n))
	rapid.Check(t, func(rt *rapid.T) {
		s := p.Gen(rt)
		v := exec(p, s)
		record(p, s, v)
		if v.fail != "" {
			f := saveFailure(p, s, v)
			noteFailure(p, v, f)
			rt.Fatalf("[%s] %s", v.sig, v.fail)
		}
	})
}

// Enumerate runs the property over an explicit finite enumeration. It stops
// at the first failure (which is saved as the replay script). complete says
// whether the enumeration covers the whole finite space the property names.
func Enumerate[S any](t *testing.T, p *Prop[S], complete bool, each func(yield func(S) bool)) {
	register(p)
	if *flagReplay != "" {
		t.Skip("replay mode")
	}
	ok := true
	each(func(s S) bool {
		v := exec(p, s)
		record(p, s, v)
		if v.fail != "" {
			f := saveFailure(p, s, v)
			noteFailure(p, v, f)
			t.Errorf("[%s] %s\nscript: %s", v.sig, v.fail, mustJSON(s))
			ok = false
			return false
		}
		return true
	})
	st.mu.Lock()
	st.Exhaustive[p.Name] = complete && ok
	st.mu.Unlock()
}

func mustJSON(x any) string {
	b, err := json.Marshal(x)
	if err != nil {
		return fmt.Sprintf("%+v", x)
	}
	if len(b) > 4000 {
		return string(b[:4000]) + "…"
	}
	return string(b)
}

// Replay re-executes saved scripts (flag -verif.replay: a file or a directory
// of *.json files) with no generator library involved. Properties must have
// been registered (package init or RegisterAll) before it is called.
func Replay(t *testing.T) {
	if *flagReplay == "" {
		t.Skip("no -verif.replay")
	}
	var files []string
	fi, err := os.Stat(*flagReplay)
	if err != nil {
		t.Fatalf("replay: %v", err)
	}
	if fi.IsDir() {
		m, _ := filepath.Glob(filepath.Join(*flagReplay, "*.json"))
		sort.Strings(m)
		files = m
	} else {
		files = []string{*flagReplay}
	}
	for _, f := range files {
		b, err := os.ReadFile(f)
		if err != nil {
			t.Fatalf("replay: %v", err)
		}
		var rf replayFile
		if err := json.Unmarshal(b, &rf); err != nil {
			t.Fatalf("replay %s: %v", f, err)
		}
		regMu.Lock()
		run := registry[rf.Check]
		regMu.Unlock()
		if run == nil {
			t.Fatalf("replay %s: unknown check %q", f, rf.Check)
		}
		v := run(rf.Script)
		st.mu.Lock()
		st.Evaluations++
		st.PerProp["replay"]++
		st.mu.Unlock()
		if v.fail != "" {
			fmt.Printf("REPLAY-FAIL file=%s sig=%s msg=%s\n", f, v.sig, firstLine(v.fail))
			t.Errorf("replay %s: [%s] %s", f, v.sig, v.fail)
		} else {
			fmt.Printf("REPLAY-OK file=%s\n", f)
		}
	}
}

// ---- known findings ------------------------------------------------------

var (
	knownOnce sync.Once
	knownSigs map[string]bool
)

// Known reports whether sig is listed as a known (unrepaired) finding, in
// which case the caller excludes the finding's region by construction and
// reports it with V.Excluded.
func Known(sig string) bool {
	knownOnce.Do(func() {
		knownSigs = map[string]bool{}
		if *flagKnown == "" || *flagNoKnow {
			return
		}
		b, err := os.ReadFile(*flagKnown)
		if err != nil {
			return
		}
		for _, line := range strings.Split(string(b), "\n") {
			line = strings.TrimSpace(line)
			if !strings.HasPrefix(line, "known:") {
				continue
			}
			for _, f := range strings.Fields(line) {
				if s, ok := strings.CutPrefix(f, "signature="); ok {
					knownSigs[s] = true
				}
			}
		}
	})
	return knownSigs[sig]
}

// ---- process-level plumbing ------------------------------------------------

// Main is called from TestMain: runs the tests, then writes the stats file.
func Main(m *testing.M) {
	code := m.Run()
	WriteStats()
	os.Exit(code)
}

// WriteStats writes the per-shard stats file.
func WriteStats() {
	if *flagOut == "" {
		return
	}
	st.mu.Lock()
	defer st.mu.Unlock()
	hs := make([]uint64, 0, len(st.hashes))
	for h := range st.hashes {
		hs = append(hs, h)
	}
	sort.Slice(hs, func(i, j int) bool { return hs[i] < hs[j] })
	out := map[string]any{
		"evaluations":    st.Evaluations,
		"nontrivial":     st.NonTrivial,
		"classes":        st.Classes,
		"excluded_known": st.Excluded,
		"samples":        st.Samples,
		"rules":          st.Rules,
		"per_prop":       st.PerProp,
		"exhaustive":     st.Exhaustive,
		"failures":       st.Failures,
		"hashes":         hs,
		"hash_cap_hit":   st.hashCapHit,
	}
	b, _ := json.Marshal(out)
	os.WriteFile(filepath.Join(*flagOut, fmt.Sprintf("stats-%d.json", *flagShard)), b, 0o644)
}

// Count adds n to a class counter outside of any case (for checks that
// measure something per run rather than per case).
func Count(label string, n int64) {
	st.mu.Lock()
	st.Classes[label] += n
	st.mu.Unlock()
}
