// Package authworld is an in-memory world of registries and token servers
// used to drive ociauth's transport inside a synctest bubble: every request is
// logged with the virtual time, tokens are self-describing, and every secret
// is a unique string so that confinement can be checked by searching.
package authworld

import (
	"bytes"
	"encoding/base64"
	"encoding/json"
	"fmt"
	"io"
	"net/http"
	"net/url"
	"sort"
	"strings"
	"sync"
	"time"
)

// HostSpec describes one registry host and the token server it names.
type HostSpec struct {
	Name    string `json:"name"`    // host[:port] of the registry
	Cred    string `json:"cred"`    // none | basic | refresh | static | configerr
	Service string `json:"service"` // service name used in challenges
	Realm   string `json:"realm"`   // host of the token server named in challenges
	// ScopeSpelling: how exact / superset challenges spell their scope: 0 in canonical form, 1 with
	// repositories and actions in descending order, 2 with the first group repeated at the end
	ScopeSpelling int    `json:"scope_spelling,omitempty"`
	Challenge     string `json:"challenge"` // exact | superset | unrelated | none | basic | both | raw
	RawHeader     string `json:"raw_header,omitempty"`
	TTL           int    `json:"ttl"`               // expires_in: -1 absent, 0, 1, 2, 3, ...
	TTLSeq        []int  `json:"ttl_seq,omitempty"` // if set, the n-th token issued for this host gets TTLSeq[n % len] instead
	Refuse        bool   `json:"refuse"`            // token server answers 401 to requests beyond the challenge scope
	NoPost        bool   `json:"no_post"`           // token server lacks the OAuth2 POST endpoint (404)
	Rotate        bool   `json:"rotate"`            // token server issues a new refresh token each time
	// TokenFault: "" | status:<n> | redirect:<n>:<host> | badjson | emptyjson | notoken | accessfield
	TokenFault string `json:"token_fault,omitempty"`
	// Accept: the registry accepts any syntactically valid token of its own (valid) or rejects everything (never)
	Accept string `json:"accept,omitempty"` // "" = validate; "never" = always 401
	// IssuedAgoMs: the token server hands out tokens that were issued that long ago (as servers
	// that cache tokens do) and says so in "issued_at"; expires_in counts from there. Ignored
	// for a token that would already be expired on arrival.
	IssuedAgoMs int `json:"issued_ago_ms,omitempty"`
	// TokenDelayMs: requests to this host's token realm take that long to arrive (network latency;
	// virtual time inside a synctest bubble). Only usable when no other goroutine can be waiting for
	// a mutex the caller holds meanwhile: a goroutine blocked on a sync.Mutex is not "durably
	// blocked", so the bubble's clock would never advance (not used by the generators for that reason).
	TokenDelayMs int `json:"token_delay_ms,omitempty"`
	// ErrContentType: the Content-Type of the registry's 401 responses ("" = none)
	ErrContentType string `json:"err_content_type,omitempty"`
	// Retry401: what the 401 given to a request that presented a Bearer token carries instead of the
	// usual challenge: "" = the usual challenge; "nohdr" = no Www-Authenticate at all; "negotiate" = an
	// unsupported scheme; "malformed" = an unparsable header.
	Retry401 string `json:"retry401,omitempty"`
	// ScopeParam: the spelling of the challenge's scope parameter name ("" = scope; Scope, SCOPE)
	ScopeParam string `json:"scope_param,omitempty"`
	// IssuedAtLower: issued_at is written with lower-case "t" and "z", which RFC 3339 allows
	IssuedAtLower bool `json:"issued_at_lower,omitempty"`
	// ClockAheadMs: the token server's clock runs this far ahead of the client's (issued_at lies in the
	// client's future)
	ClockAheadMs int `json:"clock_ahead_ms,omitempty"`
	// Body401DelayMs: the body of the registry's 401 responses takes this long (virtual time) to arrive
	Body401DelayMs int `json:"body401_delay_ms,omitempty"`
	// Body401DelayOnce: only the first 401 the registry sends is slow
	Body401DelayOnce bool `json:"body401_delay_once,omitempty"`
}

// Triple is one (type, resource, action).
type Triple struct{ T, R, A string }

// ParseScopeText is the documented scope syntax, written independently of ociauth.
func ParseScopeText(s string) map[Triple]bool {
	out := map[Triple]bool{}
	for _, f := range strings.Fields(s) {
		p := strings.Split(f, ":")
		if len(p) != 3 {
			out[Triple{T: f}] = true
			continue
		}
		for _, a := range strings.Split(p[2], ",") {
			out[Triple{p[0], p[1], a}] = true
		}
	}
	return out
}

func Subset(a, b map[Triple]bool) bool {
	for x := range a {
		if !b[x] {
			return false
		}
	}
	return true
}

func SetString(a map[Triple]bool) string {
	var l []string
	for x := range a {
		l = append(l, x.T+":"+x.R+":"+x.A)
	}
	sort.Strings(l)
	return strings.Join(l, " ")
}

// Token is a minted access token (the wire form is its JSON, base64url-encoded).
type Token struct {
	N        int    `json:"n"`
	Issuer   string `json:"iss"` // token server host
	Service  string `json:"svc"`
	Scope    string `json:"scope"`
	IssuedMs int64  `json:"iat"` // virtual unix ms
	TTL      int    `json:"ttl"` // seconds; effective (absent / 0 => 60)
	ForHost  string `json:"for"` // registry host whose challenge named the realm with this service (for bookkeeping)
}

func (t Token) Encode() string {
	b, _ := json.Marshal(t)
	return "tk." + base64.RawURLEncoding.EncodeToString(b)
}

func DecodeToken(s string) (Token, bool) {
	var t Token
	if !strings.HasPrefix(s, "tk.") {
		return t, false
	}
	b, err := base64.RawURLEncoding.DecodeString(s[3:])
	if err != nil || json.Unmarshal(b, &t) != nil {
		return t, false
	}
	return t, true
}

// Arrival is one request seen by the world.
type Arrival struct {
	Seq      int
	Call     int // index of the RoundTrip call that caused it (set by the caller through a header)
	AtMs     int64
	Kind     string // registry | token
	Host     string
	Scheme   string // of the request URL
	Method   string
	Path     string
	Auth     string // Authorization header
	Body     string
	Query    url.Values
	Status   int
	Required map[Triple]bool // registry requests: scope the request needs
	ChalText string          // scope text of the challenge sent back (401 with bearer challenge)
	ChalHdr  []string
	TokScope string // token requests: the scope text asked for (space joined)
	Minted   *Token
	Raw      string // everything that went out, for secret searching
}

// MaxTokenRequests is the number of token requests a world serves before it cuts the client off.
const MaxTokenRequests = 400

// World implements http.RoundTripper.
type World struct {
	mu            sync.Mutex
	Hosts         map[string]*HostSpec // by registry host
	byRealm       map[string][]*HostSpec
	Log           []*Arrival
	seq           int
	nTokens       int
	Start         time.Time
	tokenRequests int
	slowSent      map[string]bool
	Allowed       map[string]map[Triple]bool // per registry host: what its credential may be granted when Refuse is set
	refresh       map[string]string          // current valid refresh token per registry host
	perHost       map[string]int
}

func New(hosts []HostSpec) *World {
	w := &World{Hosts: map[string]*HostSpec{}, byRealm: map[string][]*HostSpec{}, Start: time.Now(), Allowed: map[string]map[Triple]bool{}, refresh: map[string]string{}, perHost: map[string]int{}, slowSent: map[string]bool{}}
	for i := range hosts {
		h := &hosts[i]
		w.Hosts[h.Name] = h
		w.byRealm[h.Realm] = append(w.byRealm[h.Realm], h)
		w.refresh[h.Name] = RefreshToken(h.Name)
	}
	return w
}

// Secrets of a host (unique strings).
func Password(host string) string     { return "PW-" + strings.ToUpper(hex(host)) + "-pw" }
func Username(host string) string     { return "user-" + hex(host) }
func RefreshToken(host string) string { return "RT-" + hex(host) + "-rt0" }
func StaticToken(host string) string  { return "ST-" + hex(host) + "-static" }

func hex(s string) string { return fmt.Sprintf("%x", []byte(s)) }

func (w *World) nowMs() int64 { return time.Since(w.Start).Milliseconds() }

// RequiredFor computes the scope a registry request needs: /v2/<repo>/... with
// GET/HEAD = pull, others = push; a path ending in /both needs pull and push.
func RequiredFor(method, path string) map[Triple]bool {
	p := strings.TrimPrefix(path, "/v2/")
	if p == "_catalog" {
		return map[Triple]bool{{"registry", "catalog", "*"}: true}
	}
	i := strings.LastIndex(p, "/")
	if i < 0 {
		return map[Triple]bool{}
	}
	repo, last := p[:i], p[i+1:]
	out := map[Triple]bool{}
	switch {
	case last == "both":
		out[Triple{"repository", repo, "pull"}] = true
		out[Triple{"repository", repo, "push"}] = true
	case method == "GET" || method == "HEAD":
		out[Triple{"repository", repo, "pull"}] = true
	default:
		out[Triple{"repository", repo, "push"}] = true
	}
	return out
}

func scopeTextOf(req map[Triple]bool) string {
	// canonical text: repository:<repo>:<actions,...>
	by := map[string][]string{}
	for x := range req {
		k := x.T + ":" + x.R
		by[k] = append(by[k], x.A)
	}
	var keys []string
	for k := range by {
		keys = append(keys, k)
	}
	sort.Strings(keys)
	var parts []string
	for _, k := range keys {
		sort.Strings(by[k])
		parts = append(parts, k+":"+strings.Join(by[k], ","))
	}
	return strings.Join(parts, " ")
}

// respell writes a scope text another way without changing what it says: 1 = repositories and actions in
// descending order, 2 = the first group once more at the end.
func respell(text string, how int) string {
	parts := strings.Fields(text)
	if len(parts) == 0 {
		return text
	}
	switch how {
	case 1:
		for i, p := range parts {
			if j := strings.LastIndex(p, ":"); j >= 0 {
				acts := strings.Split(p[j+1:], ",")
				sort.Sort(sort.Reverse(sort.StringSlice(acts)))
				parts[i] = p[:j+1] + strings.Join(acts, ",")
			}
		}
		sort.Sort(sort.Reverse(sort.StringSlice(parts)))
	case 2:
		parts = append(parts, parts[0])
	}
	return strings.Join(parts, " ")
}

func resp(req *http.Request, status int, hdr http.Header, body string) *http.Response {
	if hdr == nil {
		hdr = http.Header{}
	}
	return &http.Response{StatusCode: status, Status: fmt.Sprintf("%d %s", status, http.StatusText(status)), Header: hdr,
		Body: io.NopCloser(strings.NewReader(body)), ContentLength: int64(len(body)), Request: req, Proto: "HTTP/1.1", ProtoMajor: 1, ProtoMinor: 1}
}

func (w *World) RoundTrip(req *http.Request) (*http.Response, error) {
	var body []byte
	if req.Body != nil {
		body, _ = io.ReadAll(req.Body)
		req.Body.Close()
	}
	if req.URL.Path == "/token" {
		w.mu.Lock()
		w.tokenRequests++
		over := w.tokenRequests > MaxTokenRequests
		w.mu.Unlock()
		if over {
			// a client that keeps asking is cut off, so that its call returns and the per-call bound is judged
			return nil, fmt.Errorf("authworld: more than %d token requests in one conversation", MaxTokenRequests)
		}
		delay := 0
		w.mu.Lock()
		for _, h := range w.byRealm[req.URL.Host] {
			delay = max(delay, h.TokenDelayMs)
		}
		w.mu.Unlock()
		if delay > 0 {
			time.Sleep(time.Duration(delay) * time.Millisecond)
		}
	}
	w.mu.Lock()
	defer w.mu.Unlock()
	w.seq++
	a := &Arrival{Seq: w.seq, AtMs: w.nowMs(), Host: req.URL.Host, Scheme: req.URL.Scheme, Method: req.Method, Path: req.URL.Path, Auth: req.Header.Get("Authorization"),
		Body: string(body), Query: req.URL.Query(), Call: -1}
	fmt.Sscanf(req.Header.Get("X-Call"), "%d", &a.Call)
	var raw bytes.Buffer
	fmt.Fprintf(&raw, "%s %s\n", req.Method, req.URL.String())
	for k, vs := range req.Header {
		for _, v := range vs {
			fmt.Fprintf(&raw, "%s: %s\n", k, v)
			if k == "Authorization" && strings.HasPrefix(v, "Basic ") {
				if d, err := base64.StdEncoding.DecodeString(v[6:]); err == nil {
					fmt.Fprintf(&raw, "basic-decoded: %s\n", d)
				}
			}
		}
	}
	raw.Write(body)
	if dq, err := url.QueryUnescape(string(body)); err == nil {
		raw.WriteString("\n" + dq)
	}
	a.Raw = raw.String()
	w.Log = append(w.Log, a)
	if h, ok := w.Hosts[req.URL.Host]; ok && strings.HasPrefix(req.URL.Path, "/v2/") {
		a.Kind = "registry"
		return w.registry(h, req, a), nil
	}
	if hs, ok := w.byRealm[req.URL.Host]; ok && req.URL.Path == "/token" && req.URL.Scheme != "http" {
		a.Kind = "token"
		return w.tokenServer(hs, req, a, string(body)), nil
	}
	a.Kind = "unknown"
	a.Status = 404
	return resp(req, 404, nil, "no such host or path"), nil
}

func (w *World) challengeHeaders(h *HostSpec, required map[Triple]bool) (hdrs []string, scopeText string) {
	realm := "https://" + h.Realm + "/token"
	bearer := func(scope string) string {
		s := fmt.Sprintf(`Bearer realm=%q,service=%q`, realm, h.Service)
		if scope != "" {
			name := "scope"
			if h.ScopeParam != "" {
				name = h.ScopeParam // auth-param names are case-insensitive (RFC 7235)
			}
			s += fmt.Sprintf(`,%s=%q`, name, scope)
		}
		return s
	}
	switch h.Challenge {
	case "exact":
		scopeText = respell(scopeTextOf(required), h.ScopeSpelling)
		return []string{bearer(scopeText)}, scopeText
	case "superset":
		sup := map[Triple]bool{{"repository", "extra/repo", "pull"}: true}
		for x := range required {
			sup[x] = true
		}
		scopeText = respell(scopeTextOf(sup), h.ScopeSpelling)
		return []string{bearer(scopeText)}, scopeText
	case "unrelated":
		scopeText = "repository:unrelated:pull"
		return []string{bearer(scopeText)}, scopeText
	case "none":
		return []string{bearer("")}, ""
	case "basic":
		return []string{`Basic realm="registry"`}, ""
	case "both":
		scopeText = scopeTextOf(required)
		return []string{bearer(scopeText), `Basic realm="registry"`}, scopeText
	case "raw":
		return []string{h.RawHeader}, ""
	}
	return nil, ""
}

func (w *World) registry(h *HostSpec, req *http.Request, a *Arrival) *http.Response {
	a.Required = RequiredFor(req.Method, req.URL.Path)
	ok := false
	auth := a.Auth
	switch {
	case h.Accept == "never":
	case strings.HasPrefix(auth, "Bearer "):
		tok := auth[7:]
		if tok == StaticToken(h.Name) {
			ok = true
		} else if t, valid := DecodeToken(tok); valid {
			fresh := a.AtMs < t.IssuedMs+int64(t.TTL)*1000
			ok = fresh && t.Service == h.Service && t.Issuer == h.Realm && Subset(a.Required, ParseScopeText(t.Scope))
		}
	case strings.HasPrefix(auth, "Basic "):
		d, _ := base64.StdEncoding.DecodeString(auth[6:])
		ok = (h.Challenge == "basic" || h.Challenge == "both") && string(d) == Username(h.Name)+":"+Password(h.Name)
	}
	if ok {
		a.Status = 200
		return resp(req, 200, nil, "ok")
	}
	hdr := http.Header{}
	hs, text := w.challengeHeaders(h, a.Required)
	if strings.HasPrefix(auth, "Bearer ") {
		switch h.Retry401 {
		case "nohdr":
			hs, text = nil, ""
		case "negotiate":
			hs, text = []string{"Negotiate"}, ""
		case "malformed":
			hs, text = []string{`Bearer realm="unterminated`}, ""
		case "basic":
			hs, text = []string{`Basic realm="registry"`}, "" // a challenge the client can only meet with a password
		}
	}
	for _, x := range hs {
		hdr.Add("Www-Authenticate", x)
	}
	a.ChalText, a.ChalHdr = text, hs
	if h.ErrContentType != "" {
		hdr.Set("Content-Type", h.ErrContentType)
	}
	a.Status = 401
	r := resp(req, 401, hdr, `{"errors":[{"code":"UNAUTHORIZED","message":"authentication required"}]}`)
	if h.Body401DelayMs > 0 && !(h.Body401DelayOnce && w.slowSent[h.Name]) {
		w.slowSent[h.Name] = true
		r.Body = &slowBody{ReadCloser: r.Body, d: time.Duration(h.Body401DelayMs) * time.Millisecond}
	}
	return r
}

// slowBody delivers its content after a delay.
type slowBody struct {
	io.ReadCloser
	d time.Duration
}

func (b *slowBody) Read(p []byte) (int, error) {
	if b.d > 0 {
		time.Sleep(b.d)
		b.d = 0
	}
	return b.ReadCloser.Read(p)
}

func (w *World) tokenServer(hs []*HostSpec, req *http.Request, a *Arrival, body string) *http.Response {
	// which registry's service is this for?
	var form url.Values
	if req.Method == "POST" {
		form, _ = url.ParseQuery(body)
	} else {
		form = req.URL.Query()
	}
	service := form.Get("service")
	var h *HostSpec
	for _, x := range hs {
		if x.Service == service {
			h = x
		}
	}
	if h == nil {
		h = hs[0]
	}
	// GET (the docker token protocol): one scope parameter per resource scope. POST (OAuth2): the
	// scope is ONE space-separated field; like the reference server, only the first is read.
	scopeText := strings.Join(form["scope"], " ")
	if req.Method == "POST" {
		scopeText = form.Get("scope")
	}
	a.TokScope = scopeText
	if req.Method == "POST" && h.NoPost {
		a.Status = 404
		return resp(req, 404, nil, "no oauth2 here")
	}
	if strings.HasPrefix(h.TokenFault, "redirect:") {
		// "redirect:<status>:<host>": the realm sends the client elsewhere
		parts := strings.SplitN(h.TokenFault, ":", 3)
		fmt.Sscanf(parts[1], "%d", &a.Status)
		hdr := http.Header{}
		target := strings.ReplaceAll(parts[2], "REALM", strings.Split(req.URL.Host, ":")[0])
		if strings.HasPrefix(target, "plain-") {
			// the same host name over plaintext http: another endpoint than the https realm
			target = "http://" + strings.TrimPrefix(target, "plain-") + "/token"
		} else {
			target = "https://" + target + "/token"
		}
		hdr.Set("Location", target)
		return resp(req, a.Status, hdr, "")
	}
	if strings.HasPrefix(h.TokenFault, "status:") {
		fmt.Sscanf(h.TokenFault, "status:%d", &a.Status)
		return resp(req, a.Status, nil, `{"errors":[]}`)
	}
	// authenticate the client
	authed := h.Cred == "none"
	if req.Method == "POST" {
		authed = authed || form.Get("grant_type") == "refresh_token" && form.Get("refresh_token") == w.refresh[h.Name]
	} else if strings.HasPrefix(a.Auth, "Basic ") {
		d, _ := base64.StdEncoding.DecodeString(a.Auth[6:])
		authed = authed || string(d) == Username(h.Name)+":"+Password(h.Name)
	} else if h.Cred == "refresh" && req.Method == "GET" {
		authed = true // anonymous GET after a failed POST: grant like an anonymous client
	}
	want := ParseScopeText(scopeText)
	if h.Refuse {
		if allowed, ok := w.Allowed[h.Name]; ok && !Subset(want, allowed) {
			a.Status = 401
			return resp(req, 401, nil, `{"errors":[{"code":"UNAUTHORIZED","message":"requested scope too wide"}]}`)
		}
	}
	if !authed {
		a.Status = 401
		return resp(req, 401, nil, `{"errors":[{"code":"UNAUTHORIZED","message":"bad credentials"}]}`)
	}
	switch h.TokenFault {
	case "badjson":
		a.Status = 200
		return resp(req, 200, nil, `{"token": "abc`)
	case "emptyjson":
		a.Status = 200
		return resp(req, 200, nil, ``)
	case "notoken":
		a.Status = 200
		return resp(req, 200, nil, `{"expires_in": 60}`)
	}
	w.nTokens++
	rawTTL := h.TTL
	if len(h.TTLSeq) > 0 {
		rawTTL = h.TTLSeq[w.perHost[h.Name]%len(h.TTLSeq)]
		w.perHost[h.Name]++
	}
	ttl := rawTTL
	if ttl <= 0 {
		ttl = 60
	}
	t := Token{N: w.nTokens, Issuer: req.URL.Host, Service: service, Scope: scopeText, IssuedMs: a.AtMs, TTL: ttl, ForHost: h.Name}
	out := map[string]any{}
	if h.IssuedAgoMs > 0 && h.IssuedAgoMs < ttl*1000 {
		t.IssuedMs -= int64(h.IssuedAgoMs)
		out["issued_at"] = w.Start.Add(time.Duration(t.IssuedMs) * time.Millisecond).UTC().Format(time.RFC3339Nano)
	}
	if h.ClockAheadMs > 0 && h.IssuedAgoMs == 0 {
		// the token server's clock is ahead of the client's: the token says it was issued at a moment
		// that the client has not reached yet; it expires expires_in after it was handed out all the same
		out["issued_at"] = w.Start.Add(time.Duration(a.AtMs+int64(h.ClockAheadMs)) * time.Millisecond).UTC().Format(time.RFC3339Nano)
	}
	if ia, ok := out["issued_at"].(string); ok && h.IssuedAtLower {
		out["issued_at"] = strings.ToLower(ia)
	}
	a.Minted = &t
	if h.TokenFault == "accessfield" {
		out["access_token"] = t.Encode()
	} else {
		out["token"] = t.Encode()
	}
	if rawTTL >= 0 {
		out["expires_in"] = rawTTL
	}
	if h.Rotate && req.Method == "POST" {
		w.refresh[h.Name] = fmt.Sprintf("RT-%s-rt%d", hex(h.Name), w.nTokens)
		out["refresh_token"] = w.refresh[h.Name]
	}
	b, _ := json.Marshal(out)
	a.Status = 200
	return resp(req, 200, nil, string(b))
}

// CurrentRefresh returns every refresh token value ever valid for host (prefix match is enough: they share a unique stem).
func RefreshStem(host string) string { return "RT-" + hex(host) + "-rt" }
