// Package c10 decides property C10: the auth transport only uses tokens that
// are sufficient, fresh and its own, reuses cached tokens without extra round
// trips, and asks token servers for the right scope. Time is virtual
// (testing/synctest).
package c10

import (
	"context"
	"fmt"
	"io"
	"net/http"
	"strings"
	"sync"
	"testing"
	"testing/synctest"
	"time"

	"cuelabs.dev/go/oci/ociregistry/ociauth"
	"pgregory.net/rapid"

	"verif/harness/vt"
	aw "verif/harness26/authworld"
)

func TestMain(m *testing.M) { vt.Main(m) }

type Req struct {
	Host    int    `json:"host"`
	Method  string `json:"method"`
	Repo    string `json:"repo"`
	Both    bool   `json:"both,omitempty"` // needs pull and push
	Desired string `json:"desired,omitempty"`
	SleepMs int    `json:"sleep_ms"`
	Batch   int    `json:"batch,omitempty"`    // requests with the same non-zero batch id run concurrently
	StartMs int    `json:"start_ms,omitempty"` // within a batch: the request starts this long after the batch
}

type Script struct {
	Hosts []aw.HostSpec `json:"hosts"`
	Reqs  []Req         `json:"reqs"`
}

type config struct{ hosts map[string]*aw.HostSpec }

func (c config) EntryForRegistry(host string) (ociauth.ConfigEntry, error) {
	h := c.hosts[host]
	if h == nil {
		return ociauth.ConfigEntry{}, nil
	}
	switch h.Cred {
	case "basic":
		return ociauth.ConfigEntry{Username: aw.Username(host), Password: aw.Password(host)}, nil
	case "refresh":
		return ociauth.ConfigEntry{RefreshToken: aw.RefreshToken(host)}, nil
	case "static":
		return ociauth.ConfigEntry{AccessToken: aw.StaticToken(host)}, nil
	case "configerr":
		return ociauth.ConfigEntry{}, fmt.Errorf("credential helper exploded")
	}
	return ociauth.ConfigEntry{}, nil
}

var testingT *testing.T

type minted struct {
	tok      aw.Token
	expiryMs int64
}

func run(s Script, v *vt.V) {
	synctest.Test(testingT, func(t *testing.T) {
		hosts := append([]aw.HostSpec{}, s.Hosts...)
		w := aw.New(hosts)
		for _, h := range hosts {
			w.Allowed[h.Name] = aw.ParseScopeText("repository:foo:pull,push repository:bar:pull repository:extra/repo:pull repository:unrelated:pull")
		}
		tr := ociauth.NewStdTransport(ociauth.StdTransportParams{Config: config{w.Hosts}, Transport: w})
		cache := map[string][]minted{} // per registry host: tokens the transport has been given
		reuses, expiries, refreshes := 0, 0, 0
		nowMs := func() int64 { return time.Since(w.Start).Milliseconds() }

		doOne := func(i int, rq Req) (resp *http.Response, err error) {
			h := hosts[rq.Host]
			path := "/v2/" + rq.Repo + "/x"
			if rq.Both {
				path = "/v2/" + rq.Repo + "/both"
			}
			required := aw.RequiredFor(rq.Method, path)
			ctx := ociauth.ContextWithRequestInfo(context.Background(), ociauth.RequestInfo{RequiredScope: ociauth.ParseScope(aw.SetString(required))})
			if rq.Desired != "" {
				ctx = ociauth.ContextWithScope(ctx, ociauth.ParseScope(rq.Desired))
			}
			req, _ := http.NewRequestWithContext(ctx, rq.Method, "https://"+h.Name+path, nil)
			req.Header.Set("X-Call", fmt.Sprint(i))
			resp, err = tr.RoundTrip(req)
			if resp != nil {
				io.Copy(io.Discard, resp.Body)
				resp.Body.Close()
			}
			return resp, err
		}

		for i := 0; i < len(s.Reqs); i++ {
			rq := s.Reqs[i]
			time.Sleep(time.Duration(rq.SleepMs) * time.Millisecond)
			// a concurrent batch: only order-independent invariants are checked for it
			if rq.Batch != 0 {
				j := i
				for j < len(s.Reqs) && s.Reqs[j].Batch == rq.Batch {
					j++
				}
				start := len(w.Log)
				var wg sync.WaitGroup
				for k := i; k < j; k++ {
					wg.Add(1)
					go func(k int) {
						defer wg.Done()
						time.Sleep(time.Duration(s.Reqs[k].StartMs) * time.Millisecond)
						doOne(k, s.Reqs[k])
					}(k)
				}
				wg.Wait()
				if !checkArrivals(w, hosts, w.Log[start:], cache, v, fmt.Sprintf("concurrent batch %d", rq.Batch), false) {
					return
				}
				v.Class("concurrent-batch")
				i = j - 1
				continue
			}
			h := hosts[rq.Host]
			path := "/v2/" + rq.Repo + "/x"
			if rq.Both {
				path = "/v2/" + rq.Repo + "/both"
			}
			required := aw.RequiredFor(rq.Method, path)
			// what the cache can do for this request
			var covering, marginal bool
			for _, m := range cache[h.Name] {
				if aw.Subset(required, aw.ParseScopeText(m.tok.Scope)) {
					left := m.expiryMs - nowMs()
					if left >= 1000 {
						covering = true
					} else if left > 0 {
						marginal = true
					}
				}
			}
			if h.Cred == "static" {
				covering = true
			}
			for _, m := range cache[h.Name] {
				if m.expiryMs <= nowMs() {
					expiries++
					break
				}
			}
			start := len(w.Log)
			resp, err := doOne(i, rq)
			log := w.Log[start:]
			desc := fmt.Sprintf("request %d %+v to %s (cred %s, challenge %s, ttl %d) at t=%dms", i, rq, h.Name, h.Cred, h.Challenge, h.TTL, nowMs())
			nreg, ntok := 0, 0
			for _, a := range log {
				switch a.Kind {
				case "registry":
					nreg++
				case "token":
					ntok++
				}
			}
			if covering && h.Accept != "never" {
				reuses++
				if nreg != 1 || ntok != 0 {
					v.Failf("cache-not-used", "%s: a cached unexpired token covers the required scope, but the call made %d registry and %d token requests", desc, nreg, ntok)
					return
				}
				if err != nil || resp.StatusCode != 200 {
					v.Failf("cache-not-used", "%s: a cached token covers the request but the call ended with %v / %v", desc, resp, err)
					return
				}
			}
			_ = marginal
			if ntok > 0 {
				refreshes++
			}
			if !checkArrivals(w, hosts, log, cache, v, desc, true) {
				return
			}
			// token-request scope law
			desired := aw.ParseScopeText(rq.Desired)
			var chal map[aw.Triple]bool
			chalText := ""
			sawChallenge := false
			firstTok := true
			for _, a := range log {
				switch a.Kind {
				case "registry":
					if a.Status == 401 && len(a.ChalHdr) > 0 && strings.HasPrefix(a.ChalHdr[0], "Bearer") {
						chal, chalText, sawChallenge = aw.ParseScopeText(a.ChalText), a.ChalText, true
					}
				case "token":
					asked := aw.ParseScopeText(a.TokScope)
					want := map[aw.Triple]bool{}
					for x := range required {
						want[x] = true
					}
					for x := range desired {
						want[x] = true
					}
					narrow := required
					if sawChallenge {
						for x := range chal {
							want[x] = true
						}
						narrow = chal
					}
					okWide := aw.SetString(asked) == aw.SetString(want)
					okNarrow := aw.SetString(asked) == aw.SetString(narrow)
					if firstTok && !okWide && !(a.Method == "GET" && okNarrow) {
						v.Failf("token-scope", "%s: token request asks for %q, want challenge+required+desired = %q", desc, a.TokScope, aw.SetString(want))
						return
					}
					if !firstTok && !okWide && !okNarrow {
						v.Failf("token-scope", "%s: follow-up token request asks for %q, want %q or (after a refusal) %q", desc, a.TokScope, aw.SetString(want), aw.SetString(narrow))
						return
					}
					if sawChallenge && okWide && aw.Subset(want, chal) && a.TokScope != chalText {
						v.Failf("token-scope-text", "%s: the union adds nothing to the challenge scope %q but the token request says %q", desc, chalText, a.TokScope)
						return
					}
					if a.Status != 404 {
						firstTok = false
					}
				}
			}
		}
		v.Class("reuses=%d/expiries=%d/refreshes=%d", min(reuses, 2), min(expiries, 1), min(refreshes, 2))
		if reuses > 0 || expiries > 0 {
			v.NonTrivial(fmt.Sprintf("%+v", s))
		}
	})
}

// checkArrivals checks the per-token invariants on a slice of the log and
// records newly minted tokens in the cache model.
func checkArrivals(w *aw.World, hosts []aw.HostSpec, log []*aw.Arrival, cache map[string][]minted, v *vt.V, desc string, sequential bool) bool {
	tokenRequests := 0
	var lastChal map[aw.Triple]bool
	var regHost string
	for _, a := range log {
		if a.Kind == "registry" {
			regHost = a.Host
			break
		}
	}
	for _, a := range log {
		switch a.Kind {
		case "token":
			tokenRequests++
			if a.Minted != nil {
				host := a.Minted.ForHost
				if sequential && regHost != "" {
					host = regHost
				}
				cache[host] = append(cache[host], minted{*a.Minted, a.Minted.IssuedMs + int64(a.Minted.TTL)*1000})
			}
		case "registry":
			spec := w.Hosts[a.Host]
			if a.Status == 401 && len(a.ChalHdr) > 0 && strings.HasPrefix(a.ChalHdr[0], "Bearer") {
				lastChal = aw.ParseScopeText(a.ChalText)
			}
			if !strings.HasPrefix(a.Auth, "Bearer ") {
				continue
			}
			tok := a.Auth[7:]
			if tok == aw.StaticToken(a.Host) {
				continue
			}
			t, ok := aw.DecodeToken(tok)
			if !ok {
				v.Failf("foreign-token", "%s: %s was sent a bearer token the world never issued: %q", desc, a.Host, tok)
				return false
			}
			if t.Issuer != spec.Realm || t.Service != spec.Service || t.ForHost != a.Host {
				v.Failf("foreign-token", "%s: %s was sent a token issued by %s for service %q (host %s)", desc, a.Host, t.Issuer, t.Service, t.ForHost)
				return false
			}
			if a.AtMs >= t.IssuedMs+int64(t.TTL)*1000 {
				v.Failf("expired-token", "%s: %s was sent a token at t=%dms that expired at t=%dms", desc, a.Host, a.AtMs, t.IssuedMs+int64(t.TTL)*1000)
				return false
			}
			scope := aw.ParseScopeText(t.Scope)
			if !sequential {
				// whatever else is in flight: a request that was challenged is retried with a token
				// that answers the challenge it was given (not one given to another request)
				for _, b := range log {
					if b.Seq < a.Seq && b.Kind == "registry" && b.Call == a.Call && b.Host == a.Host && b.Status == 401 && b.Auth == "" &&
						len(b.ChalHdr) > 0 && strings.HasPrefix(b.ChalHdr[0], "Bearer") && b.ChalText != "" && !aw.Subset(aw.ParseScopeText(b.ChalText), scope) {
						v.Failf("retry-token-misses-challenge", "%s: call %d to %s was challenged for %q and came back with a token whose scope is %q", desc, a.Call, a.Host, b.ChalText, t.Scope)
						return false
					}
				}
			}
			if sequential {
				mintedThisCall := false
				for _, b := range log {
					if b.Kind == "token" && b.Minted != nil && b.Minted.N == t.N {
						mintedThisCall = true
					}
				}
				if !mintedThisCall && !aw.Subset(a.Required, scope) {
					v.Failf("insufficient-token-reused", "%s: a cached token with scope %q was sent for a request that needs %q", desc, t.Scope, aw.SetString(a.Required))
					return false
				}
				if mintedThisCall && lastChal != nil && !aw.Subset(lastChal, scope) {
					v.Failf("fresh-token-misses-challenge", "%s: the token acquired in answer to the challenge %q has scope %q", desc, aw.SetString(lastChal), t.Scope)
					return false
				}
			}
		}
	}
	return true
}

var repos = []string{"foo", "bar"}

func genScript(t *rapid.T) Script {
	var s Script
	names := []string{"reg1.test", "reg1.test:5001", "reg2.test"}
	if rapid.IntRange(0, 3).Draw(t, "portFamily") == 0 {
		// one machine, three registries: the ports differ in digits that also occur in 443 and 80
		names = []string{"reg1.test:4443", "reg1.test:3443", "reg1.test:8080"}
	}
	nh := rapid.IntRange(1, 3).Draw(t, "nhosts")
	for i := 0; i < nh; i++ {
		h := aw.HostSpec{Name: names[i], Service: fmt.Sprintf("svc%d", i), Realm: rapid.SampledFrom([]string{"auth.test", "auth.test", fmt.Sprintf("auth%d.test", i)}).Draw(t, "realm")}
		h.Cred = rapid.SampledFrom([]string{"none", "basic", "basic", "refresh", "refresh", "static"}).Draw(t, "cred")
		h.Challenge = rapid.SampledFrom([]string{"exact", "exact", "exact", "superset", "unrelated", "none"}).Draw(t, "challenge")
		h.TTL = rapid.SampledFrom([]int{-1, 0, 1, 2, 3, 3, 300}).Draw(t, "ttl")
		if rapid.IntRange(0, 2).Draw(t, "mixedLifetimes") == 0 {
			h.TTLSeq = rapid.SampledFrom([][]int{{300, 1}, {3, 1}, {300, 2, 1}, {-1, 1}, {2, 300}}).Draw(t, "ttlSeq")
		}
		h.IssuedAgoMs = rapid.SampledFrom([]int{0, 0, 0, 400, 1500, 2500, 100000}).Draw(t, "issuedAgoMs")
		h.ScopeParam = rapid.SampledFrom([]string{"", "", "", "Scope", "SCOPE"}).Draw(t, "scopeParam")
		h.ScopeSpelling = rapid.SampledFrom([]int{0, 0, 1, 1, 2}).Draw(t, "scopeSpelling")
		h.IssuedAtLower = rapid.IntRange(0, 3).Draw(t, "issuedAtLower") == 0
		if h.IssuedAgoMs == 0 {
			h.ClockAheadMs = rapid.SampledFrom([]int{0, 0, 700, 2500, 100000}).Draw(t, "clockAheadMs")
		}
		h.Refuse = rapid.IntRange(0, 2).Draw(t, "refuse") == 0
		if rapid.IntRange(0, 3).Draw(t, "slow401") == 0 {
			h.Body401DelayMs = rapid.SampledFrom([]int{3, 10, 10, 1200, 2500}).Draw(t, "body401DelayMs")
			h.Body401DelayOnce = rapid.Bool().Draw(t, "body401DelayOnce")
		}
		h.NoPost = rapid.IntRange(0, 2).Draw(t, "noPost") == 0
		h.Rotate = rapid.IntRange(0, 3).Draw(t, "rotate") == 0
		if rapid.IntRange(0, 9).Draw(t, "accessField") == 0 {
			h.TokenFault = "accessfield"
		}
		s.Hosts = append(s.Hosts, h)
	}
	n := rapid.IntRange(1, 10).Draw(t, "nreqs")
	batch := 0
	for i := 0; i < n; i++ {
		r := Req{Host: rapid.IntRange(0, nh-1).Draw(t, "host"), Repo: rapid.SampledFrom(repos).Draw(t, "repo")}
		r.Method = rapid.SampledFrom([]string{"GET", "GET", "PUT"}).Draw(t, "method")
		r.Both = rapid.IntRange(0, 4).Draw(t, "both") == 0
		r.Desired = rapid.SampledFrom([]string{"", "", "repository:bar:pull", "repository:foo:pull,push", "repository:foo:push repository:bar:pull", "repository:bar:push", "registry:catalog:*"}).Draw(t, "desired")
		r.SleepMs = rapid.SampledFrom([]int{0, 0, 500, 1000, 1500, 2500, 61000, 57000, 58200, 59300}).Draw(t, "sleep")
		if batch == 0 && rapid.IntRange(0, 7).Draw(t, "startBatch") == 0 {
			batch = i + 1
		}
		if batch != 0 {
			r.Batch = batch
			r.SleepMs = 0
			r.StartMs = rapid.SampledFrom([]int{0, 0, 2, 5, 8, 12}).Draw(t, "startMs")
			if rapid.IntRange(0, 2).Draw(t, "endBatch") == 0 {
				batch = 0
			}
		}
		s.Reqs = append(s.Reqs, r)
	}
	return s
}

var prop *vt.Prop[Script]

func init() {
	prop = &vt.Prop[Script]{
		ID:   "C10",
		Name: "TokensSufficientFreshOwn",
		Rule: "1-3 registry hosts (incl. two that differ only in port) with credential kind {none, basic, refresh token, static access token}, challenge scope {exactly required, superset, unrelated, none}, spelled in canonical form, in descending order or with a group repeated, under the parameter name scope / Scope / SCOPE, token lifetimes {absent, 0, 1, 2, 3, 300 s} or a sequence of mixed lifetimes per host, token servers that hand out tokens issued 0.4-100 s earlier and say so in issued_at (expires_in counts from there; a quarter spell the timestamp with RFC 3339's lower-case t and z) or whose clock is 0.7-100 s ahead of the client's (issued_at in the client's future; the token lives expires_in from its receipt), token servers that grant / refuse over-wide requests with 401 / lack the POST endpoint / rotate refresh tokens / answer with the access_token field; timelines of 1-10 requests (GET/PUT on two repositories, pull+push requirements, desired scopes from a small lattice) separated by virtual sleeps {0, 0.5, 1, 1.5, 2.5, 61 s}, with optional concurrent batches whose members start 0-12 ms apart while a quarter of the registries take 3-10 ms - some 1.2 or 2.5 s, longer than a short-lived token lives - to deliver the body of a 401 (every 401, or only the first one) (so that challenges to different requests overlap: each challenged request comes back with a token that answers its own challenge); executed in a synctest bubble against an in-memory world that mints self-describing tokens and logs every arrival with the virtual time; oracle over the log: every bearer token presented to a host was issued for that host's service by the realm it named (or is its static token), is unexpired at arrival, covers the required scope when reused from cache and the challenge scope when acquired in this call; a cached token with >= 1 s left that covers the request => exactly one registry request and no token request; token requests ask for challenge+required+desired (the challenge scope alone after a refusal), with the challenge's own text when the union adds nothing; non-trivial = at least one cache reuse or one expiry; distinct = the script",
		Gen:  genScript,
		Run:  run,
	}
}

func TestPropTokens(t *testing.T) {
	testingT = t
	vt.Check(t, prop)
}

func TestReplay(t *testing.T) {
	testingT = t
	vt.Register(prop)
	vt.Replay(t)
}
