// Package c11 decides property C11: credentials stay confined and the auth
// flow is bounded and non-intrusive.
package c11

import (
	"bytes"
	"context"
	"encoding/json"
	"fmt"
	"io"
	"net/http"
	"strings"
	"testing"
	"testing/synctest"
	"time"

	"cuelabs.dev/go/oci/ociregistry/ociauth"
	"pgregory.net/rapid"

	"verif/harness/vt"
	aw "verif/harness26/authworld"
)

func TestMain(m *testing.M) { vt.Main(m) }

type Req struct {
	Host    int    `json:"host"`
	Method  string `json:"method"`
	Repo    string `json:"repo"`
	Body    string `json:"body"` // "" none | "plain" (no GetBody) | "rewindable"
	Desired string `json:"desired,omitempty"`
	SleepMs int    `json:"sleep_ms,omitempty"`
	// Plain: the request goes to the plaintext (http) endpoint of the host name: another endpoint
	// than the https one, which has to issue its own challenge before it is sent a password
	Plain bool `json:"plain,omitempty"`
	// HostHeader > 0: the request's Host field (the Host header) names host HostHeader-1 although the
	// URL - where the request goes - names Host: what is sent must depend on where it goes
	HostHeader int `json:"host_header,omitempty"`
}

type Script struct {
	Hosts []aw.HostSpec `json:"hosts"`
	Reqs  []Req         `json:"reqs"`
}

type config struct{ hosts map[string]*aw.HostSpec }

func (c config) EntryForRegistry(host string) (ociauth.ConfigEntry, error) {
	h := c.hosts[host]
	if h == nil {
		return ociauth.ConfigEntry{}, nil
	}
	switch h.Cred {
	case "basic":
		return ociauth.ConfigEntry{Username: aw.Username(host), Password: aw.Password(host)}, nil
	case "refresh":
		return ociauth.ConfigEntry{RefreshToken: aw.RefreshToken(host)}, nil
	case "refresh+basic":
		return ociauth.ConfigEntry{RefreshToken: aw.RefreshToken(host), Username: aw.Username(host), Password: aw.Password(host)}, nil
	case "static":
		return ociauth.ConfigEntry{AccessToken: aw.StaticToken(host)}, nil
	case "configerr":
		return ociauth.ConfigEntry{}, fmt.Errorf("credential helper exploded")
	}
	return ociauth.ConfigEntry{}, nil
}

type trackedBody struct {
	r      *bytes.Reader
	closed int
	reads  int
}

func (b *trackedBody) Read(p []byte) (int, error) { b.reads++; return b.r.Read(p) }
func (b *trackedBody) Close() error               { b.closed++; return nil }

var testingT *testing.T

func run(s Script, v *vt.V) {
	synctest.Test(testingT, func(t *testing.T) {
		hosts := append([]aw.HostSpec{}, s.Hosts...)
		w := aw.New(hosts)
		for _, h := range hosts {
			w.Allowed[h.Name] = aw.ParseScopeText("repository:foo:pull,push repository:bar:pull")
		}
		tr := ociauth.NewStdTransport(ociauth.StdTransportParams{Config: config{w.Hosts}, Transport: w})
		// what each registry host has said so far in challenges
		said := map[string][]string{}
		basicChallenged := map[string]bool{}
		tokensOf := map[string][]string{} // minted token strings per registry host
		challenges, credUses := 0, 0
		for i, rq := range s.Reqs {
			time.Sleep(time.Duration(rq.SleepMs) * time.Millisecond)
			h := hosts[rq.Host]
			path := "/v2/" + rq.Repo + "/x"
			required := aw.RequiredFor(rq.Method, path)
			ctx := ociauth.ContextWithRequestInfo(context.Background(), ociauth.RequestInfo{RequiredScope: ociauth.ParseScope(aw.SetString(required))})
			if rq.Desired != "" {
				ctx = ociauth.ContextWithScope(ctx, ociauth.ParseScope(rq.Desired))
			}
			var body io.ReadCloser
			var tb *trackedBody
			content := []byte("request body content")
			if rq.Body != "" {
				tb = &trackedBody{r: bytes.NewReader(content)}
				body = tb
			}
			scheme := "https://"
			if rq.Plain {
				scheme = "http://"
			}
			req, _ := http.NewRequestWithContext(ctx, rq.Method, scheme+h.Name+path, nil)
			if rq.HostHeader > 0 && rq.HostHeader <= len(hosts) {
				req.Host = hosts[rq.HostHeader-1].Name
			}
			var rewinds []*trackedBody
			if body != nil {
				req.Body = body
				req.ContentLength = int64(len(content))
				if rq.Body == "rewindable" {
					req.GetBody = func() (io.ReadCloser, error) {
						nb := &trackedBody{r: bytes.NewReader(content)}
						rewinds = append(rewinds, nb)
						return nb, nil
					}
				}
			}
			req.Header.Set("X-Call", fmt.Sprint(i))
			req.Header.Set("X-Caller-Header", "keep me")
			// snapshot of the caller's request
			snapMethod, snapURL, snapHdr, snapCL, snapBody := req.Method, req.URL.String(), req.Header.Clone(), req.ContentLength, req.Body
			snapHasGetBody := req.GetBody != nil
			start := len(w.Log)
			resp, err := tr.RoundTrip(req)
			log := w.Log[start:]
			desc := fmt.Sprintf("request %d %+v to %s (cred %s, challenge %s %q, token fault %q, noPost %v, accept %q)", i, rq, h.Name, h.Cred, h.Challenge, h.RawHeader, h.TokenFault, h.NoPost, h.Accept)
			var respBody []byte
			if resp != nil {
				respBody, _ = io.ReadAll(resp.Body)
				resp.Body.Close()
			}
			// (3) the caller's request is untouched
			if req.Method != snapMethod || req.URL.String() != snapURL || req.ContentLength != snapCL || req.Body != snapBody || (req.GetBody != nil) != snapHasGetBody {
				v.Failf("request-modified", "%s: the caller's request was modified (method/URL/ContentLength/Body)", desc)
				return
			}
			if fmt.Sprint(req.Header) != fmt.Sprint(snapHdr) {
				v.Failf("request-modified", "%s: the caller's request headers were modified: %v, were %v", desc, req.Header, snapHdr)
				return
			}
			// (4) the body is closed on every path
			if tb != nil && tb.closed == 0 {
				v.Failf("body-not-closed", "%s: the request body was not closed (err=%v, status=%v)", desc, err, status(resp))
				return
			}
			for _, rb := range rewinds {
				if rb.closed == 0 {
					v.Failf("body-not-closed", "%s: a body obtained from GetBody was not closed", desc)
					return
				}
			}
			// (2) bounded
			nreg, ntok, minted := 0, 0, false
			lastRegStatus := 0
			var mintedNow []string
			for _, a := range log {
				switch a.Kind {
				case "registry":
					nreg++
					lastRegStatus = a.Status
					// (a 401 answered to a token issued in this very call: on the retry, or on the
					// first attempt when the token was acquired up front from a remembered challenge)
					minted = false
					for _, tok := range mintedNow {
						if a.Auth == "Bearer "+tok {
							minted = true
						}
					}
				case "token":
					ntok++
					if a.Minted != nil {
						mintedNow = append(mintedNow, a.Minted.Encode())
						tokensOf[h.Name] = append(tokensOf[h.Name], a.Minted.Encode())
					}
				}
			}
			maxTok := 8
			selfRedirect := false
			for _, hx := range hosts {
				// (which host's token-server behaviour applies is decided by the service the client names)
				selfRedirect = selfRedirect || strings.HasPrefix(hx.TokenFault, "redirect:") && strings.HasSuffix(hx.TokenFault, ":REALM")
			}
			if selfRedirect {
				maxTok = 8 * 11 // a realm that redirects to itself: each token request is followed a bounded number of times (net/http's own limit is 10)
			}
			if nreg > 2 || ntok > maxTok { // two acquisitions (before the request, after the challenge) x (wide, narrow) x (POST, GET fallback)
				v.Failf("unbounded", "%s: one call made %d registry requests and %d token requests", desc, nreg, ntok)
				return
			}
			if h.Cred == "configerr" {
				if err == nil {
					v.Failf("config-error-ignored", "%s: the configuration lookup fails but RoundTrip returned %v", desc, status(resp))
					return
				}
				if nreg+ntok != 0 {
					v.Failf("config-error-ignored", "%s: requests were sent although the configuration lookup failed", desc)
					return
				}
			}
			if lastRegStatus == 401 && minted && err == nil {
				var we struct {
					Errors []struct{ Code string } `json:"errors"`
				}
				if ct := resp.Header.Values("Content-Type"); resp.StatusCode == 403 && (len(ct) != 1 || !strings.HasPrefix(ct[0], "application/json")) {
					v.Failf("401-after-fresh-token", "%s: the 403 that stands for the refused fresh token carries Content-Type %q; its body is a JSON error document and must be declared as such (the registry's 401 said %q)", desc, ct, h.ErrContentType)
					return
				}
				if resp.StatusCode != 403 || json.Unmarshal(respBody, &we) != nil || len(we.Errors) == 0 || we.Errors[0].Code != "DENIED" {
					v.Failf("401-after-fresh-token", "%s: the registry answered 401 to a freshly issued token; the caller got status %d body %.100q, want 403 DENIED", desc, resp.StatusCode, respBody)
					return
				}
				v.Class("401-after-fresh-token")
			}
			// (1) confinement
			for li, a := range log {
				for _, o := range hosts {
					owner := o.Name
					named := func(dest string) bool {
						for _, c := range said[owner] {
							if strings.Contains(c, dest) {
								return true
							}
						}
						return false
					}
					if strings.Contains(a.Raw, aw.Password(owner)) {
						credUses++
						switch {
						case a.Kind != "registry" && named(a.Scheme+"://"+a.Host+"/"): // a realm its own registry named (whatever is listening there)
						case a.Kind == "registry" && a.Host == owner && basicChallenged[a.Scheme+"://"+a.Host]:
						default:
							why := "a destination it may not go to"
							if a.Kind == "registry" && a.Host == owner {
								why = "its registry, which has not issued a Basic challenge"
								if li == 0 && len(said[owner]) == 0 {
									why = "its registry on a first, unchallenged request"
								}
							}
							v.Failf("password-leak", "%s: the password of %s was sent to %s %s (%s): %.200q", desc, owner, a.Kind, a.Host, why, a.Raw)
							return
						}
					}
					if strings.Contains(a.Raw, aw.RefreshStem(owner)) {
						credUses++
						if !(a.Kind != "registry" && named(a.Scheme+"://"+a.Host+"/")) {
							v.Failf("refresh-token-leak", "%s: the refresh token of %s was sent to %s %s, which is not a token realm it named", desc, owner, a.Kind, a.Host)
							return
						}
					}
					for _, tok := range append([]string{aw.StaticToken(owner)}, tokensOf[owner]...) {
						if strings.Contains(a.Raw, tok) && !(a.Kind == "registry" && a.Host == owner) {
							v.Failf("token-leak", "%s: an access token belonging to %s was sent to %s %s", desc, owner, a.Kind, a.Host)
							return
						}
					}
				}
				// record what this response taught the client
				if a.Kind == "registry" && a.Status == 401 {
					challenges++
					said[a.Host] = append(said[a.Host], a.ChalHdr...)
					for _, c := range a.ChalHdr {
						if strings.Contains(c, `\`) {
							// what a quoted string with quoted-pairs says (RFC 7230: a backslash stands
							// for nothing but "take the next character as it is")
							said[a.Host] = append(said[a.Host], quotedPairs(c))
						}
					}
					for _, c := range a.ChalHdr {
						if refScheme(c) == "basic" {
							basicChallenged[a.Scheme+"://"+a.Host] = true
						}
					}
				}
			}
		}
		v.Class("challenges=%d/cred-uses=%d", min(challenges, 2), min(credUses, 2))
		if challenges > 0 && credUses > 0 {
			v.NonTrivial(fmt.Sprintf("%+v", s))
		}
	})
}

func status(r *http.Response) any {
	if r == nil {
		return nil
	}
	return r.StatusCode
}

// refScheme is a reference reading of the first auth-scheme of a header value (RFC 7235 token, case-insensitive).
func refScheme(h string) string {
	i := 0
	for i < len(h) && h[i] > 32 && h[i] < 127 && !strings.ContainsRune("\"(),/:;<=>?@[]\\{}", rune(h[i])) {
		i++
	}
	return strings.ToLower(h[:i])
}

var rawHeaders = []string{
	`Bearer realm="https://REALM/token",service="SVC",scope="repository:foo:pull"`,
	`bearer realm="https://REALM/token", service="SVC"`,
	`BEARER realm=https://REALM/token`,
	`Bearer realm="https://REALM/token",service="a \"quoted\" \\ name",scope="repository:foo:pull"`,
	`Bearer realm="https://REALM/token`,
	`Bearer realm`,
	`Bearer =x`,
	`Bearer`,
	`Basic realm="x"`,
	`basic`,
	`Basic realm="x", charset="UTF-8"`,
	`Negotiate`,
	`NTLM`,
	`Digest realm="x", nonce="abc", qop="auth"`,
	`Negotiate, Bearer realm="https://REALM/token",service="SVC"`,
	`Basic realm="x", Bearer realm="https://REALM/token",service="SVC"`,
	`Bearer realm="https://REALM/token",service="SVC", Basic realm="x"`,
	``,
	`,`,
	`"quoted"`,
	"Bearer realm=\"https://REALM/token\",service=\"\xe9\xff\"",
	`Bearer realm="https://OTHERREG/token",service="SVC"`,
	`Bearer realm="http://[::1",service="SVC"`,
	`Bearer realm="",service="SVC"`,
	`Custom realm="https://REALM/token"`,
	`Bearer realm="https://REALM\x2eevil.test/token",service="SVC"`,
	`Bearer realm="https://REALM\u002eevil.test/token",service="SVC"`,
	`Bearer realm="https:\/\/REALM\/token",service="SVC"`,
	`Bearer realm="https://REALM/token\",service="SVC"`,
	`Bearer realm="https://REALM/token",service="SVC",scope="` + strings.Repeat("repository:foo:pull ", 50) + `"`,
}

// quotedPairs drops every backslash that introduces a quoted-pair and keeps the character after it.
func quotedPairs(s string) string {
	var b strings.Builder
	for i := 0; i < len(s); i++ {
		if s[i] == '\\' && i+1 < len(s) {
			i++
		}
		b.WriteByte(s[i])
	}
	return b.String()
}

func genScript(t *rapid.T) Script {
	var s Script
	names := []string{"reg1.test", "reg1.test:5001", "reg2.test"}
	if rapid.IntRange(0, 3).Draw(t, "portFamily") == 0 {
		// one machine, three registries: the ports differ in digits that also occur in 443 and 80
		names = []string{"reg1.test:4443", "reg1.test:3443", "reg1.test:8080"}
	}
	nh := rapid.IntRange(2, 3).Draw(t, "nhosts")
	if rapid.IntRange(0, 3).Draw(t, "adjacentName") == 0 {
		// a host whose plaintext URL spells like the first host's https URL when the "://" is left out
		names[2] = "sreg1.test"
		nh = 3
	}
	for i := 0; i < nh; i++ {
		h := aw.HostSpec{Name: names[i], Service: fmt.Sprintf("svc%d", i)}
		h.Realm = rapid.SampledFrom([]string{"auth.test", fmt.Sprintf("auth%d.test", i), names[(i+1)%nh]}).Draw(t, "realm")
		h.Cred = rapid.SampledFrom([]string{"none", "basic", "basic", "refresh", "refresh+basic", "static", "configerr"}).Draw(t, "cred")
		h.Challenge = rapid.SampledFrom([]string{"exact", "exact", "basic", "both", "none", "unrelated", "raw", "raw"}).Draw(t, "challenge")
		if h.Challenge == "raw" {
			raw := rapid.SampledFrom(rawHeaders).Draw(t, "raw")
			raw = strings.ReplaceAll(raw, "REALM", h.Realm)
			raw = strings.ReplaceAll(raw, "OTHERREG", names[(i+1)%nh])
			h.RawHeader = strings.ReplaceAll(raw, "SVC", h.Service)
		}
		h.TTL = rapid.SampledFrom([]int{-1, 1, 3, 300}).Draw(t, "ttl")
		h.NoPost = rapid.IntRange(0, 2).Draw(t, "noPost") == 0
		h.Refuse = rapid.IntRange(0, 3).Draw(t, "refuse") == 0
		if rapid.IntRange(0, 2).Draw(t, "tokenFault") == 0 {
			h.TokenFault = rapid.SampledFrom([]string{"status:300", "status:301", "status:400", "status:401", "status:403", "status:404", "status:418", "status:500", "status:503", "status:599", "badjson", "emptyjson", "notoken", "accessfield",
				"redirect:307:evil.test", "redirect:308:evil.test", "redirect:302:evil.test", "redirect:307:REALM:8443", "redirect:301:REALM:8443", "redirect:307:plain-REALM", "redirect:308:plain-REALM", "redirect:307:REALM", "redirect:302:REALM"}).Draw(t, "fault")
		}
		if rapid.IntRange(0, 3).Draw(t, "neverAccept") == 0 {
			h.Accept = "never"
		}
		h.ErrContentType = rapid.SampledFrom([]string{"", "", "application/json", "text/plain; charset=utf-8", "text/html"}).Draw(t, "errContentType")
		h.Retry401 = rapid.SampledFrom([]string{"", "", "", "nohdr", "negotiate", "malformed", "basic"}).Draw(t, "retry401")
		s.Hosts = append(s.Hosts, h)
	}
	n := rapid.IntRange(1, 8).Draw(t, "nreqs")
	for i := 0; i < n; i++ {
		s.Reqs = append(s.Reqs, Req{
			Host:       rapid.IntRange(0, nh-1).Draw(t, "host"),
			Method:     rapid.SampledFrom([]string{"GET", "PUT", "POST"}).Draw(t, "method"),
			Repo:       rapid.SampledFrom([]string{"foo", "bar"}).Draw(t, "repo"),
			Body:       rapid.SampledFrom([]string{"", "", "plain", "rewindable"}).Draw(t, "body"),
			Desired:    rapid.SampledFrom([]string{"", "", "repository:bar:pull", "repository:bar:push"}).Draw(t, "desired"),
			SleepMs:    rapid.SampledFrom([]int{0, 0, 1500, 61000}).Draw(t, "sleep"),
			Plain:      rapid.IntRange(0, 5).Draw(t, "plain") == 0,
			HostHeader: rapid.SampledFrom([]int{0, 0, 0, 0, 1, 2}).Draw(t, "hostHeader"),
		})
	}
	return s
}

var prop = &vt.Prop[Script]{
	ID:   "C11",
	Name: "CredentialConfinement",
	Rule: "2-3 registry hosts (two of them differing only in port; sometimes a third named sreg1.test, whose http:// URL and reg1.test's https:// URL differ only around the '://') with distinct unique secrets and credential kinds {none, basic, refresh, refresh+basic, static token, failing config lookup}; token realms on separate hosts or on another registry's host; challenges {Bearer exact / no scope / unrelated scope, Basic, both, raw headers of every RFC 7235 shape: case variants, token and quoted values with escapes (also ones that read differently as string-literal escapes), missing '=', unterminated quotes, empty, 8-bit, unknown schemes (Negotiate, NTLM, Digest, Custom), several challenges in one line, realm naming another registry, malformed realm URL, very long scope}; token servers that fail with statuses 300-599 or redirect (301/302/307/308) to a host nobody named or to another port of the realm's host or to the same host over plaintext http or to themselves (a redirect loop, followed a bounded number of times), return malformed / empty JSON, omit the token, lack the POST endpoint, refuse over-wide scopes; registries that answer 401 to every token, with the usual challenge or - when a token was presented - with no, an unsupported or an unparsable Www-Authenticate header or with a Basic-only challenge; 1-8 requests (some to the plaintext http endpoint of a host name, which is a registry of its own as far as challenges go; some with a Host header naming another of the hosts) with no body, a plain body and a rewindable body; in a synctest bubble over the in-memory world; oracle: every secret is searched (also base64- and URL-decoded) in every outgoing request: a password only to a realm host its own registry named, or as Basic to its own registry after that registry issued a Basic challenge; a refresh token only to such realms; access tokens only to their own registry; at most 2 registry requests (and 8 token requests) per call; a 401 answered to a token minted in this call (on the retry, or on a first attempt made with a token acquired up front) reaches the caller as 403 DENIED (a JSON error document declared as application/json, whatever content type the registry's 401 had); the caller's request (method, URL, headers, ContentLength, Body, GetBody) is unchanged; every body (incl. those from GetBody) is closed on every path; a failing config lookup sends nothing; no panic; non-trivial = a challenge was seen and a credential was sent; distinct = the script",
	Gen:  genScript,
	Run:  run,
}

func TestPropConfinement(t *testing.T) {
	testingT = t
	vt.Check(t, prop)
}

func TestReplay(t *testing.T) {
	testingT = t
	vt.Register(prop)
	vt.Register(propConc)
	vt.Replay(t)
}
