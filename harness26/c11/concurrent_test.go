package c11

// Calls in flight at the same time to a registry that refuses every token: each call that came back
// from the registry with a 401 to a token issued during this exchange - to itself or, a moment ago, to a
// call running beside it - surfaces that as 403 DENIED, and no call makes more than two attempts.

import (
	"context"
	"encoding/json"
	"fmt"
	"io"
	"net/http"
	"strings"
	"sync"
	"testing"
	"testing/synctest"
	"time"

	"cuelabs.dev/go/oci/ociregistry/ociauth"
	"pgregory.net/rapid"

	"verif/harness/vt"
	aw "verif/harness26/authworld"
)

type ConcCall struct {
	Repo    string `json:"repo"`
	Method  string `json:"method"`
	StartMs int    `json:"start_ms"`
}

type ConcScript struct {
	Host  aw.HostSpec `json:"host"`
	Calls []ConcCall  `json:"calls"`
}

func runConc(s ConcScript, v *vt.V) {
	synctest.Test(testingT, func(t *testing.T) {
		hosts := []aw.HostSpec{s.Host}
		w := aw.New(hosts)
		w.Allowed[s.Host.Name] = aw.ParseScopeText("repository:foo:pull,push repository:bar:pull,push")
		tr := ociauth.NewStdTransport(ociauth.StdTransportParams{Config: config{w.Hosts}, Transport: w})
		type result struct {
			status int
			body   []byte
			err    error
		}
		results := make([]result, len(s.Calls))
		var wg sync.WaitGroup
		for i, c := range s.Calls {
			wg.Add(1)
			go func() {
				defer wg.Done()
				time.Sleep(time.Duration(c.StartMs) * time.Millisecond)
				path := "/v2/" + c.Repo + "/x"
				required := aw.RequiredFor(c.Method, path)
				ctx := ociauth.ContextWithRequestInfo(context.Background(), ociauth.RequestInfo{RequiredScope: ociauth.ParseScope(aw.SetString(required))})
				req, _ := http.NewRequestWithContext(ctx, c.Method, "https://"+s.Host.Name+path, nil)
				req.Header.Set("X-Call", fmt.Sprint(i))
				resp, err := tr.RoundTrip(req)
				results[i].err = err
				if resp != nil {
					results[i].status = resp.StatusCode
					results[i].body, _ = io.ReadAll(resp.Body)
					resp.Body.Close()
				}
			}()
		}
		wg.Wait()
		minted := map[string]bool{}
		for _, a := range w.Log {
			if a.Kind == "token" && a.Minted != nil {
				minted["Bearer "+a.Minted.Encode()] = true
			}
		}
		overlapped := 0
		for i, c := range s.Calls {
			desc := fmt.Sprintf("call %d (%s %s, started at %d ms) of %d concurrent calls to %s (cred %s, 401 bodies take %d ms, every token is refused)", i, c.Method, c.Repo, c.StartMs, len(s.Calls), s.Host.Name, s.Host.Cred, s.Host.Body401DelayMs)
			nreg, lastStatus, lastAuth := 0, 0, ""
			for _, a := range w.Log {
				if a.Kind == "registry" && a.Call == i {
					nreg++
					lastStatus, lastAuth = a.Status, a.Auth
				}
			}
			if nreg > 2 {
				v.Failf("unbounded", "%s: %d attempts against the registry", desc, nreg)
				return
			}
			if results[i].err != nil || lastStatus != 401 || !minted[lastAuth] {
				continue
			}
			overlapped++
			var we struct {
				Errors []struct{ Code string } `json:"errors"`
			}
			if results[i].status != 403 || json.Unmarshal(results[i].body, &we) != nil || len(we.Errors) == 0 || we.Errors[0].Code != "DENIED" {
				v.Failf("401-after-fresh-token", "%s: its last attempt carried a token issued during this exchange and was answered 401; the caller got status %d body %.100q, want 403 DENIED", desc, results[i].status, results[i].body)
				return
			}
		}
		v.Class("concurrent-refused/calls=%d/denied=%d", len(s.Calls), min(overlapped, 3))
		if overlapped > 1 {
			var k []string
			for _, c := range s.Calls {
				k = append(k, fmt.Sprintf("%s:%s:%d", c.Method, c.Repo, c.StartMs))
			}
			v.NonTrivial(fmt.Sprintf("%s|%d|%s", s.Host.Cred, s.Host.Body401DelayMs, strings.Join(k, ",")))
		}
	})
}

var propConc = &vt.Prop[ConcScript]{
	ID:   "C11",
	Name: "ConcurrentRefusedTokens",
	Rule: "2-4 calls (GET/PUT on two repositories) start 0-12 ms apart, in a synctest bubble, against one registry that challenges with Bearer (scope exact or none), takes 3-10 ms to deliver its 401 bodies and refuses every token; credentials none / basic / refresh; oracle over the world's log: no call makes more than two attempts against the registry, and every call whose last attempt carried a token minted during the exchange (for itself or for a call beside it) and was answered 401 reaches its caller as 403 DENIED; non-trivial = at least two calls ended that way; distinct = (credentials, delay, calls)",
	Gen: func(t *rapid.T) ConcScript {
		h := aw.HostSpec{Name: "reg1.test", Service: "svc0", Realm: "auth.test", Accept: "never"}
		h.Cred = rapid.SampledFrom([]string{"none", "basic", "refresh"}).Draw(t, "cred")
		h.Challenge = rapid.SampledFrom([]string{"exact", "exact", "none"}).Draw(t, "challenge")
		h.TTL = rapid.SampledFrom([]int{-1, 3, 300}).Draw(t, "ttl")
		h.Body401DelayMs = rapid.SampledFrom([]int{3, 10}).Draw(t, "body401DelayMs")
		s := ConcScript{Host: h}
		for n := rapid.IntRange(2, 4).Draw(t, "ncalls"); n > 0; n-- {
			s.Calls = append(s.Calls, ConcCall{
				Repo:    rapid.SampledFrom([]string{"foo", "foo", "bar"}).Draw(t, "repo"),
				Method:  rapid.SampledFrom([]string{"GET", "GET", "PUT"}).Draw(t, "method"),
				StartMs: rapid.SampledFrom([]int{0, 0, 2, 5, 8, 12}).Draw(t, "startMs"),
			})
		}
		return s
	},
	Run: runConc,
}

func TestPropConcurrentRefused(t *testing.T) {
	testingT = t
	propConc.Scale = 0.25
	vt.Check(t, propConc)
}
