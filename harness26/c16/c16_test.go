// Package c16 decides property C16: concurrent unified reads are leak-free
// for every answer order and cancellation. Schedules are enumerated and
// executed in testing/synctest bubbles, where every event is separated from the
// next by synctest.Wait, so the order of answers and cancellation is exact.
package c16

import (
	"context"
	"errors"
	"fmt"
	"io"
	"runtime"
	"strings"
	"testing"
	"testing/synctest"
	"time"

	"cuelabs.dev/go/oci/ociregistry"
	"cuelabs.dev/go/oci/ociregistry/ociunify"
	"github.com/opencontainers/go-digest"
	"pgregory.net/rapid"

	"verif/harness/vt"
)

func TestMain(m *testing.M) { vt.Main(m) }

// Script is one schedule.
type Script struct {
	Entry string `json:"entry"` // GetBlob | GetBlobRange | GetManifest | ResolveBlob | ResolveManifest
	// per member
	OK   [2]bool   `json:"ok"`   // the member answers with success
	Mode [2]string `json:"mode"` // gate: answers when the schedule says so; ctx: answers only once its context is cancelled
	// Events in order: "A0", "A1" (a gate-mode member answers), "X" (the caller cancels),
	// "R" marks the point by which the call is expected to have returned and, for
	// reader-returning entries, the test closes the returned reader ("C").
	Events []string `json:"events"`
	// CloseErr makes readers' Close return an error.
	CloseErr bool `json:"close_err,omitempty"`
	// CtxErr: a failing member fails with an error that wraps context.DeadlineExceeded (a timeout of
	// its own, not the caller's cancellation).
	CtxErr bool `json:"ctx_err,omitempty"`
	// Background: the caller's context is one that can never be cancelled (context.Background with a
	// value); only for schedules without caller cancellation and without members that wait for it
	Background bool `json:"background,omitempty"`
	// Nested: the unifier under test has, as its member 0, another concurrent unifier over the two
	// scripted members (seen through a probe that records the context it is given and hands readers
	// through untouched) and, as its member 1, a registry that fails at once
	Nested bool `json:"nested,omitempty"`
	// Empty: the content the members serve is empty (descriptor size 0)
	Empty bool `json:"empty,omitempty"`
	// ValueReaders: the members hand out readers whose dynamic type is a struct value, not a pointer
	ValueReaders bool `json:"value_readers,omitempty"`
	// Streaming: the members' readers deliver their content and then wait, in Read, for Close or for the
	// cancellation of their context instead of reporting the end (never together with ReadAll)
	Streaming bool `json:"streaming,omitempty"`
	// ReadAll: the returned reader is read to its end before it is closed
	ReadAll bool `json:"read_all,omitempty"`
	// Timed variant: instead of exact events, members answer after virtual delays.
	Delay  [2]int `json:"delay,omitempty"`  // ms
	Cancel int    `json:"cancel,omitempty"` // ms; 0 = never
	Timed  bool   `json:"timed,omitempty"`
}

var errMember = [2]error{errors.New("member 0 says no"), errors.New("member 1 says no")}
var errClose = errors.New("close failed")

type reader struct {
	member   int
	ctx      context.Context
	closed   int
	closeErr bool
	r        *strings.Reader
	// streaming: once the content is delivered Read does not report the end: it waits until the reader
	// is closed or its context is cancelled (a body whose sender is in no hurry)
	streaming bool
	done      chan struct{}
	// deadAtClose: the context the member was given had been cancelled before Close was called on
	// the reader (a member that needs its context to wind the read down would fail)
	deadAtClose bool
}

func (r *reader) Read(p []byte) (int, error) {
	n, err := r.r.Read(p)
	if err == io.EOF && r.streaming {
		select {
		case <-r.done:
			return 0, errors.New("read on a closed reader")
		case <-r.ctx.Done():
			return 0, r.ctx.Err()
		}
	}
	return n, err
}
func (r *reader) Close() error {
	r.closed++
	if r.closed == 1 && r.done != nil {
		close(r.done)
	}
	if r.closed == 1 && r.ctx.Err() != nil {
		r.deadAtClose = true // the member's context was already cancelled when its reader was being closed
	}
	if r.closeErr {
		return errClose
	}
	return nil
}
func (r *reader) Descriptor() ociregistry.Descriptor {
	return ociregistry.Descriptor{Digest: digest.FromString("x"), Size: int64(r.r.Size()), MediaType: fmt.Sprintf("member/%d", r.member)}
}

type member struct {
	*ociregistry.Funcs
	id       int
	ok       bool
	mode     string
	release  chan struct{}
	ctxErr   bool
	delay    time.Duration
	closeErr bool
	// valueReaders: hand out struct-valued readers
	valueReaders bool
	empty        bool
	streaming    bool

	entered  bool
	ctx      context.Context
	returned bool
	readers  []*reader
}

func (m *member) wait(ctx context.Context) {
	m.entered = true
	m.ctx = ctx
	switch {
	case m.delay > 0:
		select {
		case <-time.After(m.delay):
		case <-ctx.Done():
			if m.mode != "ctx" {
				// a gate/timed member that ignores cancellation until its time comes
				<-time.After(m.delay)
			}
		}
	case m.mode == "ctx":
		<-ctx.Done()
	default:
		<-m.release
	}
	m.returned = true
}

func (m *member) failure() error {
	if m.ctxErr {
		return fmt.Errorf("member %d gave up on its own: %w", m.id, context.DeadlineExceeded)
	}
	return errMember[m.id]
}

func (m *member) read(ctx context.Context) (ociregistry.BlobReader, error) {
	m.wait(ctx)
	if !m.ok {
		return nil, m.failure()
	}
	content := "x"
	if m.empty {
		content = ""
	}
	r := &reader{member: m.id, ctx: ctx, r: strings.NewReader(content), closeErr: m.closeErr, streaming: m.streaming, done: make(chan struct{})}
	m.readers = append(m.readers, r)
	if m.valueReaders {
		return valueReader{r}, nil
	}
	return r, nil
}

// valueReader is a BlobReader whose dynamic type is a struct value.
type valueReader struct{ *reader }

func (m *member) resolve(ctx context.Context) (ociregistry.Descriptor, error) {
	m.wait(ctx)
	if !m.ok {
		return ociregistry.Descriptor{}, m.failure()
	}
	return ociregistry.Descriptor{Digest: digest.FromString("x"), Size: 1, MediaType: fmt.Sprintf("member/%d", m.id)}, nil
}

func (m *member) GetBlob(ctx context.Context, repo string, d ociregistry.Digest) (ociregistry.BlobReader, error) {
	return m.read(ctx)
}
func (m *member) GetBlobRange(ctx context.Context, repo string, d ociregistry.Digest, o0, o1 int64) (ociregistry.BlobReader, error) {
	return m.read(ctx)
}
func (m *member) GetManifest(ctx context.Context, repo string, d ociregistry.Digest) (ociregistry.BlobReader, error) {
	return m.read(ctx)
}
func (m *member) ResolveBlob(ctx context.Context, repo string, d ociregistry.Digest) (ociregistry.Descriptor, error) {
	return m.resolve(ctx)
}
func (m *member) ResolveManifest(ctx context.Context, repo string, d ociregistry.Digest) (ociregistry.Descriptor, error) {
	return m.resolve(ctx)
}

// probe sits between an outer unifier and its member and records the contexts the member is given.
type probe struct {
	ociregistry.Interface
	ctxs []context.Context
}

func (p *probe) GetBlob(ctx context.Context, repo string, d ociregistry.Digest) (ociregistry.BlobReader, error) {
	p.ctxs = append(p.ctxs, ctx)
	return p.Interface.GetBlob(ctx, repo, d)
}
func (p *probe) GetBlobRange(ctx context.Context, repo string, d ociregistry.Digest, o0, o1 int64) (ociregistry.BlobReader, error) {
	p.ctxs = append(p.ctxs, ctx)
	return p.Interface.GetBlobRange(ctx, repo, d, o0, o1)
}
func (p *probe) GetManifest(ctx context.Context, repo string, d ociregistry.Digest) (ociregistry.BlobReader, error) {
	p.ctxs = append(p.ctxs, ctx)
	return p.Interface.GetManifest(ctx, repo, d)
}
func (p *probe) ResolveBlob(ctx context.Context, repo string, d ociregistry.Digest) (ociregistry.Descriptor, error) {
	p.ctxs = append(p.ctxs, ctx)
	return p.Interface.ResolveBlob(ctx, repo, d)
}
func (p *probe) ResolveManifest(ctx context.Context, repo string, d ociregistry.Digest) (ociregistry.Descriptor, error) {
	p.ctxs = append(p.ctxs, ctx)
	return p.Interface.ResolveManifest(ctx, repo, d)
}

var errDead = errors.New("this registry is down")

func deadRegistry() ociregistry.Interface {
	return &ociregistry.Funcs{NewError: func(ctx context.Context, method, repo string) error { return errDead }}
}

type outcome struct {
	done   bool
	err    error
	member int // who supplied the result (-1 unknown)
	rd     ociregistry.BlobReader
}

var prop *vt.Prop[Script]

func run(s Script, v *vt.V) {
	failed := false
	synctest.Test(testingT, func(t *testing.T) {
		base := bubbleGoroutines()
		ms := [2]*member{}
		for i := range ms {
			ms[i] = &member{id: i, ok: s.OK[i], mode: s.Mode[i], release: make(chan struct{}), closeErr: s.CloseErr, ctxErr: s.CtxErr, valueReaders: s.ValueReaders, empty: s.Empty, streaming: s.Streaming}
			if s.Timed {
				ms[i].delay = time.Duration(s.Delay[i]) * time.Millisecond
			}
		}
		u := ociunify.New(ms[0], ms[1], &ociunify.Options{ReadPolicy: ociunify.ReadConcurrent})
		var pr *probe
		if s.Nested {
			pr = &probe{Interface: u}
			u = ociunify.New(pr, deadRegistry(), &ociunify.Options{ReadPolicy: ociunify.ReadConcurrent})
		}
		ctx, cancel := context.WithCancel(context.Background())
		defer cancel()
		if s.Background && !contains(s.Events, "X") && s.Cancel == 0 && s.Mode[0] != "ctx" && s.Mode[1] != "ctx" {
			type k struct{}
			ctx = context.WithValue(context.Background(), k{}, "never done")
		}
		var out outcome
		isReader := !strings.HasPrefix(s.Entry, "Resolve")
		go func() {
			dg := digest.FromString("x")
			if s.Streaming || s.Empty {
				// (these variants ask under the sha512 name of the content; the members describe what
				// they hold by its sha256 name, as registries that store under one algorithm do)
				dg = digest.SHA512.FromString("x")
			}
			var d ociregistry.Descriptor
			switch s.Entry {
			case "GetBlob":
				out.rd, out.err = u.GetBlob(ctx, "foo", dg)
			case "GetBlobRange":
				out.rd, out.err = u.GetBlobRange(ctx, "foo", dg, 0, 1)
			case "GetManifest":
				out.rd, out.err = u.GetManifest(ctx, "foo", dg)
			case "ResolveBlob":
				d, out.err = u.ResolveBlob(ctx, "foo", dg)
			case "ResolveManifest":
				d, out.err = u.ResolveManifest(ctx, "foo", dg)
			}
			out.member = -1
			if out.err == nil {
				mt := d.MediaType
				if out.rd != nil {
					mt = out.rd.Descriptor().MediaType
				}
				fmt.Sscanf(mt, "member/%d", &out.member)
			}
			out.done = true
		}()
		synctest.Wait()
		fail := func(sig, f string, a ...any) {
			if failed {
				return
			}
			failed = true
			v.Failf(sig, "schedule %+v: %s", s, fmt.Sprintf(f, a...))
			// persist now: if a goroutine leaked, the runtime aborts the process when the bubble ends
			vt.SaveFailureNow(prop, s, v)
		}
		if !ms[0].entered || !ms[1].entered {
			fail("member-not-called", "not both members were called concurrently (entered: %v %v)", ms[0].entered, ms[1].entered)
		}

		// ---- drive the schedule and compute the expectation alongside
		decided := false           // by the totally ordered events so far the call must have its result
		var wantMember = -2        // -2 undecided; -1 error; 0/1 success from that member
		tolerant := map[int]bool{} // results accepted when an answer and the cancellation coincide
		failedCount := 0
		cancelled := false
		answer := func(i int) {
			if decided {
				return
			}
			if ms[i].ok {
				decided, wantMember = true, i
			} else {
				failedCount++
				if failedCount == 2 {
					decided, wantMember = true, -1
				}
			}
		}
		closedByTest := false
		closeReader := func() {
			if out.done && out.rd != nil && !closedByTest {
				if s.ReadAll {
					io.Copy(io.Discard, out.rd)
				}
				// the chosen member's context must still be live while the reader is open - also once
				// it has been read to its end - (unless the caller itself has cancelled)
				if out.member >= 0 && !cancelled && ms[out.member].ctx.Err() != nil {
					fail("context-dead-early", "the context given to the chosen member %d is already cancelled while the returned reader is open", out.member)
				}
				if pr != nil && out.member >= 0 && !cancelled {
					for _, c := range pr.ctxs {
						if c.Err() != nil {
							fail("context-dead-early", "nested: the context the outer unifier gave to its chosen member (the inner unifier) is already cancelled while the returned reader is open")
						}
					}
				}
				err := out.rd.Close()
				if out.member >= 0 && !cancelled {
					for _, mr := range ms[out.member].readers {
						if mr.deadAtClose {
							fail("context-dead-early", "the context given to the chosen member %d had already been cancelled when the member's reader was being closed (it stays live until the reader is closed)", out.member)
						}
					}
				}
				if s.CloseErr && err == nil {
					fail("close-error-lost", "the reader's Close error was swallowed")
				}
				closedByTest = true
				synctest.Wait()
				if out.member >= 0 && ms[out.member].ctx.Err() == nil {
					fail("context-not-cancelled", "the context given to the chosen member %d is still live after the returned reader was closed", out.member)
				}
			}
		}
		if s.Timed {
			if s.Cancel > 0 {
				go func() {
					time.Sleep(time.Duration(s.Cancel) * time.Millisecond)
					cancelled = true
					cancel()
				}()
			}
			time.Sleep(time.Hour) // virtual: everything that is going to happen has happened
			synctest.Wait()
			// expectation for timed runs: by (virtual) time order; ties accept either
			type ev struct {
				at   int
				kind string
			}
			at := func(i int) int {
				// a member that answers upon cancellation does so at the cancellation instant if that comes first
				if ms[i].mode == "ctx" && s.Cancel > 0 && s.Cancel < s.Delay[i] {
					return s.Cancel
				}
				return s.Delay[i]
			}
			evs := []ev{{at(0), "A0"}, {at(1), "A1"}}
			if s.Cancel > 0 {
				evs = append(evs, ev{s.Cancel, "X"})
			}
			for at := 0; at <= 1000 && !decided; at++ {
				var now []string
				for _, e := range evs {
					if e.at == at {
						now = append(now, e.kind)
					}
				}
				if len(now) == 0 {
					continue
				}
				if len(now) > 1 {
					// simultaneous: accept every result some order of them would give
					for _, first := range now {
						switch first {
						case "X":
							tolerant[-1] = true
						case "A0", "A1":
							i := int(first[1] - '0')
							if ms[i].ok {
								tolerant[i] = true
							} else {
								tolerant[-1] = true
								for _, o := range now {
									if o != first && o != "X" && ms[int(o[1]-'0')].ok {
										tolerant[int(o[1]-'0')] = true
									}
								}
							}
						}
					}
					decided = true
					break
				}
				switch now[0] {
				case "X":
					decided, wantMember = true, -1
				default:
					answer(int(now[0][1] - '0'))
				}
			}
			if !decided {
				decided, wantMember = true, -1
			}
		} else {
			for _, e := range s.Events {
				switch e {
				case "A0", "A1":
					i := int(e[1] - '0')
					if ms[i].mode == "gate" {
						close(ms[i].release)
						answer(i)
					}
				case "AB":
					// both members answer at the same instant
					if !decided {
						switch {
						case ms[0].ok && ms[1].ok:
							tolerant[0], tolerant[1] = true, true
							decided = true
						case ms[0].ok:
							decided, wantMember = true, 0
						case ms[1].ok:
							decided, wantMember = true, 1
						default:
							decided, wantMember = true, -1
						}
					}
					close(ms[0].release)
					close(ms[1].release)
				case "X":
					cancelled = true
					if !decided {
						// members that answer upon cancellation race with the cancellation itself
						// (who is still out is looked at BEFORE the cancellation is let loose)
						for i := range ms {
							if ms[i].mode == "ctx" && !ms[i].returned {
								if ms[i].ok {
									tolerant[i] = true
								}
							}
						}
						decided, wantMember = true, -1
						if len(tolerant) > 0 {
							tolerant[-1] = true
						}
					}
					cancel()
				case "C":
					closeReader()
				}
				synctest.Wait()
				if decided && !out.done {
					fail("call-did-not-return", "after events up to %q the call should have returned", e)
				}
				if !decided && out.done {
					fail("returned-too-early", "the call returned (member %d, err %v) before any answer or cancellation decided it", out.member, out.err)
				}
			}
		}
		synctest.Wait()
		if !out.done {
			fail("call-did-not-return", "the call never returned")
			return
		}
		// ---- the result
		got := out.member
		if out.err != nil {
			got = -1
		}
		if len(tolerant) > 0 {
			if !tolerant[got] {
				fail("wrong-result", "result from %d (err %v); with the coinciding events any of %v is acceptable", got, out.err, tolerant)
			}
		} else if got != wantMember {
			fail("wrong-result", "result from %d (err %v), want %d (-1 = error; the first successful answer wins, an error only if both fail or the caller cancelled first)", got, out.err, wantMember)
		}
		if got >= 0 && !ms[got].ok {
			fail("wrong-result", "success attributed to member %d which answered with failure", got)
		}
		if !isReader && got >= 0 {
			// resolve-style: the member's context is cancelled once the call has returned
			if ms[got].ctx.Err() == nil {
				fail("context-not-cancelled", "resolve-style call returned but the chosen member's context is still live")
			}
		}
		closeReader()
		// release anything still gated so that "both members have returned"
		for i := range ms {
			if ms[i].mode == "gate" && !ms[i].returned && !s.Timed {
				select {
				case <-ms[i].release:
				default:
					close(ms[i].release)
				}
			}
		}
		if !cancelled {
			hasCtxMember := ms[0].mode == "ctx" && !ms[0].returned || ms[1].mode == "ctx" && !ms[1].returned
			if hasCtxMember {
				cancel() // a member that only answers on cancellation is released by the caller's cancellation
			}
		}
		synctest.Wait()
		for i := range ms {
			if !ms[i].returned {
				fail("harness", "member %d never returned", i)
			}
			for _, r := range ms[i].readers {
				chosen := out.rd != nil && got == i
				if !chosen && r.closed == 0 {
					fail("loser-reader-not-closed", "the reader opened on member %d, which was not chosen, was never closed", i)
				}
				if chosen && r.closed == 0 {
					fail("harness", "chosen reader not closed by the test")
				}
			}
			if ms[i].ctx != nil && ms[i].ctx.Err() == nil {
				fail("context-not-cancelled", "member %d's context is still live after everything finished", i)
			}
		}
		if pr != nil {
			for _, c := range pr.ctxs {
				if c.Err() == nil {
					fail("context-not-cancelled", "nested: the context the outer unifier gave to its member (the inner unifier) is still live after everything finished")
				}
			}
		}
		if n := bubbleGoroutines(); n > base {
			fail("goroutine-leak", "%d goroutine(s) remain blocked after both members returned and the reader was closed (baseline %d, now %d)", n-base, base, n)
		}
	})
	v.Class("entry:%s", s.Entry)
	v.Class("ok=%v%v/modes=%s,%s", s.OK[0], s.OK[1], s.Mode[0], s.Mode[1])
	key := fmt.Sprintf("%+v", s)
	if s.OK[0] || s.OK[1] || contains(s.Events, "X") || s.Cancel > 0 {
		v.NonTrivial(key)
	}
}

// bubbleGoroutines counts the goroutines of the current synctest bubble
// (runtime.NumGoroutine would also count unrelated ones, e.g. a running finalizer).
func bubbleGoroutines() int {
	buf := make([]byte, 1<<18)
	n := runtime.Stack(buf, true)
	c := 0
	for _, l := range strings.Split(string(buf[:n]), "\n") {
		if strings.HasPrefix(l, "goroutine ") && strings.Contains(l, "synctest bubble") {
			c++
		}
	}
	return c
}

func contains(l []string, x string) bool {
	for _, y := range l {
		if y == x {
			return true
		}
	}
	return false
}

var testingT *testing.T

var entries = []string{"GetBlob", "GetBlobRange", "GetManifest", "ResolveBlob", "ResolveManifest"}

func enumerate(yield func(Script) bool) {
	bools := []bool{true, false}
	for _, entry := range entries {
		for _, ok0 := range bools {
			for _, ok1 := range bools {
				for _, closeErr := range []bool{false, true} {
					if closeErr && strings.HasPrefix(entry, "Resolve") {
						continue
					}
					ok := [2]bool{ok0, ok1}
					// both members answer when the schedule says so
					for _, order := range [][]string{{"A0", "A1"}, {"A1", "A0"}} {
						for xpos := -1; xpos <= 3; xpos++ { // -1: no cancellation; 3: after the reader was closed
							ev := []string{}
							for i := 0; i <= 2; i++ {
								if xpos == i {
									ev = append(ev, "X")
								}
								if i < 2 {
									ev = append(ev, order[i])
								}
							}
							// variants: the returned reader is closed before / after the loser answers
							for _, closeAt := range []int{1, 2} {
								e2 := []string{}
								n := 0
								for _, e := range ev {
									e2 = append(e2, e)
									if e[0] == 'A' {
										n++
										if n == closeAt {
											e2 = append(e2, "C")
										}
									}
								}
								if xpos == 3 {
									e2 = append(e2, "X")
								}
								if !yield(Script{Entry: entry, OK: ok, Mode: [2]string{"gate", "gate"}, Events: e2, CloseErr: closeErr}) {
									return
								}
								if !(ok[0] && ok[1]) && !yield(Script{Entry: entry, OK: ok, Mode: [2]string{"gate", "gate"}, Events: e2, CloseErr: closeErr, CtxErr: true}) {
									return
								}
							}
						}
					}
					// both members answer at the same instant
					if !yield(Script{Entry: entry, OK: ok, Mode: [2]string{"gate", "gate"}, Events: []string{"AB", "C"}, CloseErr: closeErr}) {
						return
					}
					// one member answers only once its context is cancelled
					for ci := 0; ci < 2; ci++ {
						modes := [2]string{"gate", "gate"}
						modes[ci] = "ctx"
						a := fmt.Sprintf("A%d", 1-ci)
						for _, ev := range [][]string{{a, "C", "X"}, {"X", a}, {a, "X", "C"}} {
							if !yield(Script{Entry: entry, OK: ok, Mode: modes, Events: ev, CloseErr: closeErr}) {
								return
							}
						}
					}
					if !yield(Script{Entry: entry, OK: ok, Mode: [2]string{"ctx", "ctx"}, Events: []string{"X"}, CloseErr: closeErr}) {
						return
					}
				}
			}
		}
	}
}

func TestPropSchedules(t *testing.T) {
	testingT = t
	prop = &vt.Prop[Script]{
		ID:   "C16",
		Name: "UnifyConcurrentSchedules",
		Rule: "complete enumeration, executed in synctest bubbles with every event separated by synctest.Wait: 5 read entry points x 2x2 member outcomes x both completion orders x caller cancellation {none, before any answer, between the answers, after both, after the reader was closed} x returned reader closed before / after the loser answers x reader Close succeeding / failing x the returned reader read to its end before it is closed or not, schedules without caller cancellation also under a caller context that can never be cancelled, plus members that answer only once their context is cancelled (one or both) and members that answer at the same instant; every schedule also with the unifier under test laid over another concurrent unifier (seen through a probe that records the context it is handed) and a registry that is down; reader schedules also with members whose readers are struct values rather than pointers, with empty content, and with readers that wait in Read for Close or cancellation once their content is delivered (the last two asked for under the sha512 name of content the members describe by its sha256 name); oracle = the call returns exactly when the ordered events decide it, with the first successful answer (error only if both failed or the caller cancelled first; when a cancellation-driven answer coincides with the cancellation either is accepted); the chosen member's context is live until the returned reader is closed and cancelled afterwards (resolve-style: cancelled on return); every reader of the member not chosen is closed; both members' contexts end cancelled; the number of goroutines in the bubble is back at its baseline; non-trivial = some member succeeds or the caller cancels; distinct = the schedule",
		Run:  run,
	}
	shard, shards := vt.Shard()
	vt.Enumerate(t, prop, true, func(yield func(Script) bool) {
		k := 0
		enumerate(func(s0 Script) bool {
			variants := []Script{s0}
			isReader := !strings.HasPrefix(s0.Entry, "Resolve")
			if isReader {
				s1 := s0
				s1.ReadAll = true
				variants = append(variants, s1)
			}
			if !contains(s0.Events, "X") && s0.Mode[0] == "gate" && s0.Mode[1] == "gate" {
				s2 := s0
				s2.Background, s2.ReadAll = true, isReader
				variants = append(variants, s2)
			}
			for _, sv := range append([]Script{}, variants...) {
				sv.Nested = true
				variants = append(variants, sv)
			}
			if isReader {
				sv := s0
				sv.ValueReaders = true
				variants = append(variants, sv)
				se := s0
				se.Empty = true
				variants = append(variants, se)
				ss := s0
				ss.Streaming = true
				variants = append(variants, ss)
			}
			for _, s := range variants {
				k++
				if k%shards != shard {
					continue
				}
				if !yield(s) {
					return false
				}
			}
			return true
		})
	})
}

var propTimed *vt.Prop[Script]

func TestPropTimed(t *testing.T) {
	testingT = t
	propTimed = &vt.Prop[Script]{
		ID:   "C16",
		Name: "UnifyConcurrentTimed",
		Rule: "rapid: members answer after virtual delays of 1-20 ms (success / failure), the caller cancels at a virtual time or never, members either ignore cancellation until their time or answer upon it; executed in a synctest bubble; oracle as for the enumerated schedules, with either result accepted when events fall on the same virtual instant; distinct = the schedule",
		Gen: func(rt *rapid.T) Script {
			s := Script{Timed: true, Entry: rapid.SampledFrom(entries).Draw(rt, "entry")}
			for i := 0; i < 2; i++ {
				s.OK[i] = rapid.Bool().Draw(rt, "ok")
				s.Mode[i] = rapid.SampledFrom([]string{"gate", "gate", "ctx"}).Draw(rt, "mode")
				s.Delay[i] = rapid.IntRange(1, 20).Draw(rt, "delay")
			}
			if rapid.Bool().Draw(rt, "cancels") {
				s.Cancel = rapid.IntRange(1, 25).Draw(rt, "cancelAt")
			}
			s.CloseErr = rapid.IntRange(0, 4).Draw(rt, "closeErr") == 0 && !strings.HasPrefix(s.Entry, "Resolve")
			return s
		},
		Run: runTimed,
	}
	prop2 := propTimed
	vt.Check(t, prop2)
}

func runTimed(s Script, v *vt.V) {
	saved := prop
	prop = propTimed
	defer func() { prop = saved }()
	// a member in ctx mode with a delay answers at min(delay, cancellation)
	run(s, v)
}

func TestReplay(t *testing.T) {
	testingT = t
	prop = &vt.Prop[Script]{ID: "C16", Name: "UnifyConcurrentSchedules", Run: run}
	propTimed = &vt.Prop[Script]{ID: "C16", Name: "UnifyConcurrentTimed", Run: runTimed}
	vt.Register(prop)
	vt.Register(propTimed)
	vt.Replay(t)
}

var _ = io.EOF
