module verif/harness26

go 1.26.8

require (
	cuelabs.dev/go/oci/ociregistry v0.0.0
	github.com/opencontainers/go-digest v1.0.0
	pgregory.net/rapid v1.3.0
	verif/harness v0.0.0
)

require github.com/opencontainers/image-spec v1.1.0 // indirect

replace cuelabs.dev/go/oci/ociregistry => /repo/ociregistry

replace verif/harness => ../harness
